"""Logger-registry stream of C17 (by-name lookup of loggers is idempotent and survives the removal of other loggers).
Harness h3_logreg (the real LoggerManager singleton: create_or_get_logger / get_logger / remove_logger /
cleanup_invalidated_loggers / get_all_loggers, checked op by op against a linear-search reference registry) vs the Lean
driver `logreg` (LogReg.step, the definition the theorems of Props/C17LogReg.lean are about).
Called from tools/props/backend.py for prop == "C17"."""
import hashlib
import os
import re

import vlib

TAG = "logreg"
HARNESS = ("h3_logreg", ["h3_logreg.cpp"], ["-fno-access-control"])
OPS = {"cg": 2, "get": 2, "rm": 2, "cleanup": 2, "all": 1, "count": 1}


def params_args(ex):
    s = ex.get("logreg") or {}
    f = s.get("findAt", "lower")
    i = s.get("insertAt", "lower")
    return [f if f in ("lower", "upper") else "lower", i if i in ("lower", "upper") else "lower"]


def op_of(ln):
    ws = ln.split(" =>")[0].split()
    if ws and ws[0] in OPS and len(ws) >= OPS[ws[0]]:
        return " ".join(ws[:OPS[ws[0]]])
    return None


def split_cases(text):
    cases, cur = [], None
    for ln in text.split("\n"):
        if ln.startswith("init "):
            cur = [ln]
            cases.append(cur)
        elif cur is not None and ln.strip() and not ln.startswith("STATS"):
            cur.append(ln)
    return cases


def replay_content(prop, header, case, upto=None):
    ops = []
    for ln in (case[1:] if upto is None else case[1:upto]):
        o = op_of(ln)
        if o:
            ops.append(o)
    return "# %s stream of %s — replay: python3 tools/check.py %s --replay <this file>\n# %s\n%s\n" % (
        TAG, prop, prop, header, "\n".join(ops))


def run(ck, tier, ps):
    """returns the coverage dict; records violations on ck; appends to ps['broken'] nothing (obligations are the caller's)"""
    prop = ck.prop
    ok, hbin, log = vlib.build_harness(HARNESS[0], HARNESS[1], extra_flags=HARNESS[2])
    if not ok:
        ck.violation("harness_build_logreg", log, "harness h3_logreg no longer compiles against the current tree (correspondence broken): " + log[-300:], no_input=True)
        return {"built": False}
    pargs = params_args(ck.extracted)
    plans = [(ck.seed, 600, 40, 7)] if tier == "quick" else [(ck.seed, 20000, 80, 9), (ck.seed + 1000, 20000, 80, 0), (ck.seed + 2000, 20000, 120, 0)]
    cov = {"params": pargs, "cases": 0, "lines": 0, "mismatches": 0, "oracle_hits": 0, "aborts": 0, "harness_stats": [], "driver_totals": [],
           "distinct_nontrivial": 0, "samples": []}
    nontrivial = set()
    first_oracle = None   # (ops so far, case, index, line)
    first_abort = None
    first_mm = None
    cdir = os.path.join(vlib.VERIF, "corpus", prop)
    runs = []
    if os.path.isdir(cdir):
        for f in sorted(os.listdir(cdir)):
            p = os.path.join(cdir, f)
            if TAG in open(p).readline():
                runs.append(("corpus/" + f, [hbin, "replay", p] + pargs))
    for sd, nrand, maxops, exh in plans:
        runs.append(("gen seed=%d" % sd, [hbin, "gen", str(sd), str(nrand), str(maxops), str(exh)] + pargs))
    for label, cmd in runs:
        rc, out = vlib.sh(cmd, env=vlib.ASAN_ENV, timeout=3000)
        aborted = rc not in (0, 3)
        cases = split_cases(out)
        cov["cases"] += len(cases)
        cov["harness_stats"] += [label + ": " + l for l in out.split("\n") if l.startswith("STATS")]
        by_id = {c[0].split()[1]: c for c in cases}
        # the driver gets completed calls only
        dtext = "\n".join(l for l in out.split("\n") if l.startswith("init ") or (" => " in l and op_of(l))) + "\n"
        rcd, dout = vlib.driver(["logreg", "trace"], stdin_data=dtext.encode(), timeout=1800)
        done = False
        for ln in dout.split("\n"):
            if ln.startswith("TRACE "):
                w = ln.split()
                kv = dict(x.split("=") for x in w[2:])
                cov["lines"] += int(kv["lines"])
                # non-trivial: a lookup (create_or_get / get) was answered after a clean-up erased an entry that sorted
                # before >= 2 remaining ones
                if int(kv["lookups_after_partial_erase"]) > 0:
                    c = by_id.get(w[1])
                    nontrivial.add(hashlib.sha1("\n".join(filter(None, (op_of(l) for l in (c or [])[1:]))).encode()).hexdigest())
                    if len(cov["samples"]) < 2 and c and len(c) > 6:
                        cov["samples"].append({"source": label, "trace": c[:12]})
            elif ln.startswith("DONE"):
                done = True
                cov["driver_totals"].append(label + ": " + ln)
            elif ln.startswith(("MISMATCH", "BAD-", "NO-INIT")):
                cov["mismatches"] += 1
                if first_mm is None:
                    m = re.search(r"trace=(\S+)", ln)
                    first_mm = (label, ln, by_id.get(m.group(1)) if m else None)
        if not done:
            cov["mismatches"] += 1
            if first_mm is None:
                first_mm = (label, "driver `logreg` did not finish (rc=%d): %s" % (rcd, dout[-300:]), None)
        # the property oracles on the real code: shortest failing case of this run
        best = None
        for c in cases:
            for i, ln in enumerate(c):
                if ln.startswith("ORACLE"):
                    cov["oracle_hits"] += 1
                    if best is None or i < best[2]:
                        best = (label, c, i, ln)
                    break
        if best and (first_oracle is None or best[2] < first_oracle[2]):
            first_oracle = best
        if aborted:
            cov["aborts"] += 1
            if first_abort is None:
                m = re.search(r"(SUMMARY: [^\n]*|runtime error: [^\n]*|AddressSanitizer[^\n]*)", out)
                first_abort = (label, cases[-1] if cases else ["init none"], "harness aborted (rc=%d) while driving the real LoggerManager: %s" % (
                    rc, m.group(1)[:240] if m else out[-300:].strip()))
    cov["distinct_nontrivial"] = len(nontrivial)
    cov["rule"] = ("one case = one life of the real LoggerManager registry (3-8 names; create_or_get / get / remove / clean-up with per-logger "
                   "queue-check answers / get_all / count; after EVERY op the harness looks up every name of the case again and compares with a "
                   "linear-search reference); non-trivial iff a lookup was answered after a clean-up erased an entry that sorted before >= 2 "
                   "remaining ones; distinct = distinct op sequences (SHA-1); exhaustive part over the four names audit/metrics/net/root: every "
                   "sequence of <= 4 ops over the full alphabet {cg,get,rm} x 4 names + {cleanup -, cleanup 0} that starts with a creation, and "
                   "every sequence of exactly %d state-changing ops (cg of an absent name, rm of a valid name, cleanup -/0 when the flag is up; "
                   "the ops that change nothing are covered by the per-op lookups)" % plans[0][3])
    if first_oracle:
        label, case, i, ln = first_oracle
        ck.violation(TAG + "_oracle", replay_content(prop, "%s: %s" % (label, ln), case, i),
                     "property fails on the real code: by-name logger lookup on the real LoggerManager disagrees with a linear-search registry: %s (%d failing cases; op sequence in the replay file)" % (ln[:300], cov["oracle_hits"]))
    if first_abort:
        label, case, what = first_abort
        ck.violation(TAG + "_abort", replay_content(prop, "%s: %s — the call that died is the last line" % (label, what), case), what)
    if first_mm and not (first_oracle or first_abort):
        label, ln, case = first_mm
        ck.violation(TAG + "_correspondence",
                     replay_content(prop, "correspondence stream `logreg` (harness h3_logreg vs Lean driver) no longer agrees: %s: %s" % (label, ln[:300]), case or ["init"]),
                     "logger-registry model and the real LoggerManager disagree (%d lines), no property oracle fired: %s" % (cov["mismatches"], ln[:300]), no_input=True)
    return cov


def replay(prop, path):
    ok, hbin, log = vlib.build_harness(HARNESS[0], HARNESS[1], extra_flags=HARNESS[2])
    if not ok:
        print(log)
        return 2
    ex = vlib.run_extract()
    vlib.lake_build(["driver"])
    pargs = params_args(ex)
    rc, out = vlib.sh([hbin, "replay", path] + pargs, env=vlib.ASAN_ENV)
    print(out)
    dtext = "\n".join(l for l in out.split("\n") if l.startswith("init ") or (" => " in l and op_of(l))) + "\n"
    rc2, dout = vlib.driver(["logreg", "trace"], stdin_data=dtext.encode())
    print(dout)
    bad = [l for l in out.split("\n") if l.startswith("ORACLE")]
    for l in bad[:3]:
        print("REPLAY-VIOLATION " + l)
    return 1 if bad or rc not in (0, 3) else 0
