"""The `mixed` correspondence stream of tools/props/backend.py (C08, C03, C20): TWO frontends with different queue types
in one process (harness/h2_mixed.cpp = the scheduler of h2_backend.cpp with FE/LoggerT dispatching to a BoundedDropping
frontend B and an UnboundedBlocking frontend U; loggers g5..g9 belong to U) against `driver mixed trace`
(lean/QuillModel/Backend/Mixed.lean, Props/C08Mixed.lean), with the property oracles of backend_gen on the real outputs
plus the quiescence oracle "after a drain every discarded statement has been reported".
An actor belongs to exactly one frontend; the registration order of the contexts (= order in the backend's cache) is the
order of the actors' first queue-writing calls, which the scripts choose."""
import hashlib
import json
import os
import re
import time
from concurrent.futures import ThreadPoolExecutor

import vlib
import backend_gen as bg

TAG = "# h2_mixed replay"
U_LOGGERS = (5, 6)
B_LOGGERS = (0, 1)


def build():
    h = hashlib.sha1(open(os.path.join(vlib.VERIF, "harness", "h2_backend.cpp"), "rb").read()).hexdigest()[:12]
    return vlib.build_harness("h2_mixed", ["h2_mixed.cpp"], extra_flags=["-fno-access-control", "-DH2_SRC_HASH=0x" + h])


class MixGen(bg.Gen):
    """scripts of a process with two frontends: every actor is bound to one of them at creation"""
    FOCI = ["order", "flush", "faults", "levels", "threads", "threads", "backtrace", "pressure", "pressure", "pressure"]

    def __init__(self, seed):
        r0 = __import__("random").Random(seed)
        super().__init__(seed, 1, focus=r0.choice(self.FOCI))
        self.fe = {}          # actor -> "u" | "b"
        self.grow = r0.random() < 0.25   # let the unbounded queues grow (outside the model: oracles only)
        self.first = r0.choice(["u", "b", "any", "any"])

    def setup(self):
        r = self.r
        f = self.focus
        grace = r.choice([0, 0, 1, 10, 1000]) if f not in ("order", "flush") else r.choice([1, 10, 100, 1000])
        soft = r.choice([1, 2, 4, 8])
        hard = max(soft, r.choice([1, 2, 4, 8, 16]))
        if f == "pressure":
            soft, hard = r.choice([(1, 1), (1, 2), (2, 2), (2, 4), (4, 8)])
        self.grace_ns = grace * 1000
        self.emit("cfg grace=%d soft=%d hard=%d tcap=%d" % (grace, soft, hard, r.choice([2, 4, 8])))
        self.nsinks = r.choice([1, 2])
        self.sinkcfg = {}
        for s in range(self.nsinks):
            lvl = r.choice([0, 0, 4]) if f == "levels" else 0
            wth = ",".join(str(k) for k in sorted(set(r.randrange(1, 12) for _ in range(r.choice([0, 1]))))) if f == "faults" else ""
            self.sinkcfg[s] = dict(lvl=lvl, m=0, r=0)
            self.emit("sink %d lvl=%d" % (s, lvl) + (" wthrow=" + wth if wth else ""))
        for g in ((0, 5) if r.random() < 0.5 else (0, 1, 5, 6)):
            sinks = sorted(r.sample(range(self.nsinks), r.randint(1, self.nsinks)))
            self.loggers[g] = sinks
            self.emit("logger %d sinks=%s lvl=%d" % (g, ",".join(map(str, sinks)), r.choice([0, 4])))
        self.emit("start")
        kinds = {"u": ["u", "b"], "b": ["b", "u"], "any": [r.choice("ub"), r.choice("ub")]}[self.first]
        for k in kinds + [r.choice("ub") for _ in range(r.choice([0, 1, 2]))]:
            self.new_actor(k)
        # the scripted registration order: the first queue-writing call of each initial actor, in creation order
        for a in list(self.actors):
            self.emit("L %d %d 4 %d" % (a, self.lg_of(a), 10))

    def emit(self, line):
        if line.split()[:1] and line.split()[0] in ("DT", "NA", "LU"):
            return          # read-pass faults of the fault layer: not part of the mixed machine
        return super().emit(line)

    def new_actor(self, kind=None):
        a = super().new_actor()
        self.fe[a] = kind or self.r.choice("ub")
        return a

    def lg_of(self, a):
        pool = [g for g in self.loggers if (g in U_LOGGERS) == (self.fe.get(a) == "u")]
        return self.r.choice(pool)

    def rnd_len(self, a=None):
        r = self.r
        if a is not None and self.fe.get(a) == "u":
            return r.choice([5, 10, 20, 40, 60, 150, 300, 450, 700]) if self.grow else r.choice([5, 10, 10, 20, 40, 60])
        return r.choice([20, 100, 150, 200, 200, 230, 300, self.max_len, self.qcap + 10])

    def front_op(self):
        o = super().front_op()
        if not o:
            return o
        w = o.split()
        if w[0] in ("RL", "RB", "CL", "DS", "SH", "QC", "LU", "DT", "NA"):
            return None     # (LU/DT/NA: read-pass faults of the fault layer, not part of the mixed machine)
        if w[0] in ("L", "LS", "LN", "LB", "IB", "FB", "F"):
            a = int(w[1])
            w[2] = str(self.lg_of(a))
            if w[0] in ("L", "LS"):
                w[4] = str(self.rnd_len(a))
            elif w[0] in ("LN", "LB"):
                w[3] = str(self.r.choice([5, 20, 60]))
        return " ".join(w)

    def script(self, nops):
        self.setup()
        self.body(nops)
        with_exit = self.r.random() < 0.7
        self.finish(False)
        if with_exit:
            for a in self.actors[:2]:
                self.emit("L %d %d 8 20" % (a, self.lg_of(a)))
            self.emit("X")
        return self.lines

    def u_actors(self):
        return sorted(a for a, k in self.fe.items() if k == "u")


HEAD = ["cfg grace=0 soft=4 hard=8 tcap=2", "sink 0 lvl=0", "logger 0 sinks=0 lvl=0", "logger 5 sinks=0 lvl=0", "start"]
DRAIN = ["K 2000000", "P", "R 1", "R 2", "R 3", "P"] * 12 + ["P", "P", "Q"]


def directed():
    """(name, unbounded actors, script)"""
    burst = ["L 1 0 4 200"] * 5
    out = []
    # (i) the demo of the seeded change: a helper thread logs once through the unbounded frontend and stays alive (its context
    # is first in the cache); the main thread sends bursts through the dropping frontend; idle passes in between
    out.append(("dir_u_first_alive", [2], HEAD + ["T 1 start", "T 2 start", "L 2 5 4 20"] + (burst + ["P"] * 5) * 3 + DRAIN + ["X"]))
    # the same, reported through the Flush path (flush_log of the unbounded thread) and through the exit path only
    out.append(("dir_u_first_flush_path", [2], HEAD + ["T 1 start", "T 2 start", "L 2 5 4 20", "P", "P"] + burst +
                ["F 2 5", "P", "R 2", "P", "R 2", "P", "R 2", "P", "R 2", "Q"] + DRAIN + ["X"]))
    out.append(("dir_u_first_exit_path", [2], HEAD + ["T 1 start", "T 2 start", "L 2 5 4 20", "P", "P"] + burst + ["X"]))
    # (ii) the unbounded thread registers first and exits: its context is reclaimed, the bounded one moves to the front
    out.append(("dir_u_exits_first", [2], HEAD + ["T 1 start", "T 2 start", "L 2 5 4 20", "T 2 exit"] + burst + ["P"] * 6 + burst + DRAIN + ["X"]))
    # (iii) the bounded thread registers first / the unbounded one in the middle / last
    out.append(("dir_b_first", [2], HEAD + ["T 1 start", "T 2 start", "L 1 0 4 20", "L 2 5 4 20"] + (burst + ["P"] * 5) * 2 + DRAIN + ["X"]))
    out.append(("dir_u_middle", [2], HEAD + ["T 1 start", "T 2 start", "T 3 start", "L 1 0 4 20", "L 2 5 4 20", "L 3 0 4 20"] +
                (burst + ["L 3 0 4 200"] * 4 + ["P"] * 6) * 2 + DRAIN + ["X"]))
    out.append(("dir_two_u_around_b", [1, 3], HEAD + ["T 1 start", "T 2 start", "T 3 start", "L 1 5 4 20", "L 2 0 4 20", "L 3 5 4 20"] +
                (["L 2 0 4 200"] * 5 + ["L 1 5 4 30", "L 3 5 4 30"] + ["P"] * 6) * 2 + DRAIN + ["X"]))
    # a bounded thread drops and exits while the unbounded one stays first (F24 rule per kind: the bounded context is kept
    # until its counter was reported, the unbounded context of an exited thread goes at once)
    out.append(("dir_b_drops_exits_u_first", [2], HEAD + ["T 1 start", "T 2 start", "L 2 5 4 20"] + burst + ["T 1 exit"] + ["P"] * 8 + DRAIN + ["X"]))
    out.append(("dir_drop_during_report_u_first", [2], HEAD + ["T 1 start", "T 2 start", "L 2 5 4 20", "L 1 0 4 300", "L 1 0 4 300", "L 1 0 4 300",
                "P", "P", "P", "P @8.1=L_1_0_4_400,L_1_0_4_400,L_2_5_4_20", "P", "P", "K 1000", "P", "P"] + DRAIN + ["X"]))
    # the F24 window in a mixed process: cache = [unbounded 2, bounded 1, bounded 3]; while the notifier reports thread 3's drops
    # (site 8) thread 1 drops a statement and exits: its context must be kept until that count was reported
    out.append(("dir_f24_window_u_first", [2], HEAD + ["T 1 start", "T 2 start", "T 3 start", "L 2 5 4 20", "L 1 0 4 20", "L 3 0 4 300", "L 3 0 4 300",
                "L 3 0 4 300", "P", "P", "P", "P @8.1=L_1_0_4_5000,T_1_exit", "P", "P", "P"] + DRAIN + ["X"]))
    # a new unbounded thread registers while the notifier runs (site 8) and inside the read pass (site 2)
    out.append(("dir_u_registers_inside_poll", [3], HEAD + ["T 1 start", "T 3 start"] + burst +
                ["P @2.1=L_3_5_4_20", "P", "P", "P @8.1=L_3_5_4_20,L_1_0_4_400", "P", "P"] + DRAIN + ["X"]))
    # the unbounded queue grows (outside the model: oracles only): many statements before the first poll
    out.append(("dir_u_grows", [2], HEAD + ["T 1 start", "T 2 start"] + ["L 2 5 4 150"] * 8 + burst + ["P"] * 16 + DRAIN + ["X"]))
    return out


def quiescence_oracle(lines, uact=()):
    """C08 at quiescence (C08_quiescent_all_reported): at a Q that follows a long drain (ten or more rounds of "time passes,
    poll", nothing but K/P/R/Q in the last 40 operations) the discard counts reported so far equal the discarded statements"""
    rec = bg.parse_run(lines)
    viol = []
    dropped = reported = 0
    hist = []

    def front(w, res):
        nonlocal dropped
        if len(w) > 1 and w[1].isdigit() and int(w[1]) in uact:
            return     # a thread of the blocking (unbounded) frontend never discards
        if w[0] in ("L", "R") and "ret=0" in res:
            dropped += 1
        elif w[0] in ("LS", "LN", "LB") and "ev=1" in res and res.endswith("bytes=0"):
            dropped += 1
        elif w[0] == "R" and res.startswith("id=") and "ret=" not in res and res.endswith("bytes=0") and "ev=1" in res:
            dropped += 1      # a stalled static macro that was refused when resumed (top level or injected inside a poll)

    for (w, res, evs) in rec["ops"]:
        for e in bg.flatten_events(evs):
            m = re.match(r"\[@\d+\.\d+ (\S+) -> (.*)\]$", e)
            if m:
                front(m.group(1).split("_"), m.group(2))
            elif e.startswith("n:dropped:"):
                reported += int(e.split(":")[2])
        front(w, res)
        if w[0] == "Q":
            before = hist[-260:]
            drained = sum(1 for w2 in before if w2[0] == "K" and len(w2) > 1 and w2[1].isdigit() and int(w2[1]) >= 2000000) >= 10 \
                and all(w2[0] in ("K", "P", "R", "Q") for w2 in before[-40:])
            if drained and reported != dropped:
                viol.append(("C08", "after a complete drain and idle passes %d ordinary log statements were discarded (the call returned false) "
                             "but the discard counts reported through the error notifier add up to %d" % (dropped, reported)))
        hist.append(w)
    return viol


def all_oracles(lines, uact):
    v = list(bg.oracles(lines)) + quiescence_oracle(lines, uact)
    out = []
    for p, msg in v:
        out.append((p, msg))
        m = re.match(r"accepted statement id=\d+ \(actor (\d+)\)", msg)
        if p == "C08" and m and int(m.group(1)) in uact:
            out.append(("C03", msg + " [thread of the blocking (unbounded) frontend]"))
    return out


def run_one(hbin, name, lines, workdir):
    path = os.path.join(workdir, name + ".txt")
    with open(path, "w") as f:
        f.write("\n".join(lines) + "\n")
    rc, out = vlib.sh([hbin, path], env=vlib.ASAN_ENV, timeout=180)
    return rc, out


def collect(ck, tier, ex, hbin, pline):
    key = hashlib.sha1((hbin + pline + tier + str(ck.seed) + vlib.tree_hash([os.path.abspath(__file__), os.path.join(vlib.VERIF, "tools", "backend_gen.py"),
                        os.path.join(vlib.VERIF, "corpus", "mixed"), vlib.DRIVER])).encode()).hexdigest()[:16]
    cpath = os.path.join(vlib.CACHE, "mixed_%s.json" % key)
    if os.path.exists(cpath):
        return json.load(open(cpath))
    t0 = time.time()
    jobs = [(n, u, l) for (n, u, l) in directed()]
    cdir = os.path.join(vlib.VERIF, "corpus", "mixed")
    if os.path.isdir(cdir):
        for f in sorted(os.listdir(cdir)):
            ls = [l.rstrip("\n") for l in open(os.path.join(cdir, f))]
            m = re.search(r"mix u=([\d,]*)", " ".join(ls[:4]))
            jobs.insert(0, ("corpus_" + f[:-4], [int(x) for x in m.group(1).split(",") if x] if m else [], [l for l in ls if l.strip() and not l.startswith("#")]))
    n_random, nops = (72, 50) if tier == "quick" else (1500, 110)
    for k in range(n_random):
        g = MixGen(ck.seed * 100003 + 77003 + k)
        sc = g.script(nops)
        jobs.append(("r%d_%s_%s%s" % (k, g.focus, g.first, "_grow" if g.grow else ""), g.u_actors(), sc))
    workdir = os.path.join(vlib.CACHE, "mixwork_%d" % os.getpid())
    os.makedirs(workdir, exist_ok=True)
    with ThreadPoolExecutor(max_workers=12) as pool:
        outs = list(pool.map(lambda j: run_one(hbin, j[0], j[2], workdir), jobs))
    res = {"cases": 0, "oracle": [], "aborts": [], "mismatches": [], "lines": 0, "out_of_scope": 0, "stats": {}, "scripts": {}, "outputs": {},
           "u_first": 0, "b_first": 0, "drops": 0, "reported_msgs": 0}
    blob = []
    for (name, uact, lines), (rc, out) in zip(jobs, outs):
        if rc != 0:
            res["aborts"].append({"case": name, "rc": rc, "tail": out[-1500:], "script": lines, "u": uact})
            continue
        res["cases"] += 1
        first = re.search(r"^(?:L|LS|LN|F) (\d+) ", "\n".join(l for l in out.split("\n") if " => " in l and "noop" not in l.split(" => ")[1]), re.M)
        if first:
            res["u_first" if int(first.group(1)) in uact else "b_first"] += 1
        res["drops"] += out.count("ret=0")
        res["reported_msgs"] += out.count("n:dropped:")
        for (p, msg) in all_oracles(out.split("\n"), uact):
            res["oracle"].append({"prop": p, "msg": msg, "case": name})
            res["scripts"][name] = lines
            res["outputs"][name] = out[-5000:]
            res.setdefault("uacts", {})[name] = uact
        blob.append("case %s\nmix u=%s\n%s\n%s" % (name, ",".join(map(str, uact)), pline, out))
    rc, dout = vlib.driver(["mixed", "trace"], stdin_data="\n".join(blob).encode(), timeout=1200)
    by = {j[0]: j for j in jobs}
    done = False
    for ln in dout.split("\n"):
        if ln.startswith("TRACE "):
            kv = dict(x.split("=") for x in ln.split()[2:])
            res["lines"] += int(kv["lines"])
            for k2 in ("polls", "writes", "parks", "drops", "injected"):
                res["stats"][k2] = res["stats"].get(k2, 0) + int(kv[k2])
        elif ln.startswith("OUT-OF-SCOPE"):
            res["out_of_scope"] += 1
        elif ln.startswith("DONE"):
            done = True
        elif ln.startswith(("MISMATCH", "NOT-STARTED", "CALIBRATION")):
            m = re.match(r"MISMATCH case=(\S+) line=\d+: (.*?) impl=\[(.*)\] model=\[(.*)\]$", ln)
            if m:
                res["mismatches"].append({"case": m.group(1), "op": m.group(2), "impl": m.group(3), "model": m.group(4)})
                if m.group(1) in by and m.group(1) not in res["scripts"]:
                    res["scripts"][m.group(1)] = by[m.group(1)][2]
                    res.setdefault("uacts", {})[m.group(1)] = by[m.group(1)][1]
            else:
                res["mismatches"].append({"case": "?", "op": ln[:200], "impl": "", "model": ""})
    if not done:
        res["mismatches"].append({"case": "?", "op": "driver mixed trace did not finish rc=%s: %s" % (rc, dout[-300:]), "impl": "", "model": ""})
    res["wall_s"] = round(time.time() - t0, 1)
    res["hbin"] = hbin
    import shutil
    shutil.rmtree(workdir, ignore_errors=True)
    with open(cpath, "w") as f:
        json.dump(res, f)
    return res


def replay_content(header, uact, script, out=""):
    return "%s\n# %s\n# mix u=%s\n%s\n# ---- harness output (tail) ----\n# %s\n" % (
        TAG, header, ",".join(map(str, uact)), "\n".join(script), out.replace("\n", "\n# "))


def relevant(prop, m):
    import props.backend as pb
    return prop in pb.classify(m["impl"], m["model"])


def run(ck, prop, tier, ex, ps):
    import props.backend as pb
    ok, hbin, log = build()
    if not ok:
        ck.violation("harness_build_mixed", log, "harness h2_mixed no longer compiles against the current tree (correspondence of the "
                     "two-frontend process broken): " + log[-300:], no_input=True)
        return
    res = collect(ck, tier, ex, hbin, pb.params_line(ex))
    mine = [o for o in res["oracle"] if o["prop"] == prop]
    mm = [m for m in res["mismatches"] if m["case"] == "?" or relevant(prop, m)]
    if res["aborts"]:
        a = res["aborts"][0]
        ck.violation("mixed_abort", replay_content("harness aborted rc=%s (sanitizer / assertion / crash in the real code)" % a["rc"], a["u"], a["script"], a["tail"]),
                     "the real code aborted in a process with two frontends of different queue types, case %s (rc=%s): %s" % (
                         a["case"], a["rc"], a["tail"].strip().split("\n")[-1][:200]))
    if mine:
        o = mine[0]
        sc, uact = res["scripts"].get(o["case"]), res.get("uacts", {}).get(o["case"], [])
        msg = o["msg"]
        if sc and os.environ.get("VERIF_NO_SHRINK") is None:
            small = pb.shrink_script(hbin, sc, lambda rc, out: rc == 0 and any(p == prop for p, _ in all_oracles(out.split("\n"), uact)), budget=80)
            if len(small) < len(sc):
                rc, out_s = run_one(hbin, "shrunk_%d" % os.getpid(), small, vlib.CACHE)
                ms = [m for p, m in all_oracles(out_s.split("\n"), uact) if p == prop]
                if ms:
                    msg = ms[0] + " [script minimised by delta debugging: %d -> %d lines]" % (len(sc), len(small))
                    sc = small
                    res["outputs"][o["case"]] = out_s
        ck.violation("mixed_oracle", replay_content("property oracle on the real code (two frontends, unbounded-frontend threads: %s): %s" % (uact, msg),
                                                    uact, sc or ["(script not retained)"], res["outputs"].get(o["case"], "")),
                     "property fails on the real code in a process with two frontends of different queue types: %s (case %s; %d oracle hits for this property)" % (
                         msg, o["case"], len(mine)))
    elif mm:
        m = mm[0]
        ck.violation("mixed_correspondence", replay_content("correspondence stream `mixed` disagrees: %s impl=[%s] model=[%s]" % (m["op"], m["impl"], m["model"]),
                                                            res.get("uacts", {}).get(m["case"], []), res["scripts"].get(m["case"], ["(script not retained)"])),
                     "two-frontend model and implementation disagree (%d lines relevant to %s), no property oracle fired: %s impl=[%s] model=[%s]" % (
                         len(mm), prop, m["op"], m["impl"][:120], m["model"][:120]), no_input=True)
    ck.cov["mixed_frontends_stream"] = {
        "cases": res["cases"], "lines_compared": res["lines"], "out_of_scope_cases": res["out_of_scope"], "totals": res["stats"],
        "first_registered_unbounded": res["u_first"], "first_registered_bounded": res["b_first"], "dropped_calls": res["drops"],
        "drop_reports": res["reported_msgs"], "oracle_hits_this_property": len(mine), "mismatching_lines_this_property": len(mm),
        "wall_s": res.get("wall_s"),
        "rule": "one case = one scripted life of a process with a BoundedDropping (512 B) and an UnboundedBlocking (512 B first node) frontend: "
                "12 directed scripts (unbounded context first and alive / exits first / bounded first / in the middle / registering inside a poll, "
                "reports on the idle, Flush and exit paths) + random scripts by focus with a random frontend per thread; compared line by line "
                "with the model until an unbounded queue grows (out of scope), judged by the oracles throughout"}


def replay(prop, path):
    ok, hbin, log = build()
    if not ok:
        print(log)
        return 2
    import props.backend as pb
    ex = vlib.run_extract()
    vlib.lake_build(["driver"])
    raw = [l.rstrip("\n") for l in open(path)]
    m = re.search(r"mix u=([\d,]*)", "\n".join(raw[:6]))
    uact = [int(x) for x in m.group(1).split(",") if x] if m else []
    lines = [l for l in raw if l.strip() and not l.startswith("#")]
    rc, out = run_one(hbin, "replay_%d" % os.getpid(), lines, vlib.CACHE)
    print(out)
    viol = all_oracles(out.split("\n"), uact)
    for p, msg in viol:
        print("ORACLE %s %s" % (p, msg))
    rc2, dout = vlib.driver(["mixed", "trace"], stdin_data=("case replay\nmix u=%s\n%s\n%s" % (",".join(map(str, uact)), pb.params_line(ex), out)).encode())
    print(dout)
    return 1 if rc != 0 or any(p == prop for p, _ in viol) else 0
