#!/bin/bash
# tools/try_mutant.sh <patch.diff> <Cxx> [<Cyy> ...]
# Runs the quick checks of the given properties against a scratch worktree of /repo with the patch applied
# (VERIF_REPO), with the evidence redirected, and removes the worktree again. /repo itself is never touched.
set -u
patch=$(readlink -f "$1"); shift
here=$(cd "$(dirname "$0")/.." && pwd)
wt=$(mktemp -d /tmp/mutwt.XXXXXX)
rmdir "$wt"
git -C /repo worktree add -q --detach "$wt" HEAD || exit 2
trap 'git -C /repo worktree remove --force "$wt" >/dev/null 2>&1; rm -rf "$wt" "$ev"' EXIT
ev=$(mktemp -d /tmp/mutev.XXXXXX)
if ! git -C "$wt" apply "$patch"; then echo "PATCH-DOES-NOT-APPLY $patch"; exit 2; fi
for p in "$@"; do
  out=$(cd "$here" && VERIF_REPO="$wt" VERIF_EVIDENCE_DIR="$ev" VERIF_REPLAY_DIR="$ev/replays" python3 tools/check.py "$p" 2>&1)
  rc=$?
  echo "== $p rc=$rc: $({ echo "$out" | grep -E '^(VIOLATION|CHECK-ERROR)'; echo "$out" | grep -E '^KNOWN-FINDING' | cut -c1-60; } | head -3 | tr '\n' ' ' | cut -c1-300)"
  echo "$out" | grep -E "^# (property fails|proof|model)" | head -2 | cut -c1-300
done
# the extraction is regenerated from /repo by the next run; do it now so that no stale generated file is left behind
(cd "$here" && python3 tools/extract.py >/dev/null)
