#!/usr/bin/env python3
"""python3 tools/check.py <Cxx> [--tier quick|thorough] [--replay <file>]

Decides one property: regenerates the extracted parameters from /repo, rebuilds and audits the Lean theorems,
rebuilds the harness from the current tree, runs corpus + generated cases through the real code and the Lean
driver, and prints KNOWN-FINDING / VIOLATION lines (exit 1 on a violation). See DESIGN.md §1."""
import argparse
import importlib
import os
import sys
import traceback

HERE = os.path.dirname(os.path.abspath(__file__))
sys.path.insert(0, HERE)
import vlib  # noqa: E402



def discover():
    """tools/props/<x>.py with PROPS = [...] serve those properties"""
    table = {}
    for f in sorted(os.listdir(os.path.join(HERE, "props"))):
        if f.endswith(".py") and f != "__init__.py":
            m = importlib.import_module("props." + f[:-3])
            for p in getattr(m, "PROPS", []):
                table[p] = m
    return table



def main():
    ap = argparse.ArgumentParser()
    ap.add_argument("prop")
    ap.add_argument("--tier", default=os.environ.get("VERIF_TIER", "quick"), choices=["quick", "thorough"])
    ap.add_argument("--replay", default=None)
    a = ap.parse_args()
    table = discover()
    if a.prop not in table:
        print("unknown property %s" % a.prop)
        return 2
    mod = table[a.prop]
    try:
        if a.replay:
            return mod.replay(a.prop, a.replay)
        return mod.run(a.prop, a.tier)
    except Exception:
        # a crash of the machinery is not a verdict on the code: report loudly, non-zero, no VIOLATION line
        traceback.print_exc()
        print("CHECK-ERROR property=%s (machinery failure, see traceback)" % a.prop)
        return 2


if __name__ == "__main__":
    sys.exit(main())
