"""The `reg` correspondence stream of tools/props/backend.py (C20: registration of a thread context; C08: the failure
counter): the real ThreadContextManager / ThreadContext / BackendWorker under the N-thread atomic shim
(harness/h1_reg.cpp) against `driver reg trace` (lean/QuillModel/Reg/Model.lean), with the property oracle on the real
objects at the end of every schedule. See tools/props/backend_thm_R.py for the theorems."""
import os
import re

import vlib

TAG = "# h1_reg replay"
PROTO = {"C20": 1, "C08": 2}
COV_KEY = {"C20": "registration_stream", "C08": "counter_stream"}


def params_line(ex):
    r = ex.get("reg", {})
    sp = ex.get("spin", {})
    c = r.get("ctr", {})
    return "params reg=%s upd=%s xo=%s uo=%s ctr=%d,%d,%d" % (
        ",".join(r.get("regProg", [])) or "-", ",".join(r.get("updProg", [])) or "-", sp.get("xchg", "acquire"), sp.get("unl", "release"),
        1 if c.get("incRmw") else 0, 1 if c.get("preLoad") else 0, 1 if c.get("resetXchg") else 0)


def build(ex):
    from extractors.spin import spin_flag_define
    return vlib.build_harness("h1_reg", ["h1_reg.cpp"], extra_flags=["-fno-access-control", spin_flag_define(ex)])


def split_cases(out):
    """{case id: [lines]} in order of appearance, plus the order"""
    cases, order, cur = {}, [], None
    for l in out.split("\n"):
        if l.startswith("case "):
            cur = l.split()[1]
            cases[cur] = [l]
            order.append(cur)
        elif cur is not None and not l.startswith(("ORDERS-SEEN", "STATS")):
            cases[cur].append(l)
    return cases, order


def replay_content(header, lines):
    """a replay file for `h1_reg replay` from the lines of one case (schedule = the steps actually executed, or the
    scheduled prefix named by the REPLAY line when the case ran to its end)"""
    head = lines[0].split()
    kv = dict(x.split("=", 1) for x in head[2:] if "=" in x)
    sched = None
    for l in lines:
        if l.startswith("REPLAY "):
            sched = l.split(" sched=", 1)[1].split() if " sched=" in l else []
    if sched is None:
        sched = []
        for l in lines:
            m = re.match(r"step t=(\d+) c=(\d+) ", l)
            if m:
                sched.append("%s:%s" % (m.group(1), m.group(2)))
    body = ["proto %s" % kv.get("proto", "P1"), "n %s" % kv.get("n", "1")]
    if "k" in kv:
        body.append("k " + kv["k"].replace(",", " "))
    body.append("sched " + " ".join(sched))
    return "%s — %s\n# replay: python3 tools/check.py <C20|C08> --replay <this file>   (threads 0..n-1 register / increment, thread n is the backend;\n# `t:c` = one scheduler step of thread t, its load returning the store c places older than the newest legal one)\n%s\n# ---- harness output of the case ----\n# %s\n" % (
        TAG, header, "\n".join(body), "\n# ".join(lines[:120]))


def run_harness(hbin, args, timeout=900):
    return vlib.sh([hbin] + [str(a) for a in args], env=vlib.ASAN_ENV, timeout=timeout)


def run(ck, prop, tier, ex, ps):
    ok, hbin, log = build(ex)
    if not ok:
        ck.violation("harness_build_reg", log, "harness h1_reg no longer compiles against the current tree (correspondence of the registration / failure-counter protocols broken): " + log[-300:], no_input=True)
        return None
    proto = PROTO[prop]
    ck.assumptions.append("reg stream (harness/h1_reg.cpp, vshim_reg.h): C++11 atomics rendered by the view semantics of the N-thread shim (store histories in "
                          "execution order, stale loads bounded by coherence and happens-before, release/acquire view transfer, read-modify-writes read the newest store); "
                          "one scheduler step = one atomic access plus the plain code up to the next one; the context list only grows here (reclamation is the backend model's subject)")
    nsched = 4000 if tier == "quick" else 20000
    pline = params_line(ex)
    outs = []
    # corpus first: corpus/<prop>/reg_*.txt are replay files
    cdir = os.path.join(vlib.VERIF, "corpus", prop)
    corpus_n = 0
    if os.path.isdir(cdir):
        for f in sorted(os.listdir(cdir)):
            if f.startswith("reg_") and f.endswith(".txt"):
                rc, out = run_harness(hbin, ["replay", os.path.join(cdir, f)])
                out = out.replace("case replay ", "case corpus_%s " % f[:-4], 1).replace("case=replay", "case=corpus_%s" % f[:-4])
                outs.append((rc, out))
                corpus_n += 1
    seeds = [ck.seed] if tier == "quick" else [ck.seed, ck.seed + 1000, ck.seed + 2000]
    for sd in seeds:
        outs.append(run_harness(hbin, ["gen", sd, nsched if proto == 1 else 0, nsched if proto == 2 else 0]))
    oracle, abort, allout = [], None, []
    for rc, out in outs:
        allout.append(out)
        if rc not in (0, 3) and abort is None:
            abort = (rc, out)
    text = "\n".join(allout)
    cases, order = split_cases(text)
    for cid in order:
        for l in cases[cid]:
            if l.startswith("ORACLE"):
                oracle.append((cid, l))
    searched_harder = False
    if ps["broken"] and not oracle and abort is None:
        # the proof side no longer checks and the usual run found nothing: search harder before giving up
        searched_harder = True
        for sd in range(ck.seed + 1, ck.seed + 4):
            rc, out = run_harness(hbin, ["gen", sd * 7919, 20000 if proto == 1 else 0, 20000 if proto == 2 else 0])
            c2, o2 = split_cases(out)
            hits = [(cid, l) for cid in o2 for l in c2[cid] if l.startswith("ORACLE")]
            if hits or rc not in (0, 3):
                cases.update(c2)
                order += [c for c in o2 if c not in order]
                allout.append(out)
                oracle += hits
                if rc not in (0, 3):
                    abort = (rc, out)
                break
    # the compiled model replays every step (one driver run per harness run keeps the memory bounded in the thorough tier)
    rcd, mm, done, tr, dtail = 0, [], [], [], ""
    for out in allout:
        rc1, dout = vlib.driver(["reg", "trace"], stdin_data=(pline + "\n" + out).encode(), timeout=1800)
        rcd = rcd or rc1
        dl = dout.split("\n")
        mm += [l for l in dl if l.startswith(("MISMATCH", "BAD-LINE", "MODEL-LOST", "MODEL-RACE"))]
        d1 = [l for l in dl if l.startswith("DONE")]
        if not d1:
            rcd = rcd or 1
            dtail = dout[-300:]
        done += d1
        tr += [dict(x.split("=") for x in l.split()[2:]) for l in dl if l.startswith("TRACE ")]
    seen = dict(x.split("=") for l in text.split("\n") if l.startswith("ORDERS-SEEN") for x in l.split()[1:])
    stats = [l for l in text.split("\n") if l.startswith("STATS")]
    st = {}
    for l in stats:
        for x in l.split()[1:]:
            k, v = x.split("=")
            st[k] = st.get(k, 0) + int(v)
    info = {"schedules": len(order), "corpus_replays": corpus_n, "steps_compared": sum(int(t.get("lines", 0)) for t in tr),
            "stale_loads": sum(int(t.get("stale", 0)) for t in tr), "lock_spins": sum(int(t.get("spins", 0)) for t in tr),
            "cache_rebuilds": sum(int(t.get("rebuilds", 0)) for t in tr), "notifier_reports": sum(int(t.get("reports", 0)) for t in tr),
            "harness_stats": st, "orders_seen": seen, "mismatching_lines": len([l for l in mm if l.startswith(("MISMATCH", "BAD-LINE"))]),
            "oracle_hits": len(oracle), "driver_done": done[:3], "params": pline, "searched_harder": searched_harder,
            "samples": [cases[c][:6] for c in order[:1] + order[-1:]]}
    what = ("a registered thread context is missing from the backend's cache after the registration returned and one more whole cache update (its statements are never read)"
            if proto == 1 else "the counts reported through the error notifier plus the residual counter do not add up to the number of increments (discarded statements)")
    if oracle:
        cid, l = oracle[0]
        ck.violation("registration" if proto == 1 else "failure_counter", replay_content(l, cases[cid]),
                     "property fails on the real code under the atomic-shim scheduler: %s — %s (%d oracle hits in %d schedules)" % (what, l[:220], len(oracle), len(order)))
    elif abort is not None:
        rc, out = abort
        c2, o2 = split_cases(out)
        last = o2[-1] if o2 else None
        ck.violation("reg_abort", replay_content("harness aborted rc=%s (sanitizer / assertion in the real code)" % rc, c2[last]) if last else out[-2000:],
                     "the real code aborted under the atomic-shim scheduler (rc=%s) in schedule %s: %s" % (rc, last, out.strip().split("\n")[-1][:200]))
    elif mm or rcd != 0 or not done:
        l = (mm or ["driver reg trace failed rc=%s: %s" % (rcd, dtail)])[0]
        m = re.search(r"case=(\S+)", l)
        cid = m.group(1) if m else None
        ck.violation("reg_correspondence", replay_content("correspondence stream `reg` disagrees: " + l, cases[cid]) if cid in cases else l + "\n",
                     "model and implementation disagree on the %s protocol, no property oracle fired: %s" % ("registration" if proto == 1 else "failure-counter", l[:300]), no_input=True)
    else:
        # run-time memory orders against the extraction (the theorems do not depend on the flag / counter orders; a
        # disagreement means the extraction reads something else than what runs)
        r = ex.get("reg", {})
        sp = ex.get("spin", {})
        c = r.get("ctr", {})
        want = {"flag_set": r.get("flagStore"), "flag_load": r.get("flagLoad"), "flag_reset": r.get("flagReset"),
                "lock_xchg": sp.get("xchg"), "lock_unlock": sp.get("unl"), "ctr_inc": c.get("incOrder"),
                "ctr_load": c.get("loadOrder"), "ctr_xchg": c.get("xchgOrder")}
        bad = ["%s: extracted %s, observed %s" % (k, want[k], v) for k, v in sorted(seen.items()) if k in want and want[k] and v != want[k]]
        if bad:
            ps["broken"].append("extraction disagrees with the run-time memory orders (h1_reg): " + "; ".join(bad))
    ck.cov[COV_KEY[prop]] = info
    return info


def replay(prop, path):
    ex = vlib.run_extract()
    ok, hbin, log = build(ex)
    if not ok:
        print(log)
        return 2
    rc, out = run_harness(hbin, ["replay", path])
    print(out)
    rcd, dout = vlib.driver(["reg", "trace"], stdin_data=(params_line(ex) + "\n" + out).encode())
    print(dout)
    return 1 if rc != 0 or any(l.startswith("ORACLE") for l in out.split("\n")) else 0
