"""Script generator and property oracles for the H2 harness (harness/h2_backend.cpp).

A script is a list of lines (see the harness header). Everything random derives from one `random.Random(seed)`.
`oracles(lines_with_observations)` checks the properties themselves on the real outputs, independently of the Lean model.
"""
import random
import re

LEVELS = [0, 1, 2, 3, 4, 5, 6, 7, 8]


class Gen:
    def __init__(self, seed, variant, qcap=512, focus=None):
        self.r = random.Random(seed)
        self.seed = seed if isinstance(seed, int) else hash(str(seed)) & 0xffffff
        self.variant = variant
        self.dropping = variant % 2 == 1
        self.unbounded = variant >= 2
        self.qcap = qcap
        self.focus = focus or self.r.choice(["mixed", "mixed", "order", "flush", "faults", "levels", "threads", "loggers", "backtrace", "pressure"])
        self.lines = []
        self.actors = []
        self.next_actor = 1
        self.nsinks = 0
        self.loggers = {}   # gid -> sinks
        self.max_len = qcap - 40
        self.qmax = 4096

    def emit(self, s):
        self.lines.append(s)

    def setup(self):
        r = self.r
        f = self.focus
        grace = r.choice([0, 1, 10, 10, 1000]) if f not in ("order", "flush") else r.choice([1, 10, 100, 1000])
        soft = r.choice([1, 2, 4, 8])
        hard = max(soft, r.choice([1, 2, 4, 8, 16]))
        if f == "pressure":
            soft, hard = r.choice([(1, 1), (1, 2), (2, 2), (2, 4)])
        self.grace_ns = grace * 1000
        # sink_min_flush_interval in ms: 0 (every idle pass flushes), small (elapses with the script's clock steps: 1 ms),
        # huge (never elapses after the start) — drawn from a generator of its own so that the rest of the script is the
        # one the seed always produced
        ri = random.Random(self.seed * 7919 + self.variant * 13 + 5)
        self.flushint = ri.choice([0, 0, 1, 1000000]) if f != "flush" else ri.choice([0, 1, 1000000, 1000000])
        fi = " flushint=%d" % self.flushint if self.flushint else ""
        self.emit("cfg grace=%d soft=%d hard=%d tcap=%d%s" % (grace, soft, hard, r.choice([2, 4, 8]), fi))
        self.nsinks = r.choice([1, 2, 2, 3])
        self.sinkcfg = {}
        for s in range(self.nsinks):
            lvl = r.choice([0, 0, 4, 6]) if f in ("levels", "mixed") else 0
            m = r.choice([0, 0, 2, 3]) if f in ("levels", "mixed") else 0
            rr = r.randrange(m) if m else 0
            wth = fth = ""
            pat = ""
            if f == "faults":
                # w2_faults: every throwing call has a kind ('' std::exception with text, 'e' empty what(), 'n' not a std::exception);
                # a non-first sink may carry an override pattern the backend cannot build (then half of the scripts have no
                # other write fault, so that the locality oracle applies)
                if s == 0:
                    self.pat_script = self.nsinks >= 2 and r.random() < 0.4
                    self.pat_sink = r.randrange(1, self.nsinks) if self.pat_script else -1
                    self.pat_only = r.random() < 0.6
                if s == self.pat_sink:
                    pat = "bad"
                    lvl = r.choice([0, 6, 6, 8])
                if not (self.pat_script and self.pat_only):
                    wth = ",".join("%d%s" % (k, r.choice(["", "", "e", "n"])) for k in sorted(set(r.randrange(1, 12) for _ in range(r.choice([0, 1, 2])))))
                fth = ",".join("%d%s" % (k, r.choice(["", "", "e", "n"])) for k in sorted(set(r.randrange(1, 8) for _ in range(r.choice([0, 1, 1])))))
            self.sinkcfg[s] = dict(lvl=lvl, m=m, r=rr)
            line = "sink %d lvl=%d" % (s, lvl)
            if pat:
                line += " pat=" + pat
            if m:
                line += " filt=%d:%d" % (m, rr)
            if wth:
                line += " wthrow=" + wth
            if fth:
                line += " fthrow=" + fth
            # a sink the application built with make_shared and hands to the logger directly (never in the SinkManager
            # registry); drawn from the side generator so that the rest of the script is unchanged
            if ri.random() < 0.25:
                line += " unreg=1"
                self.unreg = getattr(self, "unreg", set()) | {s}
            self.emit(line)
        ng = r.choice([1, 2, 2, 3])
        for g in range(ng):
            k = r.randint(1, self.nsinks)
            sinks = sorted(r.sample(range(self.nsinks), k))
            lvl = r.choice([0, 3, 4, 4, 6]) if f in ("levels", "mixed") else r.choice([0, 4])
            self.loggers[g] = sinks
            self.emit("logger %d sinks=%s lvl=%d" % (g, ",".join(map(str, sinks)), lvl))
        self.emit("start")
        for _ in range(r.choice([1, 2, 2, 3])):
            self.new_actor()

    def new_actor(self):
        a = self.next_actor
        self.next_actor += 1
        self.actors.append(a)
        self.emit("T %d start" % a)
        return a

    def rnd_len(self):
        r = self.r
        if self.focus == "pressure":
            return r.choice([100, 150, 200, 230, 300, self.max_len, self.max_len - 1, 20])
        if self.unbounded:
            return r.choice([5, 20, 60, 150, 300, 300, 450, 700, 900, 1500, 2500, 3900, self.qmax - 37, self.qmax - 36, self.qmax + 50])
        return r.choice([5, 10, 20, 20, 40, 60, 100, 150, 200, 300, self.max_len] + ([self.qcap + 10] if self.dropping else []))

    def rnd_dt(self):
        r = self.r
        g = max(self.grace_ns, 1000)
        return r.choice([1, 1, 7, g // 2, g - 1, g, g + 1, 2 * g, 10 * g, 1000000])

    def front_op(self):
        r = self.r
        f = self.focus
        a = r.choice(self.actors)
        g = r.choice(list(self.loggers.keys()) or [0])
        w = r.random()
        if w < 0.45:
            lvl = r.choice(LEVELS) if f in ("levels", "mixed") else r.choice([4, 4, 6, 8])
            if f in ("faults", "mixed") and r.random() < 0.2:
                return "LN %d %d %d" % (a, g, r.choice([5, 20, 60]))
            if f == "faults" and r.random() < 0.25:
                # w2_faults: a statement whose argument is decoded by user code on the backend; the decode may be armed to throw
                # (top-level operations only: TOP_ONLY keeps them out of the injection tables)
                self.n_lu = getattr(self, "n_lu", 0) + 1
                if r.random() < 0.5:
                    self.emit("DT %d" % (self.n_lu + r.choice([0, 0, 1])))
                return "LU %d %d %d" % (a, g, r.choice([5, 20, 60, 150]))
            return "%s %d %d %d %d" % ("L" if r.random() < 0.8 else "LS", a, g, lvl, self.rnd_len())
        if self.unbounded and w > 0.97:
            # a capacity query right before a shrink request so that the oracle knows the capacity the request meets
            self.emit("QC %d" % a)
            if f in ("faults", "order", "mixed") and r.random() < 0.5:
                self.emit("NA")   # w2_faults: the user's notifier throws on the allocation notice this shrink will cause
            return "SH %d %d" % (a, r.choice([512, 1024, 256, 2048, 600]))
        if w < 0.55:
            return "K %d" % self.rnd_dt()
        if w < 0.65:
            return "R %d" % a
        if w < 0.72 and f in ("flush", "mixed", "order", "threads", "faults"):
            return "F %d %d" % (a, g)
        if w < 0.78 and f in ("backtrace", "mixed"):
            c = r.random()
            if c < 0.5:
                return "LB %d %d %d" % (a, g, r.choice([5, 20, 60]))
            if c < 0.75:
                return "IB %d %d %d %d" % (a, g, r.choice([0, 1, 2, 3, 5]), r.choice([10, 10, 7, 6, 4]))
            return "FB %d %d" % (a, g)
        if w < 0.83 and f in ("order", "mixed", "pressure"):
            return "ST %d" % a
        if w < 0.88 and f in ("threads", "mixed"):
            if r.random() < 0.5 and len(self.actors) < 6:
                self.new_actor()
                return None
            if len(self.actors) > 1:
                self.actors.remove(a)
                return "T %d exit" % a
            return None
        if w < 0.93 and f in ("loggers", "mixed"):
            c = r.random()
            if c < 0.35:
                return "RL %d %d" % (a, g)
            if c < 0.6:
                return "RB %d %d" % (a, g)
            if c < 0.9:
                gg = r.choice(range(3))
                k = r.randint(1, self.nsinks)
                self.loggers.setdefault(gg, [])
                return "CL %d %d %s" % (a, gg, ",".join(map(str, sorted(r.sample(range(self.nsinks), k)))))
            ds = r.randrange(self.nsinks)
            if ds in getattr(self, "unreg", set()):
                # an unregistered (make_shared) sink dies the moment its last owner goes, not at the SinkManager's next sweep:
                # the model's reaping order is that of registered sinks, so the user handle of such a sink is not dropped
                return "Q"
            return "DS %d" % ds
        if w < 0.96 and f in ("levels", "mixed"):
            if r.random() < 0.5:
                return "SL %d %d" % (g, r.choice([0, 3, 4, 6, 8]))
            return "SS %d %d" % (r.randrange(self.nsinks), r.choice([0, 4, 6]))
        if w < 0.98:
            return "Q"
        return "L %d %d %d %d" % (a, g, 4, self.rnd_len())

    def poll_op(self):
        r = self.r
        if r.random() < 0.25:
            injs = []
            for _ in range(r.choice([1, 1, 2])):
                site = r.choice([1, 2, 2, 3, 4, 5, 7, 7, 8] + ([9, 9, 9] if self.focus in ("loggers", "mixed") else []))
                k = r.choice([1, 1, 2, 3])
                ops = []
                for _ in range(r.choice([1, 1, 2, 3])):
                    o = self.front_op()
                    if o and not o.startswith(("T ", "Q", "LU ", "DT ", "NA")) and "," not in o:   # ',' separates injected operations
                        ops.append(o.replace(" ", "_"))
                if ops:
                    injs.append("@%d.%d=%s" % (site, k, ",".join(ops)))
            # one injection per (site,k)
            seen, out = set(), []
            for x in injs:
                key = x.split("=")[0]
                if key not in seen:
                    seen.add(key)
                    out.append(x)
            return "P " + " ".join(out) if out else "P"
        return "P"

    def body(self, nops):
        r = self.r
        for _ in range(nops):
            if r.random() < 0.28:
                self.emit(self.poll_op())
            else:
                o = self.front_op()
                if o:
                    self.emit(o)

    def finish(self, with_exit):
        # let everything drain: time passes, parked callers are resumed, the backend polls
        all_actors = list(range(1, self.next_actor))
        for _ in range(14):
            self.emit("K 2000000")
            self.emit("P")
            for a in all_actors:
                self.emit("R %d" % a)
            self.emit("P")
        self.emit("P")
        self.emit("P")
        self.emit("Q")
        if with_exit:
            # statements logged right before the exit must still come out (C07 drain)
            for a in self.actors[:2]:
                g = self.r.choice(list(self.loggers.keys()) or [0])
                self.emit("L %d %d 8 20" % (a, g))
            self.emit("X")

    def script(self, nops):
        self.setup()
        self.body(nops)
        if self.r.random() < 0.25:
            # shutdown with whatever backlog there is: only calls that are not parked can be drained
            self.emit("K %d" % self.rnd_dt())
            self.emit("X")
            return self.lines
        self.finish(self.r.random() < 0.6)
        return self.lines


def directed_scripts(variant):
    """hand-written windows (DESIGN §5): registration between ts_now and the cache refresh, stall past the grace
    period, hard-limit truncation, flush while another thread's first statement is unseen, 256+ thread exits."""
    out = []
    # F5/F6 window: a new thread registers and logs at hook site 1 (after ts_now was taken)
    out.append(("dir_f5_window", [
        "cfg grace=10 soft=4 hard=8 tcap=2", "sink 0 lvl=0", "logger 0 sinks=0 lvl=0", "start",
        "T 1 start", "T 2 start", "L 1 0 4 10", "K 100000", "P", "P", "K 100000",
        "P @1.1=L_2_0_4_10,K_1000,L_1_0_4_10,K_99000", "P", "P", "K 100000", "P", "P", "P", "Q"]))
    out.append(("dir_f6_window", [
        "cfg grace=10 soft=4 hard=8 tcap=2", "sink 0 lvl=0", "logger 0 sinks=0 lvl=0", "start",
        "T 1 start", "T 2 start", "L 1 0 4 10", "K 100000", "P", "P", "K 100000",
        "P @1.1=L_2_0_4_10,K_1000,F_1_0,K_99000", "R 1", "P", "R 1", "P", "R 1", "K 100000", "P", "R 1", "P", "R 1", "Q"]))
    # hard limit: thread 1 has more than `hard` statements; thread 2 a younger one
    out.append(("dir_hard_limit", [
        "cfg grace=1 soft=2 hard=2 tcap=2", "sink 0 lvl=0", "logger 0 sinks=0 lvl=0", "start",
        "T 1 start", "T 2 start"] + ["L 1 0 4 10", "K 10"] * 6 + ["L 2 0 4 10", "K 100000"] + ["P"] * 12 + ["Q", "X"]))
    # thread churn: many exits between two idle periods
    churn = ["cfg grace=0 soft=4 hard=8 tcap=2", "sink 0 lvl=0", "logger 0 sinks=0 lvl=0", "start"]
    for a in range(1, 40):
        churn += ["T %d start" % a, "L %d 0 4 10" % a, "T %d exit" % a]
    churn += ["K 1000000"] + ["P"] * 60 + ["Q", "X"]
    out.append(("dir_churn", churn))
    # flush with a throwing flush on the first sink
    out.append(("dir_flush_fault", [
        "cfg grace=0 soft=4 hard=8 tcap=2", "sink 0 lvl=0 fthrow=1,2", "sink 1 lvl=0", "logger 0 sinks=0,1 lvl=0", "start",
        "T 1 start", "L 1 0 4 10", "F 1 0", "P", "P", "R 1", "P", "R 1", "Q"]))
    # write fault on the first of two sinks
    out.append(("dir_write_fault", [
        "cfg grace=0 soft=4 hard=8 tcap=2", "sink 0 lvl=0 wthrow=2", "sink 1 lvl=0", "logger 0 sinks=0,1 lvl=0", "start",
        "T 1 start", "L 1 0 4 10", "L 1 0 4 10", "L 1 0 4 10", "P", "P", "P", "P", "P", "Q"]))
    # logger removal with pending statements, re-creation with other sinks
    out.append(("dir_remove_recreate", [
        "cfg grace=0 soft=4 hard=8 tcap=2", "sink 0 lvl=0", "sink 1 lvl=0", "logger 0 sinks=0 lvl=0", "logger 1 sinks=0,1 lvl=0", "start",
        "T 1 start", "T 2 start", "L 1 0 4 10", "L 2 0 4 10", "RB 1 0", "P", "R 1", "P", "R 1", "P", "R 1", "P", "R 1", "Q",
        "CL 1 0 1", "L 1 0 4 10", "P", "P", "DS 0", "RL 2 1", "P", "P", "P", "Q"]))
    # F12: a statement logged through a logger that is removed (asynchronously) before flush_log() is called on another
    # logger; the user keeps the sink, so only the backend's flush can make the statement readable
    out.append(("dir_f12_removed_logger_flush", [
        "cfg grace=0 soft=4 hard=8 tcap=2", "sink 0 lvl=0", "sink 1 lvl=0", "logger 0 sinks=0 lvl=0", "logger 1 sinks=1 lvl=0", "start",
        "T 1 start", "L 1 0 4 10", "RL 1 0", "F 1 1", "P", "P", "R 1", "P", "P", "Q", "X"]))
    # F33: non-zero sink_min_flush_interval; the logger is erased (idle branch) before any flush; the user keeps the sink
    for tag, removal, pre in (("rl", "RL 1 0", []), ("rb", "RB 1 0", []), ("written_first", "RL 1 0", ["P"])):
        out.append(("dir_f33_erased_logger_flush_" + tag, [
            "cfg grace=0 soft=4 hard=8 tcap=2 flushint=1000000", "sink 0 lvl=0", "sink 1 lvl=0", "logger 0 sinks=0 lvl=0",
            "logger 1 sinks=1 lvl=0", "start", "T 1 start", "T 2 start", "L 1 0 4 10"] + pre + [removal, "P", "P", "P", "R 1", "Q",
            "F 1 1", "P", "P", "R 1", "K 2000000000", "P", "Q", "X"]))
    # the gate itself: interval 1 ms; idle passes just below, at and just above the interval; Flush event and exit ignore it
    out.append(("dir_flush_interval_gate", [
        "cfg grace=0 soft=4 hard=8 tcap=2 flushint=1", "sink 0 lvl=0", "logger 0 sinks=0 lvl=0", "start",
        "T 1 start", "L 1 0 4 10", "P", "P", "K 999999", "P", "K 1", "P", "K 1", "P", "P", "L 1 0 4 10", "F 1 0", "P", "P", "R 1",
        "K 1000001", "P", "L 1 0 4 10", "P", "Q", "X"]))
    # a write fault on a later sink after an earlier sink took the statement, then flush_log: the earlier sink holds output
    out.append(("dir_flush_after_partial_write", [
        "cfg grace=0 soft=4 hard=8 tcap=2 flushint=1000000", "sink 0 lvl=0", "sink 1 lvl=0 wthrow=1", "logger 0 sinks=0,1 lvl=0", "start",
        "T 1 start", "L 1 0 4 10", "F 1 0", "P", "P", "R 1", "L 1 0 4 10", "F 1 0", "P", "P", "R 1", "Q", "X"]))
    # a sink that is not in the SinkManager registry (make_shared, passed to create_or_get_logger): flush_log must flush it
    out.append(("dir_flush_unregistered_sink", [
        "cfg grace=0 soft=4 hard=8 tcap=2 flushint=1000000", "sink 0 lvl=0 unreg=1", "sink 1 lvl=0", "logger 0 sinks=0,1 lvl=0",
        "logger 1 sinks=1 lvl=0", "start", "T 1 start", "L 1 0 4 10", "F 1 0", "P", "P", "R 1", "L 1 0 4 10", "F 1 1", "P", "P", "R 1",
        "RL 1 0", "P", "P", "Q", "DS 0", "X"]))
    # flush_log of thread 2 behind a backlog of thread 1 that is longer than the hard limit (batch mode: soft = 1)
    out.append(("dir_flush_behind_truncated_backlog", [
        "cfg grace=1 soft=1 hard=2 tcap=2", "sink 0 lvl=0", "logger 0 sinks=0 lvl=0", "start",
        "T 1 start", "T 2 start"] + ["L 1 0 4 10", "K 10"] * 6 + ["K 1000", "F 2 0", "K 100000", "P", "R 2", "P", "R 2", "P", "R 2",
        "P", "R 2", "P", "R 2", "P", "R 2", "Q", "X"]))
    # site 9 (inside a sink destructor run by the logger clean-up): another logger gets a statement and is removed while
    # an earlier logger is being erased — the emptiness of the queues must be re-checked for it (C17)
    out.append(("dir_site9_remove_during_sink_dtor", [
        "cfg grace=0 soft=4 hard=8 tcap=2", "sink 0 lvl=0", "sink 1 lvl=0", "logger 0 sinks=0 lvl=0", "logger 1 sinks=1 lvl=0", "start",
        "T 1 start", "L 1 0 4 10", "P", "P", "DS 0", "RL 1 0", "P @9.1=L_1_1_4_10,RL_1_1", "P", "P", "P", "Q", "X"]))
    # the same window with a thread that has never logged before: its context registers inside the clean-up, so the
    # per-logger emptiness check must also refresh the list of contexts it looks at
    out.append(("dir_site9_new_thread_during_sink_dtor", [
        "cfg grace=0 soft=4 hard=8 tcap=2", "sink 0 lvl=0", "sink 1 lvl=0", "logger 0 sinks=0 lvl=0", "logger 1 sinks=1 lvl=0", "start",
        "T 1 start", "L 1 0 4 10", "P", "P", "DS 0", "RL 1 0", "P @9.1=T_2_start,L_2_1_4_10,RL_2_1", "P", "P", "P", "Q", "X"]))
    out.append(("dir_site9_three_loggers", [
        "cfg grace=0 soft=4 hard=8 tcap=2", "sink 0 lvl=0", "sink 1 lvl=0", "sink 2 lvl=0",
        "logger 0 sinks=0,1 lvl=0", "logger 1 sinks=2 lvl=0", "logger 2 sinks=2 lvl=0", "start",
        "T 1 start", "T 2 start", "L 1 0 4 10", "L 2 1 4 10", "P", "P", "P", "DS 0", "DS 1", "DS 2", "RL 1 0",
        "P @9.1=L_2_2_4_20,RL_2_2 @9.2=L_1_1_6_10,RL_1_1,F_2_1", "R 2", "P", "R 2", "P", "R 2", "P", "P", "Q", "X"]))
    # C17: two / three `remove_logger_blocking` calls in flight whose loggers are erased in DIFFERENT backend passes: a statement
    # of another thread arrives inside the first logger's sink destructor (site 9), so the per-logger emptiness check keeps the
    # next logger for a later pass; its caller's request stays recorded and must be served by that later pass
    out.append(("dir_two_blocking_removals_split_passes", [
        "cfg grace=0 soft=4 hard=8 tcap=2", "sink 0 lvl=0", "sink 1 lvl=0", "sink 2 lvl=0",
        "logger 0 sinks=0 lvl=0", "logger 1 sinks=1 lvl=0", "logger 2 sinks=2 lvl=0", "start",
        "T 1 start", "T 2 start", "T 3 start", "DS 0", "DS 1", "RB 1 0", "RB 2 1", "P", "P",
        "P @9.1=L_3_2_4_10", "R 1", "R 2", "P", "P", "R 2", "P", "R 2", "Q", "X"]))
    out.append(("dir_three_blocking_removals_split_passes", [
        "cfg grace=0 soft=4 hard=8 tcap=2", "sink 0 lvl=0", "sink 1 lvl=0", "sink 2 lvl=0", "sink 3 lvl=0",
        "logger 0 sinks=0 lvl=0", "logger 1 sinks=1 lvl=0", "logger 2 sinks=2 lvl=0", "logger 3 sinks=3 lvl=0", "start",
        "T 1 start", "T 2 start", "T 3 start", "T 4 start", "DS 0", "DS 1", "DS 2", "RB 1 0", "RB 2 1", "RB 3 2", "P", "P", "P",
        "P @9.1=L_4_3_4_10", "R 1", "R 2", "R 3", "P", "P @9.1=L_4_3_4_10", "R 2", "R 3", "P", "P", "R 3", "P", "R 3", "Q", "X"]))
    # F25 (unbounded builds): a buffer created by a shrink request stays empty when the next statement does not fit in it; the
    # read pass must follow the chain past it, or a younger statement of another thread is written first
    if variant >= 2:
        out.append(("dir_f25_empty_buffer_after_shrink", [
            "cfg grace=1 soft=8 hard=8 tcap=8", "sink 0 lvl=0", "logger 0 sinks=0 lvl=0", "start", "T 1 start", "T 2 start",
            "L 1 0 4 10", "L 2 0 4 10", "K 1000000", "P", "P", "P", "QC 1", "SH 1 256", "L 1 0 4 700", "K 1", "L 2 0 4 10",
            "K 1000000", "P", "P", "P", "P", "Q", "X"]))
    # C20 (unbounded builds): the queue grows to the maximum, is drained, shrunk on request; the statements that follow need a
    # larger buffer again, which is far below the maximum — none of them may be dropped / block
    if variant >= 2:
        out.append(("dir_regrow_after_shrink", [
            "cfg grace=0 soft=4 hard=8 tcap=2", "sink 0 lvl=0", "logger 0 sinks=0 lvl=0", "start", "T 1 start"] +
            ["L 1 0 4 900"] * 4 + ["QC 1", "K 1000000"] + ["P"] * 6 + ["QC 1", "SH 1 512"] + ["L 1 0 4 300"] * 4 +
            ["QC 1", "K 1000000", "P", "R 1", "P", "R 1", "P", "P", "P", "Q", "X"]))
    # unbounded builds: a thread that ran into the maximum capacity (its failure counter is bumped, and nothing ever reports
    # or resets it for an unbounded queue) and then exits must still be reclaimed — the "unreported counter keeps the
    # context" rule of the F24 repair is for bounded queues only
    if variant >= 2:
        out.append(("dir_unbounded_cap_then_exit", [
            "cfg grace=0 soft=4 hard=8 tcap=2", "sink 0 lvl=0", "logger 0 sinks=0 lvl=0", "start", "T 1 start", "T 2 start",
            "L 2 0 4 10", "L 1 0 4 3900", "L 1 0 4 3900", "L 1 0 4 3900", "L 1 0 4 3900", "T 1 exit"] +
            ["K 2000000", "P", "R 1", "P"] * 4 + ["T 1 exit"] +      # (blocking build: the parked call returns first)
            ["K 2000000", "P", "R 1", "R 2", "P"] * 14 + ["P", "P", "Q", "X"]))
    # w2_faults ---------------------------------------------------------------------------------------------------------
    # every kind of exception a sink call can throw is reported exactly once: text, EMPTY text, not a std::exception
    out.append(("dir_fault_kinds", [
        "cfg grace=0 soft=4 hard=8 tcap=2", "sink 0 lvl=0 wthrow=1e,2n,3 fthrow=1e,2n", "sink 1 lvl=0", "logger 0 sinks=0,1 lvl=0", "start",
        "T 1 start", "L 1 0 4 10", "L 1 0 4 10", "L 1 0 4 10", "L 1 0 4 10", "F 1 0", "P", "P", "P", "P", "P", "P", "R 1", "F 1 0",
        "P", "P", "R 1", "Q"]))
    # an empty-text exception during a backtrace replay and from the second sink
    out.append(("dir_fault_kinds_second_sink", [
        "cfg grace=0 soft=1 hard=8 tcap=2", "sink 0 lvl=0", "sink 1 lvl=0 wthrow=1e,3n", "logger 0 sinks=0,1 lvl=0", "start",
        "T 1 start", "L 1 0 4 10", "L 1 0 4 10", "L 1 0 4 10", "L 1 0 4 10", "P", "P", "P", "P", "P", "P", "Q"]))
    # a sink in the MIDDLE whose override pattern cannot be built, behind a level filter: costs only the statements that reach
    # it (level >= 6) at itself and at the sink after it; never the sink before it, never a statement it filters out
    out.append(("dir_pattern_fault_middle", [
        "cfg grace=0 soft=4 hard=8 tcap=2", "sink 0 lvl=0", "sink 1 lvl=6 pat=bad", "sink 2 lvl=0", "logger 0 sinks=0,1,2 lvl=0",
        "logger 1 sinks=0,2 lvl=0", "start", "T 1 start", "L 1 0 4 10", "L 1 0 8 10", "L 1 1 8 10", "LS 1 0 4 10", "L 1 0 7 10",
        "L 1 0 5 10", "P", "P", "P", "F 1 0", "P", "R 1", "P", "R 1", "K 1000", "L 1 0 6 10", "L 1 0 3 10", "X"]))
    out.append(("dir_pattern_fault_last_filtered", [
        "cfg grace=0 soft=1 hard=8 tcap=2", "sink 0 lvl=0", "sink 1 lvl=0 filt=2:0 pat=bad", "logger 0 sinks=0,1 lvl=0", "start",
        "T 1 start", "L 1 0 4 10", "L 1 0 4 10", "L 1 0 4 10", "L 1 0 4 10", "P", "P", "P", "P", "P", "X"]))
    # an exception that escapes the read pass (throwing decoder of a user-defined type): thread 1 holds an older statement
    # than thread 2; the aborted poll writes nothing, loses nothing; the next one reads everything again
    out.append(("dir_decode_abort_order", [
        "cfg grace=1 soft=4 hard=8 tcap=2", "sink 0 lvl=0", "logger 0 sinks=0 lvl=0", "start", "T 1 start", "T 2 start",
        "DT 1", "L 1 0 4 10", "K 10", "LU 1 0 20", "K 10", "L 2 0 4 10", "K 100000", "P", "P", "P", "P", "P", "Q", "X"]))
    # the same with the throwing record FIRST in its queue (nothing of that thread is cached when the pass is left) and with
    # records of the same queue read but not yet committed when the exception is raised (blocking queue: the producer's retry)
    out.append(("dir_decode_abort_first_record", [
        "cfg grace=1 soft=1 hard=8 tcap=2", "sink 0 lvl=0", "logger 0 sinks=0 lvl=0", "start", "T 1 start", "T 2 start",
        "DT 1", "DT 3", "LU 1 0 20", "K 10", "L 2 0 4 10", "K 10", "L 1 0 4 150", "LU 1 0 150", "LU 1 0 20", "L 1 0 4 150", "R 1",
        "K 100000", "P", "R 1", "P", "R 1", "P", "R 1", "P", "P", "P", "P", "P", "Q", "X"]))
    if variant >= 2:
        # unbounded builds: the user's notifier throws on the "Allocated a new SPSC queue" notice (thread 1 shrank its queue and
        # logged, thread 2 logged later): the exception leaves the read pass, nothing may be written before thread 1's statement
        out.append(("dir_alloc_notice_throws", [
            "cfg grace=1 soft=8 hard=8 tcap=8", "sink 0 lvl=0", "logger 0 sinks=0 lvl=0", "start", "T 1 start", "T 2 start",
            "L 1 0 4 10", "L 2 0 4 10", "K 1000000", "P", "P", "P", "QC 1", "SH 1 256", "NA", "L 1 0 4 10", "K 10", "L 2 0 4 10",
            "K 1000000", "P", "P", "P", "P", "Q", "X"]))
    # backtrace: wrap, flush by level, explicit flush
    out.append(("dir_backtrace", [
        "cfg grace=0 soft=4 hard=8 tcap=2", "sink 0 lvl=0", "logger 0 sinks=0 lvl=0", "start", "T 1 start",
        "IB 1 0 3 7", "LB 1 0 10", "LB 1 0 10", "LB 1 0 10", "LB 1 0 10", "L 1 0 7 10", "LB 1 0 10", "LB 1 0 10", "FB 1 0",
        "L 1 0 4 10", "LB 1 0 10"] + ["P"] * 16 + ["Q"]))
    # F26: a sink throws in the middle of a backtrace replay (2nd write of sink 0 = the 2nd stored statement), then a second
    # flush_backtrace(): nothing that the first replay wrote may be written again; only the faulting statement may be missing
    out.append(("dir_bt_replay_fault", [
        "cfg grace=0 soft=4 hard=8 tcap=2", "sink 0 lvl=0 wthrow=2", "sink 1 lvl=0", "logger 0 sinks=0,1 lvl=0", "start", "T 1 start",
        "IB 1 0 4 10", "LB 1 0 10", "LB 1 0 10", "LB 1 0 10", "FB 1 0"] + ["P"] * 8 + ["FB 1 0"] + ["P"] * 4 + [
        "LB 1 0 10", "L 1 0 8 10"] + ["P"] * 4 + ["Q"]))
    # shutdown with a backlog: thread 1 has more than `hard` statements queued, thread 2 a younger one (C05/C07)
    out.append(("dir_exit_backlog", [
        "cfg grace=1 soft=2 hard=2 tcap=2", "sink 0 lvl=0", "logger 0 sinks=0 lvl=0", "start",
        "T 1 start", "T 2 start"] + ["L 1 0 4 10", "K 10"] * 6 + ["L 2 0 4 10", "K 100000", "X"]))
    # one cut-off per pass: time advances between the reads of two queues
    out.append(("dir_cutoff_per_pass", [
        "cfg grace=10 soft=4 hard=8 tcap=2", "sink 0 lvl=0", "logger 0 sinks=0 lvl=0", "start",
        "T 1 start", "T 2 start", "L 1 0 4 10", "L 2 0 4 10", "K 1000000", "P", "P", "P", "P",
        "L 1 0 4 10", "K 1000", "L 2 0 4 10", "P @2.2=K_20000", "P", "P", "K 1000000", "P", "P", "P", "Q"]))
    out.append(("dir_cutoff_per_pass_3", [
        "cfg grace=10 soft=4 hard=8 tcap=2", "sink 0 lvl=0", "logger 0 sinks=0 lvl=0", "start",
        "T 1 start", "T 2 start", "T 3 start", "L 1 0 4 10", "L 2 0 4 10", "L 3 0 4 10", "K 1000000"] + ["P"] * 5 + [
        "L 2 0 4 10", "K 1000", "L 3 0 4 10", "K 500", "L 1 0 4 10", "P @2.3=K_20000 @3.1=K_1", "P", "P", "K 1000000", "P", "P", "P", "P", "Q"]))
    # the cut-off is sampled once per pass: time advancing at any further clock read of the backend must not matter
    out.append(("dir_second_clock_read", [
        "cfg grace=10 soft=4 hard=8 tcap=2", "sink 0 lvl=0", "logger 0 sinks=0 lvl=0", "start",
        "T 1 start", "T 2 start", "L 1 0 4 10", "L 2 0 4 10", "K 1000000", "P", "P", "P", "P",
        "L 1 0 4 10", "K 1000", "L 2 0 4 10", "P @7.2=K_20000 @7.3=K_20000", "P", "P", "K 1000000", "P", "P", "P", "Q"]))
    # named arguments must not leak into a later statement that reuses the transit slot after a sink fault
    out.append(("dir_named_after_fault", [
        "cfg grace=0 soft=4 hard=8 tcap=2", "sink 0 lvl=0 wthrow=1", "logger 0 sinks=0 lvl=0", "start", "T 1 start",
        "LN 1 0 10", "P", "L 1 0 4 10", "P", "L 1 0 4 10", "P", "L 1 0 4 10", "P", "L 1 0 4 10", "P", "LN 1 0 10", "P", "L 1 0 4 10", "P", "P", "Q"]))
    # C16: the level filter of a sink is lowered at run time AFTER the logger's first statement was processed; a statement
    # in between the old and the new value goes to that sink — and only to it, whatever the logger's other sink says
    out.append(("dir_sink_level_lowered", [
        "cfg grace=0 soft=4 hard=8 tcap=2", "sink 0 lvl=6", "logger 0 sinks=0 lvl=0", "start", "T 1 start",
        "L 1 0 6 10", "P", "P", "SS 0 3", "L 1 0 4 10", "L 1 0 3 10", "L 1 0 2 10", "P", "P", "P", "P", "Q", "X"]))
    out.append(("dir_sink_level_lowered_sibling", [
        "cfg grace=0 soft=4 hard=8 tcap=2", "sink 0 lvl=7", "sink 1 lvl=8", "logger 0 sinks=0,1 lvl=0", "start", "T 1 start",
        "L 1 0 8 10", "P", "P", "SS 1 4", "L 1 0 4 10", "L 1 0 7 10", "P", "P", "P", "SS 1 8", "L 1 0 6 10", "P", "P", "Q", "X"]))
    # drops that land while the backend is reporting earlier drops of the same thread must still be reported
    if variant % 2 == 1:
        out.append(("dir_drop_during_report", [
            "cfg grace=0 soft=4 hard=8 tcap=2", "sink 0 lvl=0", "logger 0 sinks=0 lvl=0", "start", "T 1 start",
            "L 1 0 4 300", "L 1 0 4 300", "L 1 0 4 300", "P", "P @8.1=L_1_0_4_400,L_1_0_4_400", "P", "P", "K 1000", "P", "P", "Q", "X"]))
    if variant % 2 == 0:
        # blocked producer resumes after the backend made room (C09 end to end)
        out.append(("dir_blocked_resume", [
            "cfg grace=0 soft=4 hard=8 tcap=2", "sink 0 lvl=0", "logger 0 sinks=0 lvl=0", "start", "T 1 start",
            "L 1 0 4 200", "L 1 0 4 200", "L 1 0 4 200", "R 1", "P", "R 1", "P", "R 1", "P", "R 1", "P", "P", "P", "Q"]))
    else:
        out.append(("dir_drop_count", [
            "cfg grace=0 soft=4 hard=8 tcap=2", "sink 0 lvl=0", "logger 0 sinks=0 lvl=0", "start", "T 1 start",
            "L 1 0 4 200", "L 1 0 4 200", "L 1 0 4 200", "L 1 0 4 200", "F 1 0", "R 1", "P", "R 1", "P", "R 1", "P", "R 1", "P", "R 1", "P", "P", "Q"]))
    return out


# ------------------------------------------------------------------------------------------------------------------
# oracles on the real outputs
# ------------------------------------------------------------------------------------------------------------------

def parse_run(lines):
    """lines: 'op => obs' strings as printed by the harness. Returns a structured record."""
    rec = dict(cfg={}, sinks={}, loggers={}, ops=[])
    for ln in lines:
        if " => " not in ln:
            continue
        op, obs = ln.split(" => ", 1)
        w = op.split()
        if not w:
            continue
        if w[0] == "cfg":
            for x in w[1:] + obs.split():
                if "=" in x:
                    k, v = x.split("=")
                    rec["cfg"][k] = int(v)
        elif w[0] == "sink":
            d = dict(lvl=0, m=0, r=0, wthrow=[], fthrow=[], pat="")
            for x in w[2:]:
                k, v = x.split("=")
                if k == "lvl":
                    d["lvl"] = int(v)
                elif k == "filt":
                    d["m"], d["r"] = map(int, v.split(":"))
                elif k in ("wthrow", "fthrow"):
                    d[k] = [int(t.rstrip("en")) for t in v.split(",") if t]   # 'e' / 'n': kind of the exception (w2_faults)
                elif k == "pat":
                    d["pat"] = v
            rec["sinks"][int(w[1])] = d
        elif w[0] == "logger":
            d = dict(sinks=[], lvl=4)
            for x in w[2:]:
                k, v = x.split("=")
                if k == "sinks":
                    d["sinks"] = [int(t) for t in v.split(",") if t]
                elif k == "lvl":
                    d["lvl"] = int(v)
            rec["loggers"][int(w[1])] = d
        elif w[0] == "start":
            m = re.search(r"now=(\d+)", obs)
            rec["now0"] = int(m.group(1)) if m else 0
        else:
            res, _, evs = obs.partition(" | ")
            rec["ops"].append((w, res.strip(), evs.split() if evs else []))
    return rec


def flatten_events(evs):
    """injection markers '[@s.k op -> res]' are split over several tokens; re-join them"""
    out, cur = [], None
    for t in evs:
        if cur is not None:
            cur.append(t)
            if t.endswith("]"):
                out.append(" ".join(cur))
                cur = None
        elif t.startswith("[@"):
            if t.endswith("]"):
                out.append(t)
            else:
                cur = [t]
        else:
            out.append(t)
    return out


def oracles(lines):
    """returns list of (property, message). Conservative: a rule is applied only where the script makes its premise true."""
    rec = parse_run(lines)
    cfg = rec["cfg"]
    dropping = cfg.get("variant", 0) % 2 == 1
    grace = cfg.get("grace", 0) * 1000
    viol = []
    now = rec.get("now0", 0)
    stmts = {}          # id -> dict(actor, g, lvl, ts, enq_time, ret, kind)
    written = {}        # (sink, id) -> count
    write_order = []    # (sink, id, lvl, ts)
    pending_by_actor = {}   # actor -> id of the log call it is parked in
    removal_requested = set()   # logger names with a removal request since their last creation
    n_actors = len({w[1] for (w, _, _) in rec["ops"] if w[0] == "T"})
    idle = dict(streak=0, epoch=0)   # consecutive backend passes that wrote nothing and flushed (C09 end to end)
    park_mark = {}          # actor -> (epoch, streak) when its log call parked / last retried
    still_blocked = []      # (actor, id, passes) — retries that failed although the backend had found every queue empty
    flush_wait = {}     # actor -> dict(snapshot of ids that must be out, sinks)
    has_faults = any(s["wthrow"] for s in rec["sinks"].values())
    has_read_faults = any(w and w[0] in ("DT", "NA", "LU") for (w, _r, _e) in rec["ops"])   # aborted polls (fault layer) process nothing by design
    has_flush_faults = any(s["fthrow"] for s in rec["sinks"].values())
    has_pat = any(s.get("pat") == "bad" for s in rec["sinks"].values())
    dyn_cfg_changes = False
    dropped_reported = 0
    dropped_log_calls = 0
    live_logged = set()
    exited = set()
    complete = {}       # id -> completion order index of the log call
    order_idx = [0]
    removed_loggers = False
    backtrace_used = False
    flushed_after = {}  # sink -> index in write_order at the time of its last flush
    last_write_idx = {}  # id -> index in write_order
    loggers_sinks = {g: list(d["sinks"]) for g, d in rec["loggers"].items()}
    last_cap = {}
    shrunk = {}         # actor -> dict(cap, used): its shrink request took effect and everything it enqueued since fits the new buffer
    unknown_outcomes = [0]
    # ---- C06 liveness (F34): a flush_log caller parked across polls that process nothing although older ripe statements wait
    f34_wait = {}       # actor -> clock value of its flush_log call while it is parked in it
    f34_ctrl = [0]      # accepted events that are processed without any sink call (requests; over-approximation)
    f34_req = {}        # actor -> [(clock value, poll, site)] of its requests (flush / backtrace / removal)
    f34_streak = []     # per silent poll of the current streak: dict(idx, blocker, now)
    f34_cur = dict(poll=None, site=None)   # the poll / hook site whose injected operations are being handled
    rb_wait = {}        # actor -> (logger name, its sinks) while parked in remove_logger_blocking (C17)
    erased_sinks = set()    # sinks whose destructor ran in an EARLIER operation: every logger that listed them is erased
    erased_now = set()      # … in the current operation (the flag is raised at the end of the clean-up pass)
    # C16 under run-time changes of a sink's level filter (Sink::set_log_level_filter): every value the filter of a sink has had,
    # in order; a statement remembers how many there were when its log call began, a write how many when it happened
    sink_hist = {s: [d["lvl"]] for s, d in rec["sinks"].items()}

    def handle_front(w, res, t_now):
        nonlocal dyn_cfg_changes, dropped_log_calls, removed_loggers, backtrace_used
        op = w[0]
        if res in ("noop", "bad-op"):
            return
        if op not in ("QC", "SH") and len(w) > 1 and w[1].isdigit():
            last_cap.pop(int(w[1]), None)   # any other call of that thread may have grown its queue since the capacity was read
        if op not in ("QC", "SH", "L") and len(w) > 1 and w[1].isdigit():
            shrunk.pop(int(w[1]), None)     # a call whose size is not known here
        if op == "QC":
            m = re.match(r"cap=(\d+)", res)
            if m:
                last_cap[int(w[1])] = int(m.group(1))
                if shrunk.get(int(w[1]), {}).get("cap") != int(m.group(1)):
                    shrunk.pop(int(w[1]), None)
            return
        if op == "SH":
            m = re.match(r"cap=(\d+)", res)
            a = int(w[1])
            if m and a in last_cap:
                before, want, after = last_cap.pop(a), int(w[2]), int(m.group(1))
                p2 = 1
                while p2 < want:
                    p2 *= 2
                expect = p2 if want <= before // 2 else before
                if after != expect:
                    viol.append(("C20", "shrink request of actor %d to %d with capacity %d: capacity reported afterwards %d, expected %d" % (a, want, before, after, expect)))
                if after < before:
                    shrunk[a] = dict(cap=after, used=0)    # it took effect: the thread now writes to a fresh buffer of `after` bytes
            else:
                shrunk.pop(a, None)
            return
        if op in ("L", "LS", "LB", "LN", "LU"):
            m = re.match(r"id=(\d+)", res)
            if not m:
                return
            i = int(m.group(1))
            a, g = int(w[1]), int(w[2])
            last_cap.pop(a, None)   # the call may have grown the queue: a capacity read before it says nothing about a later shrink
            lvl = 9 if op == "LB" else 4 if op in ("LN", "LU") else int(w[3])
            if op == "LB":
                backtrace_used = True
            st = stmts.setdefault(i, dict(actor=a, g=g, lvl=lvl, ts=t_now, enq=None, ret=None, op=op, sinks=list(loggers_sinks.get(g, [])),
                                          h0={s: len(h) for s, h in sink_hist.items()},
                                          inj_poll=f34_cur["poll"], inj_site=f34_cur["site"]))
            # C20 "shrinking … without losing statements": the shrunk buffer still has its reported capacity c (the thread has put
            # no more than c bytes into it, so nothing made it grow), a buffer of 2c is within the configured maximum and takes
            # this statement — a refusal (drop / block) now is a statement lost to the shrink request
            sh = shrunk.get(a) if op == "L" and len(w) > 4 else None
            mb = re.search(r"ret=1 .*bytes=(\d+)", res)
            if sh and ("parked:sleep" in res or "ret=0" in res) and "threw" not in res and 2 * sh["cap"] <= cfg.get("qmax", 0) \
                    and int(w[4]) + 64 <= 2 * sh["cap"]:
                viol.append(("C20", "after the shrink request of actor %d took effect (capacity reported %d, %d bytes enqueued since) its statement "
                             "id=%d of %s+~40 bytes was %s although a buffer of %d bytes is within the configured maximum %d and would take it: "
                             "shrinking the queue made it refuse (lose) statements" % (
                                 a, sh["cap"], sh["used"], i, w[4], "blocked (the call sleeps on a full queue)" if "parked" in res else "dropped", 2 * sh["cap"], cfg.get("qmax", 0))))
            if sh and mb and sh["used"] + int(mb.group(1)) <= sh["cap"]:
                sh["used"] += int(mb.group(1))
            else:
                shrunk.pop(a, None)
            if "parked" in res:
                pending_by_actor[a] = i
                park_mark[a] = (idle["epoch"], idle["streak"])
                if "parked:sleep" in res:
                    live_logged.add(a)   # the context exists once the reservation was attempted
                return
            finish_log(i, res, t_now)
        elif op in ("IB", "FB"):
            backtrace_used = True
            if res != "noop":
                live_logged.add(int(w[1]))
                f34_ctrl[0] += 1
                f34_req.setdefault(int(w[1]), []).append((t_now, f34_cur["poll"], f34_cur["site"]))
        elif op == "F":
            a, g = int(w[1]), int(w[2])
            if res != "noop":
                live_logged.add(a)
                f34_ctrl[0] += 1
                f34_req.setdefault(a, []).append((t_now, f34_cur["poll"], f34_cur["site"]))
                if res.startswith("parked"):
                    f34_wait[a] = t_now
            # everything whose log call completed before this flush call began
            flush_wait[a] = dict(need=set(i for i, s in stmts.items() if s["ret"] is True), t=t_now)
            if res == "done":
                check_flush_done(a)
        elif op in ("RL", "RB"):
            removed_loggers = True
            if res != "noop":
                removal_requested.add(int(w[2]))
            if op == "RB" and res != "noop":
                live_logged.add(int(w[1]))
                f34_ctrl[0] += 1
                f34_req.setdefault(int(w[1]), []).append((t_now, f34_cur["poll"], f34_cur["site"]))
                if res.startswith("parked:sleep"):
                    rb_wait[int(w[1])] = (int(w[2]), list(loggers_sinks.get(int(w[2]), [])))
        elif op == "CL":
            g = int(w[2])
            if "valid=1" in res:
                # a name whose removal was requested can only be answered with a NEW object (the guards make a re-creation
                # wait until the old object is erased): it gets the listed sinks; a name that is still there keeps its own
                listed = [int(t) for t in w[3].split(",") if t]
                if g in removal_requested or g not in loggers_sinks:
                    loggers_sinks[g] = listed
                    removal_requested.discard(g)
            removed_loggers = True
        elif op in ("SL", "SS", "DS"):
            dyn_cfg_changes = True
            if op == "SS" and res == "ok" and int(w[1]) in sink_hist:
                sink_hist[int(w[1])].append(int(w[2]))
        elif op == "T" and w[2] == "exit" and res == "ok":
            exited.add(int(w[1]))
            f34_wait.pop(int(w[1]), None)
        elif op == "R":
            a = int(w[1])
            if res == "done":
                f34_wait.pop(a, None)
            if a in rb_wait:
                # C17: a sink is destroyed only after every logger that lists it was erased; the clean-up pass that erased the
                # logger raises the caller's flag before it ends, so the caller's next resume after that pass returns
                g, gs = rb_wait[a]
                if res == "done" or res == "noop":
                    rb_wait.pop(a)
                elif res.startswith("parked:sleep") and any(x in erased_sinks for x in gs):
                    viol.append(("C17", "remove_logger_blocking(%d) of actor %d is still parked although logger %d was erased in an earlier "
                                 "backend pass (its sink %d has been destroyed): the caller is never released" % (
                                     g, a, g, [x for x in gs if x in erased_sinks][0])))
                    rb_wait.pop(a)
            if res.startswith("id=") and a in pending_by_actor:
                i = pending_by_actor.pop(a)
                finish_log(i, res, t_now)
            elif res.startswith("parked:sleep") and a in pending_by_actor and a in park_mark:
                ep, base = park_mark[a]
                passes = idle["streak"] - base if ep == idle["epoch"] else idle["streak"]
                if passes >= n_actors + 3:
                    still_blocked.append((a, pending_by_actor[a], passes))
            elif res == "done" and a in flush_wait:
                check_flush_done(a)

    def finish_log(i, res, t_now):
        nonlocal dropped_log_calls
        st = stmts[i]
        if "skip" in res or "ev=0" in res:
            st["ret"] = None
            st["skipped"] = True
            return
        if "threw" in res:
            st["ret"] = False      # rejected with an error: must never be delivered; not a counted drop
            st["threw"] = True
            live_logged.add(st["actor"])
            return
        if "ret=0" in res:
            st["ret"] = False
            dropped_log_calls += 1
            live_logged.add(st["actor"])
            return
        if "ret=1" in res or ("bytes=" in res and not res.endswith("bytes=0")) or (
                st["op"] in ("LS", "LB", "LN", "LU") and "bytes=" not in res and "ev=1" in res and cfg.get("variant", 0) == 2):
            st["ret"] = True
            st["enq"] = t_now
            live_logged.add(st["actor"])
            complete[i] = order_idx[0]
            order_idx[0] += 1
        elif st["op"] in ("LS", "LB", "LN", "LU") and "bytes=" not in res and "ev=1" in res:
            st["ret"] = "unknown"   # unbounded dropping build: a macro without return value, outcome not observable here
            st["enq"] = t_now       # if it was enqueued at all, it was now (C05 premise)
            unknown_outcomes[0] += 1
            live_logged.add(st["actor"])   # the reservation was attempted: the context exists
        elif st["op"] in ("LS", "LB", "LN", "LU") and res.endswith("bytes=0") and "ev=1" in res:
            st["ret"] = False   # static macro on a dropping queue: dropped
            dropped_log_calls += 1
            live_logged.add(st["actor"])

    def check_flush_done(a):
        fw = flush_wait.pop(a, None)
        # (statements logged through a logger that was removed before the flush are included: its sinks are flushed
        #  as long as the backend has not erased it, and it is erased only after an idle pass, which flushes first — F12)
        if not fw:
            return
        # with write faults or level changes under way "must have been written" is not claimed (a throwing sink costs the
        # later sinks their copy, C10); "what was written has been flushed since" is claimed always for the caller's own
        # statements: the Flush event flushes every sink reachable through a logger — also one that took the statement
        # before a later sink threw
        strict = not (has_faults or has_pat or dyn_cfg_changes)
        for i in fw["need"]:
            st = stmts[i]
            if st["lvl"] == 9:
                continue
            own = st["actor"] == a
            if not own:
                if not strict:
                    continue
                # claimed only with ordering enabled, for a strictly smaller clock value, and under C05's premise
                if grace == 0 or not (st["ts"] < fw["t"]) or st["enq"] is None or st["enq"] > st["ts"] + grace:
                    continue
            for s in st["sinks"]:
                sk = rec["sinks"].get(s)
                if not sk:
                    continue
                if written.get((s, i), 0) == 0:
                    if not strict or not accepts(sk, st, i):
                        continue
                    viol.append(("C06", "flush_log of actor %d returned but statement id=%d (actor %d, ts=%d) is not written to sink %d" % (a, i, st["actor"], st["ts"], s)))
                elif flushed_after.get(s, -1) <= last_write_idx[(s, i)]:
                    viol.append(("C06", "flush_log of actor %d returned but sink %d was not flushed after statement id=%d was written" % (a, s, i)))

    def accepts(sk, st, i):
        return st["lvl"] >= sk["lvl"] and not (sk["m"] > 0 and i % sk["m"] == sk["r"])

    def levels_between(s, st, upto=None):
        """every value the level filter of sink s has had from the beginning of st's log call to the `upto`-th change (default:
        the end of the script); the statement is handed to the sinks somewhere in that window, the filter is read then"""
        h = sink_hist.get(s, [])
        return h[max(0, st.get("h0", {}).get(s, 1) - 1):upto]

    def accepts_throughout(s, sk, st, i):
        return not (sk["m"] > 0 and i % sk["m"] == sk["r"]) and all(st["lvl"] >= x for x in levels_between(s, st))

    def rejects_throughout(s, sk, st, i, upto):
        return (sk["m"] > 0 and i % sk["m"] == sk["r"]) or all(st["lvl"] < x for x in levels_between(s, st, upto))

    def pat_blocker(st, i, s):
        """w2_faults: the sink of st's logger, at or before `s` in the logger's list, whose override pattern cannot be built and
        which the statement reaches (its level and filter accept it): the dispatch ends there"""
        for e in st["sinks"]:
            sk = rec["sinks"].get(e)
            if sk and sk.get("pat") == "bad" and accepts(sk, st, i):
                return e
            if e == s:
                return None
        return None

    widx = [0]
    wr_h = {}           # (sink, id) -> number of values the sink's level filter had had at the first write

    def handle_event(e):
        nonlocal dropped_reported
        if e.startswith("w:"):
            p = e.split(":")
            s = int(p[1])
            if p[2].startswith("E"):
                return
            i, lvl, ts = int(p[2]), int(p[3]), int(p[4])
            has_na = len(p) > 5 and p[5].startswith("na")
            stx = stmts.get(i)
            if stx is not None and has_na != (stx["op"] == "LN"):
                viol.append(("C10", "statement id=%d was handed to sink %d %s key/value pairs although it was logged %s named placeholders" % (
                    i, s, "with" if has_na else "without", "with" if stx["op"] == "LN" else "without")))
            written[(s, i)] = written.get((s, i), 0) + 1
            wr_h.setdefault((s, i), len(sink_hist.get(s, [])))
            write_order.append((s, i, lvl, ts))
            last_write_idx[(s, i)] = widx[0]
            widx[0] += 1
        elif e.startswith("fl:") or e.startswith("fthrow:"):
            # a flush that threw was still attempted (and reported); what C06/C10 exclude is a sink never asked to flush
            flushed_after[int(e.split(":")[1])] = widx[0]
        elif e.startswith("n:dropped:"):
            dropped_reported += int(e.split(":")[2])
        elif e.startswith("sinkdtor:"):
            erased_now.add(int(e.split(":")[1]))

    # ---- C10 (w2_faults): every exception of a sink call / of the read pass is reported, once, right where it is caught -----
    FAULT_NOTES = ("n:wfail", "n:ffail", "n:empty", "n:unhandled")
    for (w, res, evs) in rec["ops"]:
        fe = [e for e in flatten_events(evs) if not e.startswith("[@")]
        for k, e in enumerate(fe):
            if e.startswith(("wthrow:", "fthrow:")):
                nxt = fe[k + 1] if k + 1 < len(fe) else ""
                if nxt not in FAULT_NOTES:
                    viol.append(("C10", "the exception thrown by sink call %s (operation '%s') is not reported through the error notifier "
                                 "(next event: %s); every throw of a sink is reported once, whatever the exception is or says" % (e, " ".join(w), nxt or "none")))
            elif e.startswith("dthrow:"):
                nxt = fe[k + 1] if k + 1 < len(fe) else ""
                if nxt != "n:dfail":
                    viol.append(("C10", "the exception %s raised while a queue was read is not reported (next event: %s)" % (e, nxt or "none")))
        n_thr = sum(1 for e in fe if e.startswith(("wthrow:", "fthrow:")))
        n_rep = sum(1 for e in fe if e in FAULT_NOTES)
        if n_rep > n_thr:
            viol.append(("C10", "operation '%s': %d sink calls threw but %d fault notifications were made" % (" ".join(w), n_thr, n_rep)))
    def f34_certain(st, i):
        # popping this statement certainly calls write_log of some sink (static configuration only)
        return st["lvl"] != 9 and st["op"] != "LB" and any(
            (s in rec["sinks"]) and accepts(rec["sinks"][s], st, i) for s in st["sinks"])

    def f34_pending(st, i):
        return st["ret"] is True and st["enq"] is not None and f34_certain(st, i) and not any(
            written.get((s, i), 0) for s in st["sinks"])

    def f34_flush():
        # the streak of silent polls has ended: more silent polls than events that can be processed silently?
        streak = list(f34_streak)
        del f34_streak[:]
        if not streak or has_faults or dyn_cfg_changes:
            return
        silent_ok = f34_ctrl[0] + sum(1 for i, st in stmts.items()
                                      if st["ret"] in (True, "unknown") and not f34_certain(st, i))
        if len(streak) < 3 + silent_ok:
            return
        batch_possible = all(x["pend"] + silent_ok >= cfg.get("soft", 0) for x in streak)
        unexplained = [x for x in streak if x["blocker"] is None]
        first = streak[0]
        if batch_possible and not unexplained:
            viol.append(("C06", "[F34] flush_log of actor %d stays parked across %d consecutive polls (from operation %d) that process "
                         "nothing while statement id=%d (ts=%d, older than the request, past the grace period) is pending: every one of "
                         "these polls is stopped by the batch guard on a context with an empty transit buffer and an unread queue "
                         "(actors %s: registered / logged inside the poll or with every pending statement inside the grace period)" % (
                             first["waiter"], len(streak), first["idx"], first["stmt"], stmts[first["stmt"]]["ts"],
                             sorted({x["blocker"] for x in streak}))))
        else:
            x = (unexplained or streak)[0]
            viol.append(("C06", "flush_log of actor %d stays parked across %d consecutive polls that process nothing while statement id=%d "
                         "(ts=%d, older than the request, past the grace period) is pending, and the poll at operation %d is not stopped by "
                         "the batch guard on a newcomer context (%s): flush_log() does not return although the backend keeps running" % (
                             x["waiter"], len(streak), x["stmt"], stmts[x["stmt"]]["ts"], x["idx"],
                             "fewer than soft=%d events can be cached" % cfg.get("soft", 0) if not batch_possible else
                             "every context with a pending statement had one that was readable in this pass")))

    def f34_poll(k_op, now0, fe):
        # with a non-zero sink_min_flush_interval an idle poll emits no event at all: "no event" is then no evidence that a poll
        # with work to do processed nothing, so the streak rule is applied to interval-0 scripts only (every idle poll flushes)
        if has_faults or has_flush_faults or has_pat or has_read_faults or dyn_cfg_changes or not f34_wait or cfg.get("flushint", 0):
            del f34_streak[:]
            return
        plain = [e for e in fe if not e.startswith("[@")]
        progress = any(e.startswith(("w:", "fl:", "fthrow:", "wthrow:", "n:")) for e in plain)
        clock_inj = any(e.startswith("[@") and re.search(r" K_\d+ ->", e) for e in fe)
        ripe = lambda st: grace == 0 or now0 > st["ts"] + grace
        cand = None
        for a, t_req in f34_wait.items():
            for i, st in stmts.items():
                if st.get("inj_poll") == k_op:
                    continue
                if f34_pending(st, i) and st["ts"] <= t_req and ripe(st) and (st["actor"] == a or st["ts"] < t_req):
                    cand = (a, i)
                    break
            if cand:
                break
        if progress or clock_inj or cand is None:
            f34_flush()
            return
        # a context that can stop the batch: it holds pending statements, and none of them could be read in this pass
        blocker = None
        by_actor = {}
        for i, st in stmts.items():
            if st["ret"] in (True, "unknown") and st["enq"] is not None and st["lvl"] != 9 and not any(written.get((s, i), 0) for s in st["sinks"]) \
                    and f34_certain(st, i):
                by_actor.setdefault(st["actor"], []).append(st)
        late = lambda ts, pl, site: (pl == k_op and (site or 0) >= 2) or not (grace == 0 or now0 > ts + grace)
        for b in sorted(set(by_actor) | set(f34_req)):
            sts = by_actor.get(b, [])
            reqs = [r for r in f34_req.get(b, []) if late(*r)]
            if (sts or reqs) and all(late(st["ts"], st.get("inj_poll"), st.get("inj_site")) for st in sts):
                blocker = b
                break
        f34_streak.append(dict(idx=k_op, blocker=blocker, now=now0, waiter=cand[0], stmt=cand[1],
                               pend=sum(1 for i, st in stmts.items() if f34_pending(st, i))))

    xs_seen = False
    q_snaps = []
    for k_op, (w, res, evs) in enumerate(rec["ops"]):
        op = w[0]
        erased_sinks |= erased_now
        erased_now.clear()
        if op == "Q":
            q_snaps.append((k_op, res, set(live_logged), set(exited), set(pending_by_actor.keys()) | set(flush_wait.keys())))
        if op == "K":
            now += int(w[1])
            continue
        if op in ("P", "X"):
            if op == "X":
                xs_seen = True
            fe = list(flatten_events(evs))
            # (a statement newer than now - grace stays in its queue, so only passes after that window count)
            settled = all(now > st["ts"] + grace for st in stmts.values())
            if op == "P" and settled and fe and any(e.startswith("fl:") for e in fe) and not any(e.startswith(("w:", "[@")) for e in fe):
                idle["streak"] += 1
            else:
                idle["streak"] = 0
                idle["epoch"] += 1
            now_at_poll = now
            for e in flatten_events(evs):
                if e.startswith("[@"):
                    m = re.match(r"\[@(\d+)\.\d+ (\S+) -> (.*)\]$", e)
                    if m:
                        iw = m.group(2).split("_")
                        if iw[0] == "K":
                            now += int(iw[1])
                        else:
                            f34_cur.update(poll=k_op, site=int(m.group(1)))
                            handle_front(iw, m.group(3), now)
                            f34_cur.update(poll=None, site=None)
                else:
                    handle_event(e)
            if op == "P" and res != "noop":
                f34_poll(k_op, now_at_poll, fe)
            else:
                f34_flush()
            continue
        handle_front(w, res, now)
        if op != "Q" and res != "noop" and not res.startswith("parked:sleep"):
            idle["streak"] = 0
            idle["epoch"] += 1
        for e in flatten_events(evs):
            handle_event(e)

    f34_flush()
    # ---- C03 / C08 / C10: exactly once, intact, delivered xor dropped ------------------------------------------
    for (s, i), c in written.items():
        st = stmts.get(i)
        if c > 1 and not backtrace_used:
            viol.append(("C03", "statement id=%d written %d times to sink %d" % (i, c, s)))
        if c > 1 and st and st["lvl"] == 9:
            # a LOG_BACKTRACE statement is replayed by at most one flush, once per sink (C18) — also when a sink throws
            # during a replay (C10: "at most that one statement is missing …, every other statement exactly once"; F26)
            viol.append(("C10" if has_faults else "C03", "backtrace statement id=%d replayed %d times to sink %d (a stored statement is "
                         "written by one flush only; a throwing sink may cost the faulting statement, not duplicate the others)" % (i, c, s)))
        if st and st["ret"] is False:
            viol.append(("C08", "statement id=%d was reported dropped (ret=0) but reached sink %d" % (i, s)))
        if st and st.get("skipped"):
            viol.append(("C16", "statement id=%d was below the logger level (not enqueued) but reached sink %d" % (i, s)))
        if st and s not in st["sinks"] and not removed_loggers:
            viol.append(("C16", "statement id=%d reached sink %d which does not belong to its logger" % (i, s)))
        sk = rec["sinks"].get(s)
        if st and sk and rejects_throughout(s, sk, st, i, wr_h.get((s, i))):
            viol.append(("C16", "statement id=%d (level %d) reached sink %d although its level filter %s / filter rejects it" % (
                i, st["lvl"], s, "/".join(map(str, levels_between(s, st, wr_h.get((s, i))))))))
    # level recorded by the sink equals the level given
    for (s, i, lvl, ts) in write_order:
        st = stmts.get(i)
        if st and st["lvl"] != lvl and st["lvl"] != 9:
            viol.append(("C16", "statement id=%d was logged with level %d but reported with level %d" % (i, st["lvl"], lvl)))
        if st and st["ts"] != ts:
            viol.append(("C05", "statement id=%d carries timestamp %d but its clock value at the call was %d" % (i, ts, st["ts"])))
    # per-thread order on every sink
    for s in rec["sinks"]:
        last = {}
        for (ss, i, lvl, ts) in write_order:
            if ss != s or lvl == 9:
                continue
            st = stmts.get(i)
            if not st:
                continue
            a = st["actor"]
            if a in last and complete.get(i, 10 ** 9) < complete.get(last[a], -1):
                viol.append(("C03", "sink %d received id=%d after id=%d although actor %d issued it earlier" % (s, i, last[a], a)))
            last[a] = i
    # completeness after the final drain: every accepted statement on every accepting sink of its logger
    # premise: the script really ends with a drain — the exit drain `X` as its last operation, or the long final drain of
    # finish() (ten or more rounds of "time passes, poll"); a script cut short (also by the replay minimiser) says nothing
    _ops = rec["ops"]
    drained = bool(_ops) and (_ops[-1][0][0] == "X" or
                              sum(1 for (w2, _, _) in _ops[-260:] if w2[0] == "K" and len(w2) > 1 and w2[1].isdigit() and int(w2[1]) >= 2000000) >= 10)
    if not has_faults and not (has_pat and dyn_cfg_changes) and not removed_loggers and drained:
        for i, st in stmts.items():
            if st["ret"] is not True or st["lvl"] == 9:
                continue
            for s in st["sinks"]:
                sk = rec["sinks"].get(s)
                if has_pat and sk and accepts(sk, st, i):
                    # w2_faults: a sink whose override pattern cannot be built costs the statements that REACH it, at itself and at the
                    # sinks after it in that dispatch — never an earlier sink, never a statement its level/filter rejects
                    b = pat_blocker(st, i, s)
                    if b is None and written.get((s, i), 0) == 0:
                        bad = [e for e in st["sinks"] if rec["sinks"].get(e, {}).get("pat") == "bad"]
                        for pp in ("C10", "C16"):
                            viol.append((pp, "accepted statement id=%d (level %d) never reached sink %d: the only failing sink of its logger (sink %s, override "
                                         "pattern cannot be built) %s" % (i, st["lvl"], s, bad,
                                         "comes after sink %d in the logger's list" % s if bad and st["sinks"].index(bad[0]) > st["sinks"].index(s)
                                         else "rejects this statement by its level/filter, so its formatter is not needed for it")))
                    continue
                if sk and accepts_throughout(s, sk, st, i) and written.get((s, i), 0) == 0:
                    viol.append(("C08" if dropping else "C03", "accepted statement id=%d (actor %d) never reached sink %d" % (i, st["actor"], s)))
                    if len(sink_hist.get(s, [])) > 1:
                        viol.append(("C16", "statement id=%d (level %d) was enqueued and is at or above the level filter of sink %d at every moment since "
                                     "its log call (values of the filter since then: %s; changed at run time, all values of the script: %s) and "
                                     "accepted by its filter, but was never written to it" % (
                                         i, st["lvl"], s, "/".join(map(str, levels_between(s, st))), "/".join(map(str, sink_hist[s])))))
                    if st["actor"] in exited:
                        viol.append(("C20", "statement id=%d of exited thread %d was accepted but never delivered to sink %d (its context was reclaimed or skipped with the statement pending)" % (i, st["actor"], s)))
    if dropping and xs_seen and cfg.get("variant", 0) == 1 and not unknown_outcomes[0]:
        if dropped_reported != dropped_log_calls:
            viol.append(("C08", "dropped log calls: %d, reported through the notifier: %d" % (dropped_log_calls, dropped_reported)))
    # ---- C05: global order under the premise ---------------------------------------------------------------------
    if grace > 0:
        premise = all(st["enq"] is None or st["enq"] <= st["ts"] + grace for st in stmts.values())
        if premise:
            for s in rec["sinks"]:
                prev = None
                for (ss, i, lvl, ts) in write_order:
                    if ss != s or lvl == 9 or i not in stmts:
                        continue
                    if backtrace_used:
                        continue
                    if prev is not None and ts < prev[1]:
                        viol.append(("C05", "sink %d: id=%d (ts=%d) written after id=%d (ts=%d)" % (s, i, ts, prev[0], prev[1])))
                    prev = (i, ts)
    # ---- C09 end to end: a blocked producer gets through once the backend has emptied its queue ------------------------
    # (passes = consecutive backend passes that found nothing to write and flushed, with no frontend activity in between;
    #  more of them than there are threads means every queue was found empty, and the reader publishes when it finds that)
    if not dropping:
        for a, i, passes in still_blocked[:1]:
            viol.append(("C09", "log call id=%d of actor %d was refused again after %d backend passes that found every queue empty: a drained queue must accept a statement that fits its capacity" % (i, a, passes)))
    # ---- C20: retained contexts after the drain -------------------------------------------------------------------
    if q_snaps and not removed_loggers:
        k, res, live_then, exited_then, parked_then = q_snaps[-1]
        m = re.search(r"contexts=(\d+)", res)
        if m and not parked_then:
            expect = len([a for a in live_then if a not in exited_then])
            # only a Q that comes right after the long drain of finish(): at least ten rounds of "time passes, poll" with no
            # frontend activity other than retries right before it (a script that ends early, without the drain, says nothing
            # about reclamation: an exited thread's context goes away only at an idle pass)
            before = rec["ops"][max(0, k - 260):k]
            drained = sum(1 for (w2, _, _) in before if w2[0] == "K" and len(w2) > 1 and w2[1].isdigit() and int(w2[1]) >= 2000000) >= 10 \
                and all(w2[0] in ("K", "P", "R", "Q") for (w2, _, _) in before[-40:])
            if drained and len(rec["ops"]) - k <= 6 and int(m.group(1)) != expect:
                viol.append(("C20", "after the drain %s contexts are retained but %d live threads have logged" % (m.group(1), expect)))
    return viol
