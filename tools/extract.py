"""Translator from the current /repo headers to lean/QuillModel/Extracted.lean (DESIGN.md §1, tie 1).

Reads the constructs the models are parametric in — memory orders of the cross-thread accesses, numeric
constants, tables — and regenerates the Lean file. `Obligations/*.lean` then re-prove (by `decide`) that the
extracted values meet the side-conditions of the big theorems. A construct that can no longer be found is
recorded in `failures` (a broken tie, handled like a broken proof)."""
import os
import re
import sys


def read(repo, rel):
    with open(os.path.join(repo, rel), encoding="utf-8") as f:
        return f.read()


def strip_cpp_comments(src):
    src = re.sub(r"/\*.*?\*/", lambda m: "\n" * m.group(0).count("\n"), src, flags=re.S)
    src = re.sub(r"//[^\n]*", "", src)
    return src


def body_after(src, start_idx):
    """text between the first '{' at/after start_idx and its matching '}'"""
    i = src.index("{", start_idx)
    depth = 0
    j = i
    while j < len(src):
        c = src[j]
        if c == "{":
            depth += 1
        elif c == "}":
            depth -= 1
            if depth == 0:
                return src[i + 1:j]
        j += 1
    raise ValueError("unbalanced braces")


def func_body(src, pattern):
    """body of the first function whose signature matches the regex `pattern` (must end before '{')"""
    m = re.search(pattern, src)
    if not m:
        return None
    try:
        return body_after(src, m.end() - 1 if src[m.end() - 1] == "{" else m.end())
    except ValueError:
        return None


MO = {"relaxed": ".relaxed", "consume": ".consume", "acquire": ".acquire", "release": ".release",
      "acq_rel": ".acqrel", "seq_cst": ".seqcst"}


def order_of(body, var, kind, failures, what):
    """memory order of `var.load(...)` / `var.store(...)` inside body; default seq_cst when omitted"""
    if body is None:
        failures.append(what + ": function not found")
        return "seq_cst"
    m = re.search(re.escape(var) + r"\s*\.\s*" + kind + r"\s*\(([^;]*?)\)\s*[;)]", body, re.S)
    if not m:
        failures.append(what + ": no %s.%s(...) found" % (var, kind))
        return "seq_cst"
    args = m.group(1)
    mo = re.search(r"memory_order(?:_|::)(relaxed|consume|acquire|release|acq_rel|seq_cst)", args)
    return mo.group(1) if mo else "seq_cst"


def extract_queue(repo, out, failures):
    src = strip_cpp_comments(read(repo, "include/quill/core/BoundedSPSCQueue.h"))
    pw = func_body(src, r"std::byte\*\s+prepare_write\s*\([^)]*\)\s*(?:noexcept)?\s*\{")
    cw = func_body(src, r"void\s+commit_write\s*\(\s*\)\s*(?:noexcept)?\s*\{")
    cr = func_body(src, r"void\s+commit_read\s*\(\s*\)\s*(?:noexcept)?\s*\{")
    em = func_body(src, r"bool\s+empty\s*\(\s*\)\s*const\s*(?:noexcept)?\s*\{")
    q = {}
    q["rLoad"] = order_of(pw, "_atomic_reader_pos", "load", failures, "bounded.prepare_write")
    q["wStore"] = order_of(cw, "_atomic_writer_pos", "store", failures, "bounded.commit_write")
    q["rStore"] = order_of(cr, "_atomic_reader_pos", "store", failures, "bounded.commit_read")
    q["wLoad"] = order_of(em, "_atomic_writer_pos", "load", failures, "bounded.empty")
    # does commit_read also publish once the consumer has caught up with what it knows was written?
    drain = False
    if cr is not None:
        cond = re.search(r"if\s*\((.*?)\)\s*\{", cr, re.S)
        if cond and re.search(r"_reader_pos\s*==\s*_writer_pos_cache|_writer_pos_cache\s*==\s*_reader_pos", cond.group(1)) \
                and "||" in cond.group(1):
            drain = True
    q["drainPublish"] = drain
    m = re.search(r"reader_store_percent\s*=\s*(\d+)", src)
    if m:
        q["defaultPercent"] = int(m.group(1))
    else:
        failures.append("bounded: default reader_store_percent not found")
        q["defaultPercent"] = 5
    out["bounded"] = q

    usrc = strip_cpp_comments(read(repo, "include/quill/core/UnboundedSPSCQueue.h"))
    hf = func_body(usrc, r"std::byte\*\s+_handle_full_queue\s*\([^)]*\)\s*\{")
    sk = func_body(usrc, r"void\s+shrink\s*\([^)]*\)\s*\{")
    pr = func_body(usrc, r"ReadResult\s+prepare_read\s*\(\s*\)\s*\{")
    u = {}
    u["nextStoreGrow"] = order_of(hf, "next", "store", failures, "unbounded._handle_full_queue")
    u["nextStoreShrink"] = order_of(sk, "next", "store", failures, "unbounded.shrink")
    u["nextLoad"] = order_of(pr, "next", "load", failures, "unbounded.prepare_read")
    # structural facts the C02 model is parametric in
    u["commitBeforePublish"] = bool(hf and re.search(r"commit_write\s*\(\s*\)\s*;.*next\s*\.\s*store", hf, re.S))
    rn = func_body(usrc, r"ReadResult\s+_read_next_queue\s*\([^)]*\)\s*\{")
    u["rereadBeforeSwitch"] = bool(rn and re.search(r"prepare_read\s*\(\s*\).*delete\s+_consumer", rn, re.S))
    u["commitReadBeforeDelete"] = bool(rn and re.search(r"commit_read\s*\(\s*\)\s*;.*delete\s+_consumer", rn, re.S))
    u["throwsOverMax"] = bool(hf and re.search(r"nbytes\s*>\s*_max_capacity", hf) and "QUILL_THROW" in hf)
    u["nullOverMax"] = bool(hf and re.search(r"capacity\s*>\s*_max_capacity", hf) and re.search(r"return\s+nullptr", hf))
    out["unbounded"] = u


def lean_bool(b):
    return "true" if b else "false"


def render(out, failures):
    b = out["bounded"]
    u = out["unbounded"]
    lines = []
    lines.append("import QuillModel.Spsc.Model")
    lines.append("/-! GENERATED by tools/extract.py from the current /repo headers — do not edit. -/")
    lines.append("namespace Extracted")
    lines.append("")
    lines.append("/-- memory orders of the four cross-thread accesses of `BoundedSPSCQueueImpl` and the drain rule of `commit_read` -/")
    lines.append("def boundedParams : Spsc.Params :=")
    lines.append("  { wStore := %s, wLoad := %s, rStore := %s, rLoad := %s, drainPublish := %s }" % (
        MO[b["wStore"]], MO[b["wLoad"]], MO[b["rStore"]], MO[b["rLoad"]], lean_bool(b["drainPublish"])))
    lines.append("def boundedDefaultPercent : Nat := %d" % b["defaultPercent"])
    lines.append("")
    lines.append("/-- `UnboundedSPSCQueue`: order of the `next` publication / observation and the structural steps -/")
    lines.append("def nextStoreGrow : Spsc.MO := %s" % MO[u["nextStoreGrow"]])
    lines.append("def nextStoreShrink : Spsc.MO := %s" % MO[u["nextStoreShrink"]])
    lines.append("def nextLoad : Spsc.MO := %s" % MO[u["nextLoad"]])
    for k in ("commitBeforePublish", "rereadBeforeSwitch", "commitReadBeforeDelete", "throwsOverMax", "nullOverMax"):
        lines.append("def %s : Bool := %s" % (k, lean_bool(u[k])))
    lines.append("")
    for sec in out.get("extra_lean", []):
        lines.append(sec)
        lines.append("")
    lines.append("def extractionFailures : List String := [%s]" % ", ".join('"%s"' % f.replace('"', "'") for f in failures))
    lines.append("")
    lines.append("end Extracted")
    return "\n".join(lines) + "\n"


def main(repo, out_path):
    failures = []
    out = {"extra_lean": []}
    try:
        extract_queue(repo, out, failures)
    except Exception as ex:  # a header vanished or changed beyond recognition
        failures.append("queue extraction crashed: %r" % (ex,))
        out.setdefault("bounded", {"wStore": "seq_cst", "wLoad": "seq_cst", "rStore": "seq_cst", "rLoad": "seq_cst",
                                   "drainPublish": False, "defaultPercent": 5})
        out.setdefault("unbounded", {"nextStoreGrow": "seq_cst", "nextStoreShrink": "seq_cst", "nextLoad": "seq_cst",
                                     "commitBeforePublish": False, "rereadBeforeSwitch": False,
                                     "commitReadBeforeDelete": False, "throwsOverMax": False, "nullOverMax": False})
    # further sections are added by tools/extract_more.py as the library grows
    try:
        import extract_more
        extract_more.extend(repo, out, failures)
    except ImportError:
        pass
    text = render(out, failures)
    old = None
    if os.path.exists(out_path):
        with open(out_path, encoding="utf-8") as f:
            old = f.read()
    if old != text:
        with open(out_path, "w", encoding="utf-8") as f:
            f.write(text)
    out["failures"] = failures
    out["changed"] = old != text
    return out


if __name__ == "__main__":
    repo = sys.argv[1] if len(sys.argv) > 1 else "/repo"
    here = os.path.dirname(os.path.dirname(os.path.abspath(__file__)))
    r = main(repo, os.path.join(here, "lean", "QuillModel", "Extracted.lean"))
    import json
    print(json.dumps({k: v for k, v in r.items() if k != "extra_lean"}, indent=1))
