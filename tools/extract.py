"""Translator from the current /repo headers to lean/QuillModel/Extracted.lean (DESIGN.md §1, tie 1).

Reads the constructs the models are parametric in — memory orders of the cross-thread accesses, numeric
constants, tables — and regenerates the Lean file. `Obligations/*.lean` then re-prove (by `decide`) that the
extracted values meet the side-conditions of the big theorems. A construct that can no longer be found is
recorded in `failures` (a broken tie, handled like a broken proof)."""
import os
import re
import sys


def read(repo, rel):
    with open(os.path.join(repo, rel), encoding="utf-8") as f:
        return f.read()


def strip_cpp_comments(src):
    src = re.sub(r"/\*.*?\*/", lambda m: "\n" * m.group(0).count("\n"), src, flags=re.S)
    src = re.sub(r"//[^\n]*", "", src)
    return src


def body_after(src, start_idx):
    """text between the first '{' at/after start_idx and its matching '}'"""
    i = src.index("{", start_idx)
    depth = 0
    j = i
    while j < len(src):
        c = src[j]
        if c == "{":
            depth += 1
        elif c == "}":
            depth -= 1
            if depth == 0:
                return src[i + 1:j]
        j += 1
    raise ValueError("unbalanced braces")


def func_body(src, pattern):
    """body of the first function whose signature matches the regex `pattern` (must end before '{')"""
    m = re.search(pattern, src)
    if not m:
        return None
    try:
        return body_after(src, m.end() - 1 if src[m.end() - 1] == "{" else m.end())
    except ValueError:
        return None


MO = {"relaxed": ".relaxed", "consume": ".consume", "acquire": ".acquire", "release": ".release",
      "acq_rel": ".acqrel", "seq_cst": ".seqcst"}


def order_of(body, var, kind, failures, what):
    """memory order of `var.load(...)` / `var.store(...)` inside body; default seq_cst when omitted"""
    if body is None:
        failures.append(what + ": function not found")
        return "seq_cst"
    m = re.search(re.escape(var) + r"\s*\.\s*" + kind + r"\s*\(([^;]*?)\)\s*[;)]", body, re.S)
    if not m:
        failures.append(what + ": no %s.%s(...) found" % (var, kind))
        return "seq_cst"
    args = m.group(1)
    mo = re.search(r"memory_order(?:_|::)(relaxed|consume|acquire|release|acq_rel|seq_cst)", args)
    return mo.group(1) if mo else "seq_cst"


def lean_bool(b):
    return "true" if b else "false"


def lean_str(s):
    return '"' + s.replace("\\", "\\\\").replace('"', '\\"') + '"'


def load_extractors():
    import importlib
    here = os.path.dirname(os.path.abspath(__file__))
    if here not in sys.path:
        sys.path.insert(0, here)
    mods = []
    for f in sorted(os.listdir(os.path.join(here, "extractors"))):
        if f.endswith(".py") and f != "__init__.py":
            mods.append(importlib.import_module("extractors." + f[:-3]))
    return mods


def canonical_copy(repo):
    """The extractors are regular expressions over the headers; to make them independent of layout (line breaks, brace and
    pointer placement, spacing) they read a copy of include/quill re-formatted with clang-format and the style file that was
    in the repository at the pinned commit (tools/quill.clang-format — a copy, so that an edit to the repository's own style
    file changes nothing here). The pinned tree extracts identically with and without this step. Returns the directory to
    read from (the repository itself when clang-format is not available)."""
    import hashlib
    import shutil
    import subprocess
    import tempfile
    cf = shutil.which("clang-format") or shutil.which("clang-format-14")
    style = os.path.join(os.path.dirname(os.path.abspath(__file__)), "quill.clang-format")
    inc = os.path.join(repo, "include")
    if not cf or not os.path.exists(style) or not os.path.isdir(inc):
        return repo
    h = hashlib.sha1()
    files = []
    for root, _, names in os.walk(os.path.join(inc, "quill")):
        if "bundled" in root:
            continue
        for n in sorted(names):
            if n.endswith(".h"):
                fp = os.path.join(root, n)
                files.append(fp)
                h.update(fp.encode())
                with open(fp, "rb") as f:
                    h.update(f.read())
    with open(style, "rb") as f:
        h.update(f.read())
    h.update(b"v3-comments-and-blank-lines-stripped")
    base = os.path.join(os.path.dirname(os.path.dirname(os.path.abspath(__file__))), ".cache")
    os.makedirs(base, exist_ok=True)
    dst = os.path.join(base, "canon_" + h.hexdigest()[:16])
    if os.path.isdir(os.path.join(dst, "include")) and os.path.exists(os.path.join(dst, ".done")):
        return dst
    tmp = tempfile.mkdtemp(prefix="canon_", dir=base)
    try:
        shutil.copytree(inc, os.path.join(tmp, "include"))
        for e in os.listdir(repo):   # everything else (tests, CMake files …) is reachable through links
            if e not in ("include", ".git", "_build") and not os.path.exists(os.path.join(tmp, e)):
                try:
                    os.symlink(os.path.join(repo, e), os.path.join(tmp, e))
                except OSError:
                    pass
        canon = [os.path.join(tmp, os.path.relpath(fp, repo)) for fp in files]
        for fp in canon:   # comments first (clang-format re-flows them, and where a comment sits changes the line breaks around it)
            with open(fp, encoding="utf-8", errors="replace") as f:
                txt = f.read()
            txt = "\n".join(ln.rstrip() for ln in strip_cpp_comments(txt).split("\n") if ln.strip()) + "\n"
            with open(fp, "w", encoding="utf-8") as f:
                f.write(txt)
        r = subprocess.run([cf, "-style=file:" + style, "-i"] + canon, capture_output=True, text=True, timeout=300)
        if r.returncode != 0:
            shutil.rmtree(tmp, ignore_errors=True)
            return repo
        open(os.path.join(tmp, ".done"), "w").close()
        if os.path.isdir(dst):
            shutil.rmtree(dst, ignore_errors=True)
        os.rename(tmp, dst)
        # keep the cache small
        olds = sorted((d for d in os.listdir(base) if d.startswith("canon_") and os.path.join(base, d) != dst),
                      key=lambda d: os.path.getmtime(os.path.join(base, d)))
        for d in olds[:-3]:
            shutil.rmtree(os.path.join(base, d), ignore_errors=True)
        return dst
    except Exception:
        shutil.rmtree(tmp, ignore_errors=True)
        return repo


def main(repo, out_dir):
    """every module tools/extractors/<x>.py provides
         IMPORTS : list of Lean modules its section needs (model files only, never Props/Obligations)
         extract(repo, failures) -> (json-able dict, Lean text placed inside `namespace Extracted`)
       and gets its own generated file lean/QuillModel/Extracted/<X>.lean ending with
         `def <x>Failures : List String` (constructs that could not be found — a broken tie)."""
    os.makedirs(out_dir, exist_ok=True)
    if os.environ.get("VERIF_NO_CANON") is None:
        repo = canonical_copy(repo)
    all_failures = []
    failures_by = {}
    out = {}
    changed = False
    for m in load_extractors():
        name = m.__name__.split(".")[-1]
        failures = []
        try:
            data, lean = m.extract(repo, failures)
        except Exception as ex:  # a header vanished or changed beyond recognition
            failures.append("%s extraction crashed: %r" % (name, ex))
            data, lean = getattr(m, "FALLBACK", ({}, ""))
        out[name] = data
        lines = ["import %s" % i for i in getattr(m, "IMPORTS", [])]
        lines.append("/-! GENERATED by tools/extract.py (extractors/%s.py) from the current /repo headers — do not edit. -/" % name)
        lines.append("namespace Extracted")
        lines.append("")
        lines.append(lean.rstrip())
        lines.append("")
        lines.append("def %sFailures : List String := [%s]" % (name, ", ".join(lean_str(f) for f in failures)))
        lines.append("")
        lines.append("end Extracted")
        text = "\n".join(lines) + "\n"
        path = os.path.join(out_dir, name[0].upper() + name[1:] + ".lean")
        old = None
        if os.path.exists(path):
            with open(path, encoding="utf-8") as f:
                old = f.read()
        if old != text:
            with open(path, "w", encoding="utf-8") as f:
                f.write(text)
            changed = True
        all_failures += failures
        failures_by[name] = list(failures)
    out["failures"] = all_failures
    out["failures_by"] = failures_by
    out["changed"] = changed
    # legacy shape used by props/queue.py
    if "queue" in out:
        out["bounded"] = out["queue"].get("bounded", {})
        out["unbounded"] = out["queue"].get("unbounded", {})
    return out


if __name__ == "__main__":
    repo = sys.argv[1] if len(sys.argv) > 1 else os.environ.get("VERIF_REPO", "/repo")
    here = os.path.dirname(os.path.dirname(os.path.abspath(__file__)))
    r = main(repo, os.path.join(here, "lean", "QuillModel", "Extracted"))
    import json
    print(json.dumps(r, indent=1))
