#!/bin/sh
# re-run the quick check of every claimed property on the current (clean) tree so that the committed evidence comes from it
cd "$(dirname "$0")/.."
python3 tools/gen_manifest.py
for p in $(python3 -c "import json; print(' '.join(c['property_id'] for c in json.load(open('MANIFEST.json'))['checks']))"); do
  python3 tools/check.py $p > /tmp/refresh_$p.log 2>&1
  echo "$p rc=$? $(grep -c VIOLATION /tmp/refresh_$p.log) violation line(s)"
done
