"""Shared machinery of the checks (DESIGN.md §1, §3): extraction, Lean build + audit, harness build,
correspondence runs, evidence, known findings, verdict lines."""
import fcntl
import hashlib
import json
import os
import re
import shutil
import subprocess
import sys
import time

VERIF = os.path.dirname(os.path.dirname(os.path.abspath(__file__)))
REPO = os.environ.get("VERIF_REPO", "/repo")
LEAN_DIR = os.path.join(VERIF, "lean")
CACHE = os.path.join(VERIF, ".cache")
EVIDENCE = os.environ.get("VERIF_EVIDENCE_DIR", os.path.join(VERIF, "evidence"))  # redirected while trying mutants
REPLAYS = os.environ.get("VERIF_REPLAY_DIR", os.path.join(VERIF, "replays"))
DRIVER = os.path.join(LEAN_DIR, ".lake", "build", "bin", "driver")
GUARD = "QUILL_VERIF"
ALLOWED_AXIOMS = {"propext", "Quot.sound", "Classical.choice"}
TRUSTED_BASE = [
    "Lean 4.33.0 kernel (thorough tier: leanchecker re-checks the compiled .olean files)",
    "axioms allowed in property theorems: propext, Quot.sound, Classical.choice (audited by #print axioms on every run); no sorry/admit/native_decide/bv_decide/implemented_by/unsafe",
    "tools/extract.py (regex + brace matching over /repo/include) and the obligations it feeds",
    "C++ harnesses under /verif/harness (atomic shim, libc interposers, recording sinks) and the line-protocol driver — unverified glue",
    "correspondence = differential execution of model and real code on generated cases only",
]

os.makedirs(CACHE, exist_ok=True)
os.makedirs(EVIDENCE, exist_ok=True)
os.makedirs(REPLAYS, exist_ok=True)


def sh(cmd, cwd=None, timeout=None, env=None, stdin_data=None):
    """run, return (rc, stdout+stderr)"""
    e = dict(os.environ)
    if env:
        e.update(env)
    try:
        p = subprocess.run(cmd, cwd=cwd, shell=isinstance(cmd, str), stdout=subprocess.PIPE,
                           stderr=subprocess.STDOUT, timeout=timeout, env=e,
                           input=stdin_data)
        return p.returncode, p.stdout.decode("utf-8", "replace")
    except subprocess.TimeoutExpired as ex:
        out = ex.stdout.decode("utf-8", "replace") if ex.stdout else ""
        return 124, out + "\n[timeout]"


class Lock:
    def __init__(self, name):
        self.path = os.path.join(CACHE, name + ".lock")

    def __enter__(self):
        self.f = open(self.path, "w")
        fcntl.flock(self.f, fcntl.LOCK_EX)
        return self

    def __exit__(self, *a):
        fcntl.flock(self.f, fcntl.LOCK_UN)
        self.f.close()


# ----------------------------------------------------------------------------------------------
# Lean side
# ----------------------------------------------------------------------------------------------

def run_extract():
    """regenerate lean/QuillModel/Extracted.lean from the current /repo tree; returns dict"""
    sys.path.insert(0, os.path.join(VERIF, "tools"))
    import extract
    with Lock("lake"):
        return extract.main(REPO, os.path.join(LEAN_DIR, "QuillModel", "Extracted"))


def lake_build(targets):
    """build modules (and the driver). returns (ok, log)"""
    with Lock("lake"):
        rc, out = sh(["lake", "build"] + list(targets), cwd=LEAN_DIR, timeout=3000)
    return rc == 0, out


FORBIDDEN = re.compile(r"\b(sorry|admit|native_decide|bv_decide|implemented_by|unsafe)\b|^\s*axiom\s|maxHeartbeats\s+0\b")


def strip_comments(src):
    # remove /- ... -/ (nested) and -- comments and string literals
    out = []
    i, n, depth = 0, len(src), 0
    while i < n:
        if src.startswith("/-", i):
            depth += 1
            i += 2
            continue
        if depth > 0:
            if src.startswith("-/", i):
                depth -= 1
                i += 2
            else:
                if src[i] == "\n":
                    out.append("\n")
                i += 1
            continue
        if src.startswith("--", i):
            while i < n and src[i] != "\n":
                i += 1
            continue
        if src[i] == '"':
            i += 1
            while i < n and src[i] != '"':
                if src[i] == "\\":
                    i += 1
                i += 1
            i += 1
            out.append('""')
            continue
        out.append(src[i])
        i += 1
    return "".join(out)


def grep_forbidden():
    """scan every .lean file of the library (comments and strings stripped)"""
    hits = []
    for root, _, files in os.walk(LEAN_DIR):
        if ".lake" in root:
            continue
        for f in files:
            if not f.endswith(".lean"):
                continue
            p = os.path.join(root, f)
            body = strip_comments(open(p, encoding="utf-8").read())
            for ln, line in enumerate(body.split("\n"), 1):
                if FORBIDDEN.search(line):
                    hits.append("%s:%d: %s" % (os.path.relpath(p, VERIF), ln, line.strip()[:120]))
    return hits


def audit_axioms(imports, theorems):
    """#print axioms for each theorem; returns (ok, {thm: [axioms]}, log)"""
    src = "".join("import %s\n" % m for m in imports) + "".join("#print axioms %s\n" % t for t in theorems)
    h = hashlib.sha1(src.encode()).hexdigest()[:12]
    path = os.path.join(CACHE, "audit_%s.lean" % h)
    with open(path, "w") as f:
        f.write(src)
    rc, out = sh(["lake", "env", "lean", path], cwd=LEAN_DIR, timeout=1200)
    res = {}
    # parse: "'Name' depends on axioms: [a, b]" or "'Name' does not depend on any axioms"
    for m in re.finditer(r"'([^']+)' depends on axioms: \[([^\]]*)\]", out, re.S):
        res[m.group(1)] = [a.strip() for a in m.group(2).replace("\n", " ").split(",") if a.strip()]
    for m in re.finditer(r"'([^']+)' does not depend on any axioms", out):
        res[m.group(1)] = []
    ok = rc == 0
    bad = []
    for t in theorems:
        if t not in res:
            ok = False
            bad.append("%s: not found / not printed" % t)
        else:
            extra = [a for a in res[t] if a not in ALLOWED_AXIOMS]
            if extra:
                ok = False
                bad.append("%s: uses %s" % (t, extra))
    return ok, res, (out if not ok else "") + "\n".join(bad)


def leanchecker(modules):
    logs = []
    ok = True
    for m in modules:
        rc, out = sh(["lake", "env", "leanchecker", m], cwd=LEAN_DIR, timeout=1800)
        if rc != 0:
            ok = False
            logs.append("%s: rc=%d %s" % (m, rc, out[-400:]))
    return ok, "\n".join(logs)


def driver(args, stdin_path=None, stdin_data=None, timeout=1200):
    if stdin_path:
        with open(stdin_path, "rb") as f:
            data = f.read()
    else:
        data = stdin_data
    return sh([DRIVER] + list(args), stdin_data=data, timeout=timeout)


# ----------------------------------------------------------------------------------------------
# C++ side
# ----------------------------------------------------------------------------------------------

def tree_hash(paths):
    h = hashlib.sha1()
    for base in paths:
        if os.path.isfile(base):
            h.update(base.encode())
            h.update(open(base, "rb").read())
            continue
        for root, dirs, files in os.walk(base):
            dirs.sort()
            if "bundled" in root.split(os.sep):
                # fmt is large and never edited by the checks' subjects; hash names+sizes only
                for f in sorted(files):
                    p = os.path.join(root, f)
                    h.update(("%s:%d" % (p, os.path.getsize(p))).encode())
                continue
            for f in sorted(files):
                p = os.path.join(root, f)
                h.update(p.encode())
                h.update(open(p, "rb").read())
    return h.hexdigest()[:16]


BASE_FLAGS = ["-std=c++17", "-O1", "-g", "-fno-omit-frame-pointer", "-I" + os.path.join(REPO, "include"),
              "-I" + os.path.join(VERIF, "harness"), "-D" + GUARD, "-pthread", "-w"]
SAN_FLAGS = ["-fsanitize=address,undefined", "-fno-sanitize-recover=all"]


def build_harness(name, sources, extra_flags=(), sanitize=True, compiler="g++", libs=()):
    """compile /verif/harness/<sources> against the CURRENT /repo/include; cached by content hash"""
    srcs = [os.path.join(VERIF, "harness", s) for s in sources]
    hdrs = [os.path.join(VERIF, "harness", f) for f in os.listdir(os.path.join(VERIF, "harness")) if f.endswith(".h")]
    flags = BASE_FLAGS + (SAN_FLAGS if sanitize else []) + list(extra_flags)
    key = tree_hash([os.path.join(REPO, "include")] + srcs + sorted(hdrs))
    key = hashlib.sha1((key + " ".join(flags) + compiler + " ".join(libs)).encode()).hexdigest()[:16]
    out = os.path.join(CACHE, "%s_%s" % (name, key))
    if os.path.exists(out):
        return True, out, "cached"
    with Lock("build_" + name):
        if os.path.exists(out):
            return True, out, "cached"
        tmp = out + ".tmp%d" % os.getpid()
        rc, log = sh([compiler] + flags + srcs + ["-o", tmp] + list(libs), timeout=1800)
        if rc != 0:
            return False, None, log
        os.replace(tmp, out)
        # drop older binaries of the same harness
        for f in os.listdir(CACHE):
            if f.startswith(name + "_") and os.path.join(CACHE, f) != out and ".tmp" not in f and not f.endswith(".lock"):
                try:
                    os.remove(os.path.join(CACHE, f))
                except OSError:
                    pass
    return True, out, log


ASAN_ENV = {"ASAN_OPTIONS": "detect_leaks=0:abort_on_error=0:exitcode=99", "UBSAN_OPTIONS": "print_stacktrace=1:exitcode=98"}


# ----------------------------------------------------------------------------------------------
# Known findings, verdicts, evidence
# ----------------------------------------------------------------------------------------------

def known_findings(prop):
    p = os.path.join(VERIF, "known_findings.json")
    if not os.path.exists(p):
        return []
    data = json.load(open(p))
    return [f for f in data.get("findings", []) if f.get("property") == prop and f.get("status") == "known"]


def relevant_extractors(modules):
    """names of the tools/extractors/<x>.py whose generated module QuillModel.Extracted.<X> is imported, directly or not,
    by the given Lean modules (None when the import graph cannot be read)"""
    try:
        seen, todo, out = set(), list(modules), set()
        while todo:
            m = todo.pop()
            if m in seen or not m.startswith("QuillModel"):
                continue
            seen.add(m)
            if m.startswith("QuillModel.Extracted."):
                x = m.split(".")[-1]
                out.add(x[0].lower() + x[1:])
                continue
            path = os.path.join(LEAN_DIR, *m.split(".")) + ".lean"
            if not os.path.exists(path):
                continue
            with open(path, encoding="utf-8") as f:
                for ln in f:
                    mm = re.match(r"\s*(?:public\s+)?import\s+(QuillModel\.\S+)", ln)
                    if mm:
                        todo.append(mm.group(1))
                    elif ln.strip() and not ln.startswith(("import", "--", "/-", "public import")) and "import" not in ln:
                        break
        return out
    except Exception:
        return None


class Check:
    """one run of one property's check"""

    def __init__(self, prop, tier, level="proof"):
        self.prop = prop
        self.tier = tier
        self.level = level
        self.seed = int(os.environ.get("VERIF_SEED", "1"))
        self.t0 = time.time()
        self.violations = []      # (replay_path, text, no_input_found)
        self.known_lines = []
        self.cov = {"obligations": 0, "discharged": 0, "checker_cmd": "", "trusted_base": list(TRUSTED_BASE),
                    "evaluations": 0, "distinct_nontrivial": 0, "rule": "", "samples": []}
        self.assumptions = []
        self.notes = []

    def log(self, msg):
        print("[%s %s +%.1fs] %s" % (self.prop, self.tier, time.time() - self.t0, msg), flush=True)

    def replay_path(self, tag):
        d = os.path.join(REPLAYS, self.prop)
        os.makedirs(d, exist_ok=True)
        return os.path.join(d, "%s_seed%d_%s.txt" % (self.tier, self.seed, tag))

    def violation(self, tag, content, text, no_input=False):
        path = self.replay_path(tag)
        with open(path, "w") as f:
            f.write(content)
        self.violations.append((path, text, no_input))
        return path

    def known(self, what):
        self.known_lines.append(what)

    # ---- the proof side, common to all properties ------------------------------------------------
    def proof_side(self, modules, theorems, obligations_modules=(), thorough_checker=True):
        """extract → build → audit. Returns dict(ok=bool, broken=[...]) ; records obligations in coverage."""
        broken = []
        ex = run_extract()
        if ex.get("failures"):
            # only the extractors this property's modules actually import count: a construct that another bundle's
            # extractor can no longer find is that bundle's broken tie, not this one's
            rel = relevant_extractors(list(modules) + list(obligations_modules))
            by = ex.get("failures_by")
            mine = [f for n, fs in by.items() if n in rel for f in fs] if isinstance(by, dict) and rel is not None else ex["failures"]
            if mine:
                broken.append("extraction: " + "; ".join(mine))
        self.extracted = ex
        targets = list(modules) + list(obligations_modules) + ["driver"]
        ok, log = lake_build(targets)
        if not ok:
            # which modules failed?
            failed = re.findall(r"^- (\S+)", log, re.M)
            errs = re.findall(r"^error: (.*)$", log, re.M)
            broken.append("lake build failed for %s: %s" % (failed, " | ".join(errs[:4])[:600]))
            self.build_log = log
            # make sure at least the driver is available for the search
            lake_build(["driver"])
        hits = grep_forbidden()
        if hits:
            broken.append("forbidden tokens: " + "; ".join(hits[:5]))
        n_ob = len(theorems)
        n_ok = 0
        if ok:
            aok, res, alog = audit_axioms(list(modules) + list(obligations_modules), theorems)
            n_ok = sum(1 for t in theorems if t in res and all(a in ALLOWED_AXIOMS for a in res[t]))
            if not aok:
                broken.append("axiom audit: " + alog[-600:])
            self.axioms = res
            if self.tier == "thorough" and thorough_checker:
                cok, clog = leanchecker(list(modules) + list(obligations_modules))
                if not cok:
                    broken.append("leanchecker: " + clog)
                else:
                    self.notes.append("leanchecker re-checked: " + ", ".join(list(modules) + list(obligations_modules)))
        self.cov["obligations"] += n_ob
        self.cov["discharged"] += n_ok
        self.cov["checker_cmd"] = "cd lean && lake build %s && lake env lean <audit: #print axioms …>%s" % (
            " ".join(targets), " && lake env leanchecker <module>" if self.tier == "thorough" else "")
        self.cov["theorems"] = list(theorems)
        return {"ok": not broken, "broken": broken}

    # ---- finish -----------------------------------------------------------------------------------
    def finish(self):
        wall = time.time() - self.t0
        ev = {
            "property_id": self.prop,
            "tier": self.tier,
            "seed": self.seed,
            "level": self.level,
            "coverage": self.cov,
            "assumptions": self.assumptions,
            "wall_s": round(wall, 2),
            "violations": len(self.violations),
            "known_findings_reproduced": self.known_lines,
            "notes": self.notes,
        }
        if not self.cov.get("samples"):
            self.cov["samples"] = ["(no sample recorded)"]
        with open(os.path.join(EVIDENCE, self.prop + ".json"), "w") as f:
            json.dump(ev, f, indent=1, sort_keys=True)
            f.write("\n")
        for k in self.known_lines:
            print("KNOWN-FINDING: property=%s %s" % (self.prop, k))
        for path, text, no_input in self.violations:
            print("# %s" % text)
            print("VIOLATION property=%s replay=%s%s" % (self.prop, path, " no-failing-input-found" if no_input else ""))
        sys.stdout.flush()
        return 1 if self.violations else 0
