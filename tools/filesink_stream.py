"""Stream-sink stream of C06 (the sink's half of "… those sinks have been flushed, so it can be read from the destination").
Harness h3_filesink (the real FileSink / JsonFileSink / RotatingFileSink / StreamSink in a scratch directory, with and without
FileEventNotifier callbacks, fsync, a small stdio buffer; a second descriptor reads the path after every flush_sink()) vs the
Lean driver `filesink` (FileSink.step, the definition the theorems of Props/C06Sink.lean are about).
Called from tools/props/backend.py for prop == "C06"."""
import hashlib
import os
import re
import shutil
import tempfile

import vlib

TAG = "filesink"
HARNESS = ("h3_filesink", ["h3_filesink.cpp"], ["-fno-access-control"])
OPS = {"w": 3, "fl": 1, "rp": 1}


def params_args(ex):
    s = ex.get("filesink") or {}
    return ["1" if s.get(k, d) else "0" for k, d in (("plainSetsDirty", False), ("hookSetsDirty", False), ("flushTestsFlag", True), ("flushResetsFlag", True))]


def op_of(ln):
    ws = ln.split(" =>")[0].split()
    if ws and ws[0] == "init" and len(ws) >= 6:
        return " ".join(ws[:6])    # id, sink class, hook=, fsync=, wbuf= ; the four flags are re-read from the tree at replay time
    if ws and ws[0] in OPS and len(ws) >= OPS[ws[0]]:
        return " ".join(ws[:OPS[ws[0]]])
    return None


def split_cases(text):
    cases, cur = [], None
    for ln in text.split("\n"):
        if ln.startswith("init "):
            cur = [ln]
            cases.append(cur)
        elif cur is not None and ln.strip() and not ln.startswith("STATS"):
            cur.append(ln)
    return cases


def replay_content(prop, header, case, upto=None):
    ops = [o for o in (op_of(ln) for ln in (case if upto is None else case[:upto])) if o]
    return "# %s stream of %s — replay: python3 tools/check.py %s --replay <this file>\n# %s\n%s\n" % (TAG, prop, prop, header, "\n".join(ops))


def driver_input(out):
    return "\n".join(l for l in out.split("\n") if l.startswith("init ") or (" => " in l and op_of(l))) + "\n"


def run(ck, tier, ps):
    prop = ck.prop
    ok, hbin, log = vlib.build_harness(HARNESS[0], HARNESS[1], extra_flags=HARNESS[2])
    if not ok:
        ck.violation("harness_build_filesink", log, "harness h3_filesink no longer compiles against the current tree (correspondence broken): " + log[-300:], no_input=True)
        return {"built": False}
    pargs = params_args(ck.extracted)
    plans = [(ck.seed, 300, 24)] if tier == "quick" else [(ck.seed, 4000, 40), (ck.seed + 1000, 4000, 60)]
    cov = {"params(plain,hook,tests,resets)": pargs, "cases": 0, "lines": 0, "mismatches": 0, "oracle_hits": 0, "aborts": 0, "harness_stats": [],
           "driver_totals": [], "distinct_nontrivial": 0, "samples": []}
    nontrivial = set()
    first_oracle = first_abort = first_mm = None
    scratch = tempfile.mkdtemp(prefix="verif_filesink_")
    try:
        runs = []
        cdir = os.path.join(vlib.VERIF, "corpus", prop)
        if os.path.isdir(cdir):
            for f in sorted(os.listdir(cdir)):
                p = os.path.join(cdir, f)
                if os.path.isfile(p) and TAG in open(p, errors="replace").readline():
                    runs.append(("corpus/" + f, [hbin, "replay", p, scratch] + pargs))
        for sd, ncases, maxops in plans:
            runs.append(("gen seed=%d" % sd, [hbin, "gen", str(sd), str(ncases), str(maxops), scratch] + pargs))
        for label, cmd in runs:
            rc, out = vlib.sh(cmd, env=vlib.ASAN_ENV, timeout=3000)
            aborted = rc not in (0, 3)
            cases = split_cases(out)
            cov["cases"] += len(cases)
            cov["harness_stats"] += [label + ": " + l for l in out.split("\n") if l.startswith("STATS")]
            by_id = {c[0].split()[1]: c for c in cases}
            rcd, dout = vlib.driver(["filesink", "trace"], stdin_data=driver_input(out).encode(), timeout=1800)
            done = False
            for ln in dout.split("\n"):
                if ln.startswith("TRACE "):
                    w = ln.split()
                    kv = dict(x.split("=") for x in w[2:])
                    cov["lines"] += int(kv["lines"])
                    # non-trivial: a callback is set, and at least two flushes had something to make readable
                    if kv["hook"] == "1" and int(kv["draining"]) >= 2:
                        c = by_id.get(w[1])
                        nontrivial.add(hashlib.sha1("\n".join(filter(None, (op_of(l) for l in (c or [])))).encode()).hexdigest())
                        if len(cov["samples"]) < 2 and c:
                            cov["samples"].append({"source": label, "trace": c[:10]})
                elif ln.startswith("DONE"):
                    done = True
                    cov["driver_totals"].append(label + ": " + ln)
                elif ln.startswith(("MISMATCH", "BAD-", "NO-INIT")):
                    cov["mismatches"] += 1
                    if first_mm is None:
                        m = re.search(r"trace=(\S+)", ln)
                        first_mm = (label, ln, by_id.get(m.group(1)) if m else None)
            if not done:
                cov["mismatches"] += 1
                if first_mm is None:
                    first_mm = (label, "driver `filesink` did not finish (rc=%d): %s" % (rcd, dout[-300:]), None)
            best = None
            for c in cases:
                for i, ln in enumerate(c):
                    if ln.startswith("ORACLE"):
                        cov["oracle_hits"] += 1
                        if best is None or i < best[2]:
                            best = (label, c, i, ln)
                        break
            if best and (first_oracle is None or best[2] < first_oracle[2]):
                first_oracle = best
            if aborted:
                cov["aborts"] += 1
                if first_abort is None:
                    m = re.search(r"(SUMMARY: [^\n]*|runtime error: [^\n]*|AddressSanitizer[^\n]*)", out)
                    first_abort = (label, cases[-1] if cases else ["init none file hook=0 fsync=0 wbuf=65536"],
                                   "harness aborted (rc=%d) while driving the real stream sinks: %s" % (rc, m.group(1)[:240] if m else out[-300:].strip()))
    finally:
        shutil.rmtree(scratch, ignore_errors=True)
    cov["distinct_nontrivial"] = len(nontrivial)
    cov["rule"] = ("one case = one life of a real FileSink / JsonFileSink / RotatingFileSink / StreamSink in a scratch directory (callback configuration, "
                   "fsync, stdio buffer size; write_log / flush_sink / run_periodic_tasks, the path read through a second descriptor after every flush); "
                   "non-trivial iff a before_write callback is set and at least two flushes had new statements to make readable; distinct = distinct op sequences (SHA-1)")
    if first_oracle:
        label, case, i, ln = first_oracle
        ck.violation(TAG + "_oracle", replay_content(prop, "%s: %s" % (label, ln), case, i),
                     "property fails on the real code: flush_sink() returned but what was written to the sink cannot be read from the file: %s (%d failing cases; op sequence in the replay file)" % (ln[:300], cov["oracle_hits"]))
    if first_abort:
        label, case, what = first_abort
        ck.violation(TAG + "_abort", replay_content(prop, "%s: %s — the call that died is the last line" % (label, what), case), what)
    if first_mm and not (first_oracle or first_abort):
        label, ln, case = first_mm
        ck.violation(TAG + "_correspondence",
                     replay_content(prop, "correspondence stream `filesink` (harness h3_filesink vs Lean driver) no longer agrees: %s: %s" % (label, ln[:300]), case or []),
                     "stream-sink model and the real sinks disagree (%d lines), no property oracle fired: %s" % (cov["mismatches"], ln[:300]), no_input=True)
    return cov


def replay(prop, path):
    ok, hbin, log = vlib.build_harness(HARNESS[0], HARNESS[1], extra_flags=HARNESS[2])
    if not ok:
        print(log)
        return 2
    ex = vlib.run_extract()
    vlib.lake_build(["driver"])
    pargs = params_args(ex)
    scratch = tempfile.mkdtemp(prefix="verif_filesink_")
    try:
        rc, out = vlib.sh([hbin, "replay", path, scratch] + pargs, env=vlib.ASAN_ENV)
    finally:
        shutil.rmtree(scratch, ignore_errors=True)
    print(out)
    rc2, dout = vlib.driver(["filesink", "trace"], stdin_data=driver_input(out).encode())
    print(dout)
    bad = [l for l in out.split("\n") if l.startswith("ORACLE")]
    for l in bad[:3]:
        print("REPLAY-VIOLATION " + l)
    return 1 if bad or rc not in (0, 3) else 0
