"""Exit section of the extraction (C07): the control-flow skeleton of `detail::on_signal` as a `Exit.Prog` term, the
default `catchable_signals`, `on_alarm`, `init_signal_handler`, the structure of `BackendWorker::run/stop/_exit`, of
`BackendManager::stop_backend_thread`, of the two `Backend::start` overloads and `Backend::stop`,
`~ManualBackendWorker`, and the default of `wait_for_queues_to_empty_before_exit`."""
import re

from extract import read, strip_cpp_comments, func_body, body_after, lean_bool

IMPORTS = ["QuillModel.Exit.Model", "QuillModel.Exit.Stop"]

SIG = {"SIGSEGV": ".segv", "SIGABRT": ".abrt", "SIGFPE": ".fpe", "SIGILL": ".ill", "SIGINT": ".int",
       "SIGTERM": ".term", "SIGALRM": ".alrm", "SIGUSR1": ".usr1"}


def select_posix(src):
    """resolve `#if defined(_WIN32) … #else … #endif` for a non-Windows build; other conditionals keep every branch"""
    out, stack = [], []   # stack entries: None (foreign conditional) or "win"/"posix"
    for line in src.split("\n"):
        s = line.strip()
        if s.startswith("#"):
            d = s[1:].strip()
            if d.startswith("if"):
                stack.append("win" if re.match(r"if\s+defined\s*\(\s*_WIN32\s*\)\s*$", d) else None)
            elif d.startswith("else"):
                if stack and stack[-1] in ("win", "posix"):
                    stack[-1] = "posix" if stack[-1] == "win" else "win"
            elif d.startswith("endif"):
                if stack:
                    stack.pop()
            out.append("")
            continue
        out.append("" if "win" in stack else line)
    return "\n".join(out)


# ------------------------------------------------------------------------------------------------------
# a small statement parser: blocks, if/else, while/for (kept as opaque loops), simple statements
# ------------------------------------------------------------------------------------------------------

def _match(src, i, open_c, close_c):
    depth = 0
    j = i
    while j < len(src):
        c = src[j]
        if c == open_c:
            depth += 1
        elif c == close_c:
            depth -= 1
            if depth == 0:
                return j
        elif c == '"':
            j += 1
            while j < len(src) and src[j] != '"':
                if src[j] == "\\":
                    j += 1
                j += 1
        j += 1
    raise ValueError("unbalanced %s%s" % (open_c, close_c))


def parse_block(src):
    """list of nodes: ('stmt', text) | ('if', cond, then_nodes, else_nodes) | ('loop', head, body_nodes)"""
    nodes, i, n = [], 0, len(src)
    while i < n:
        if src[i].isspace() or src[i] == ";":
            i += 1
            continue
        t = re.match(r"QUILL_TRY\b", src[i:])
        if t:
            i += t.end()     # transparent: the guarded block is parsed as a plain block
            continue
        t = re.match(r"(QUILL_CATCH_ALL|QUILL_CATCH)\s*\(", src[i:])
        if t:
            p = i + t.end() - 1
            q = _match(src, p, "(", ")")
            body, i = _stmt_or_block(src, q + 1)
            nodes.append(("if", "catch " + " ".join(src[p + 1:q].split()), body, []))
            continue
        m = re.match(r"(if|while|for)\s*\(", src[i:])
        if m and (i == 0 or not (src[i - 1].isalnum() or src[i - 1] == "_")):
            p = i + m.end() - 1
            q = _match(src, p, "(", ")")
            head = " ".join(src[p + 1:q].split())
            body, i = _stmt_or_block(src, q + 1)
            if m.group(1) == "if":
                els = []
                e = re.match(r"\s*else\b", src[i:])
                if e:
                    els, i = _stmt_or_block(src, i + e.end())
                nodes.append(("if", head, body, els))
            else:
                nodes.append(("loop", m.group(1) + " " + head, body))
            continue
        if src.startswith("do", i) and re.match(r"do\s*\{", src[i:]):
            p = src.index("{", i)
            q = _match(src, p, "{", "}")
            w = re.match(r"\s*while\s*\(", src[q + 1:])
            r = _match(src, q + 1 + w.end() - 1, "(", ")")
            nodes.append(("loop", "do-while " + src[q + 1 + w.end():r].strip(), parse_block(src[p + 1:q])))
            i = r + 1
            continue
        if src[i] == "{":
            q = _match(src, i, "{", "}")
            nodes += parse_block(src[i + 1:q])
            i = q + 1
            continue
        # simple statement up to ';' at depth 0
        j, depth = i, 0
        while j < n:
            c = src[j]
            if c in "({[":
                depth += 1
            elif c in ")}]":
                depth -= 1
            elif c == '"':
                j += 1
                while j < n and src[j] != '"':
                    if src[j] == "\\":
                        j += 1
                    j += 1
            elif c == ";" and depth == 0:
                break
            j += 1
        nodes.append(("stmt", " ".join(src[i:j].split())))
        i = j + 1
    return nodes


def _stmt_or_block(src, i):
    while i < len(src) and src[i].isspace():
        i += 1
    if i < len(src) and src[i] == "{":
        q = _match(src, i, "{", "}")
        return parse_block(src[i + 1:q]), q + 1
    # single statement (possibly itself an if)
    m = re.match(r"(if|while|for)\s*\(", src[i:])
    if m:
        p = i + m.end() - 1
        q = _match(src, p, "(", ")")
        _, end = _stmt_or_block(src, q + 1)
        e = re.match(r"\s*else\b", src[end:])
        if m.group(1) == "if" and e:
            _, end = _stmt_or_block(src, end + e.end())
        return parse_block(src[i:end]), end
    j = src.index(";", i)
    return parse_block(src[i:j + 1]), j + 1


def _one_line(t):
    """a statement on one line whatever the formatter did with it: single spaces, none inside parentheses' edges"""
    t = re.sub(r"\s+", " ", t).strip()
    t = re.sub(r"\(\s+", "(", t)
    t = re.sub(r"\s+\)", ")", t)
    return t


def flat_calls(nodes):
    """every simple statement of a tree, in source order"""
    out = []
    for nd in nodes:
        if nd[0] == "stmt":
            out.append(_one_line(nd[1]))
        elif nd[0] == "if":
            out.append("if (" + _one_line(nd[1]) + ")")
            out += flat_calls(nd[2]) + flat_calls(nd[3])
        else:
            out.append(_one_line(nd[1]))
            out += flat_calls(nd[2])
    return out


# ------------------------------------------------------------------------------------------------------
# on_signal → Exit.Prog
# ------------------------------------------------------------------------------------------------------

DECL = re.compile(r"^(?:uint32_t\b|int32_t\b|bool\b|char\b|auto\b|LoggerBase\s*\*)")

ACTIONS = [
    (r"^pause\s*\(\s*\)$", ".park"),
    (r"^SignalHandlerContext::instance\(\)\.signal_number\.store\(\s*signal_number\s*\)$", ".storeSignal"),
    (r"^alarm\s*\(\s*SignalHandlerContext::instance\(\)\.signal_handler_timeout_seconds\.load\(\)\s*\)$", ".setAlarm"),
    (r"^QUILL_SIGNAL_HANDLER_LOG\s*\(\s*logger\s*,\s*LogLevel::Info\s*,", ".logNotice"),
    (r"^QUILL_SIGNAL_HANDLER_LOG\s*\(\s*logger\s*,\s*LogLevel::Critical\s*,", ".logCritical"),
    (r"^logger\s*->\s*flush_log\s*\(\s*0\s*\)$", ".flush"),
    # candidate repair of F27: the same request, but the wait ends when backend_thread_id becomes 0 (see flushEndsWhenBackendGone)
    (r"^flush_log_while_backend_alive\s*\(\s*logger\s*\)$", ".flush"),
    (r"^std::exit\s*\(\s*EXIT_SUCCESS\s*\)$", ".exitSuccess"),
    (r"^std::signal\s*\(\s*signal_number\s*,\s*SIG_DFL\s*\)$", ".restoreDefault"),
    (r"^std::raise\s*\(\s*signal_number\s*\)$", ".reraise"),
]

# variables the conditions mention → how they must have been computed
VARS = {
    "lock": r"uint32_t const lock = SignalHandlerContext::instance\(\)\.lock\.fetch_add\(\s*1\s*\)",
    "backend_thread_id": r"uint32_t const backend_thread_id = SignalHandlerContext::instance\(\)\.backend_thread_id\.load\(\)",
    "current_thread_id": r"uint32_t const current_thread_id = get_thread_id\(\)",
    "should_reraise_signal": r"bool const should_reraise_signal = SignalHandlerContext::instance\(\)\.should_reraise_signal\.load\(\)",
    "logger_base": r"LoggerBase\s*\* logger_base = SignalHandlerContext::(?:instance\(\)\.)?get_logger\(\)",
    "logger": r"auto logger = reinterpret_cast<LoggerImpl<TFrontendOptions>\s*\*>\(\s*logger_base\s*\)",
}


def strip_parens(c):
    c = c.strip()
    while c.startswith("(") and _match(c, 0, "(", ")") == len(c) - 1:
        c = c[1:-1].strip()
    return c


def split_top(c, op):
    parts, depth, last, i = [], 0, 0, 0
    while i < len(c):
        if c[i] in "([":
            depth += 1
        elif c[i] in ")]":
            depth -= 1
        elif depth == 0 and c.startswith(op, i):
            parts.append(c[last:i])
            last = i + len(op)
            i += len(op)
            continue
        i += 1
    parts.append(c[last:])
    return parts


def cond_term(c, failures):
    c = strip_parens(c)
    parts = split_top(c, "||")
    if len(parts) > 1:
        terms = [cond_term(p, failures) for p in parts]
        # merge signal comparisons
        sigs = [t for t in terms if isinstance(t, tuple)]
        rest = [t for t in terms if not isinstance(t, tuple)]
        if sigs:
            rest.append(".sigIn [%s]" % ", ".join(s for t in sigs for s in t))
        out = rest[0]
        for t in rest[1:]:
            out = "(.or %s %s)" % (out, t)
        return out
    c = " ".join(c.split())
    if re.match(r"^lock != 0u?$", c):
        return ".notFirst"
    if re.match(r"^backend_thread_id == 0u?$", c) or re.match(r"^0u? == backend_thread_id$", c):
        return ".backendIdZero"
    if c in ("current_thread_id == backend_thread_id", "backend_thread_id == current_thread_id"):
        return ".onBackendThread"
    m = re.match(r"^signal_number == (SIG[A-Z0-9]+)$", c)
    if m and m.group(1) in SIG:
        return (SIG[m.group(1)],)
    if c == "should_reraise_signal":
        return ".shouldReraise"
    if c == "logger_base":
        return ".hasLogger"
    failures.append("on_signal: condition not recognised: `%s`" % c[:80])
    return ".hasLogger"


def cond_lean(c, failures):
    t = cond_term(c, failures)
    if isinstance(t, tuple):
        return "(.sigIn [%s])" % ", ".join(t)
    return t if t.startswith("(") or " " not in t else "(" + t + ")"


def prog_of(nodes, failures, seen_decls):
    """right-nested `Exit.Prog` term of a node list"""
    if not nodes:
        return ".done"
    nd, rest = nodes[0], nodes[1:]
    if nd[0] == "stmt":
        s = nd[1]
        for rx, act in ACTIONS:
            if re.match(rx, s):
                return "(.act %s %s)" % (act, prog_of(rest, failures, seen_decls))
        if DECL.match(s):
            seen_decls.append(s)
            return prog_of(rest, failures, seen_decls)
        failures.append("on_signal: statement not recognised: `%s`" % s[:80])
        return prog_of(rest, failures, seen_decls)
    if nd[0] == "if":
        return "(.ite %s %s %s %s)" % (cond_lean(nd[1], failures), prog_of(nd[2], failures, seen_decls),
                                        prog_of(nd[3], failures, seen_decls), prog_of(rest, failures, seen_decls))
    failures.append("on_signal: unexpected loop `%s`" % nd[1][:60])
    return prog_of(rest, failures, seen_decls)


def extract_on_signal(sh, failures):
    m = re.search(r"template\s*<\s*typename\s+TFrontendOptions\s*>\s*void\s+on_signal\s*\(\s*int32_t\s+signal_number\s*\)\s*\{", sh)
    if not m:
        failures.append("detail::on_signal not found")
        return ".done", []
    body = body_after(sh, m.end() - 1)
    # a local reference to the singleton (`SignalHandlerContext& ctx = SignalHandlerContext::instance();`) is the
    # same object: spell its uses out again so that the statements below are recognised whichever way they are written
    al = re.search(r"(?:SignalHandlerContext|auto)\s*&\s*(\w+)\s*=\s*SignalHandlerContext::instance\(\)\s*;", body)
    if al:
        body = body[:al.start()] + body[al.end():]
        body = re.sub(r"\b%s\s*\.\s*" % re.escape(al.group(1)), "SignalHandlerContext::instance().", body)
    nodes = parse_block(body)
    decls = []
    prog = prog_of(nodes, failures, decls)
    for v, rx in VARS.items():
        if not any(re.match(rx, d) for d in decls):
            failures.append("on_signal: `%s` is no longer computed as expected" % v)
    return prog, flat_calls(nodes)


def order_ok(calls, patterns):
    """the regexes match distinct statements of `calls` in this order"""
    i = 0
    for rx in patterns:
        while i < len(calls) and not re.search(rx, calls[i]):
            i += 1
        if i == len(calls):
            return False
        i += 1
    return True


def extract(repo, failures):
    d = {}
    sh = select_posix(strip_cpp_comments(read(repo, "include/quill/backend/SignalHandler.h")))
    be = select_posix(strip_cpp_comments(read(repo, "include/quill/Backend.h")))
    bm = strip_cpp_comments(read(repo, "include/quill/backend/BackendManager.h"))
    bw = select_posix(strip_cpp_comments(read(repo, "include/quill/backend/BackendWorker.h")))
    mb = strip_cpp_comments(read(repo, "include/quill/backend/ManualBackendWorker.h"))
    bo = strip_cpp_comments(read(repo, "include/quill/backend/BackendOptions.h"))

    # --- SignalHandler.h ---------------------------------------------------------------------------
    prog, calls = extract_on_signal(sh, failures)
    d["onSignalProg"] = prog
    # does the handler's wait for its flush request end when the backend thread is gone? (current code: flush_log(0) waits for ever)
    fw = func_body(sh, r"void\s+flush_log_while_backend_alive\s*\(\s*LoggerImpl<TFrontendOptions>\s*\*\s*logger\s*\)\s*\{")
    uses_helper = any(re.match(r"^flush_log_while_backend_alive\(logger\)$", c_) for c_ in calls)
    plain = any(re.match(r"^logger->flush_log\(0\)$", c_) for c_ in calls)
    gives_up = bool(fw and len(re.findall(r"SignalHandlerContext::instance\(\)\.backend_thread_id\.load\(\)\s*==\s*0", fw)) >= 2)
    if uses_helper and (plain or not gives_up):
        failures.append("on_signal: flush_log_while_backend_alive is mixed with flush_log(0) or does not test backend_thread_id in both waits")
    d["flushEndsWhenBackendGone"] = bool(uses_helper and not plain and gives_up)
    m = re.search(r"std::vector<int>\s+catchable_signals\s*\{([^}]*)\}", sh)
    names = [x.strip() for x in m.group(1).split(",") if x.strip()] if m else []
    if not m:
        failures.append("SignalHandlerOptions::catchable_signals default not found")
    for nm in names:
        if nm not in SIG:
            failures.append("catchable_signals: unknown signal `%s`" % nm)
    d["catchable"] = [nm for nm in names if nm in SIG]
    m = re.search(r"uint32_t\s+timeout_seconds\s*=\s*(\d+)u?\s*;", sh)
    d["timeoutSeconds"] = int(m.group(1)) if m else 0
    if not m:
        failures.append("SignalHandlerOptions::timeout_seconds default not found")
    mac = re.search(r"#define QUILL_SIGNAL_HANDLER_LOG.*?while \(0\)", read(repo, "include/quill/backend/SignalHandler.h"), re.S)
    d["noticeMacroChecksLevelThenLogs"] = bool(mac and 0 <= mac.group(0).find("should_log_statement<log_level>()")
                                               < mac.group(0).find("logger->template log_statement<false, false>("))
    oa = func_body(sh, r"inline\s+void\s+on_alarm\s*\(\s*int32_t\s+signal_number\s*\)\s*\{")
    if oa is None:
        failures.append("detail::on_alarm not found")
        d["alarmRestoresThenRaisesStored"] = False
    else:
        c = flat_calls(parse_block(oa))
        d["alarmRestoresThenRaisesStored"] = order_ok(c, [
            r"^if \(SignalHandlerContext::instance\(\)\.signal_number\.load\(\) == 0\)$",
            r"^SignalHandlerContext::instance\(\)\.signal_number = signal_number$",
            r"^std::signal\(SignalHandlerContext::instance\(\)\.signal_number, SIG_DFL\)$",
            r"^std::raise\(SignalHandlerContext::instance\(\)\.signal_number\)$"]) and len(c) == 4
    ih = func_body(sh, r"void\s+init_signal_handler\s*\(\s*std::vector<int>\s+const&\s+catchable_signals\s*\)\s*\{")
    if ih is None:
        failures.append("detail::init_signal_handler not found")
        d["initInstallsHandlers"] = False
    else:
        c = flat_calls(parse_block(ih))
        d["initInstallsHandlers"] = order_ok(c, [
            r"^for auto const& catchable_signal : catchable_signals$",
            r"^if \(catchable_signal == SIGALRM\)$", r"^QUILL_THROW",
            r"^if \(std::signal\(catchable_signal, on_signal<TFrontendOptions>\) == SIG_ERR\)$",
            r"^if \(std::signal\(SIGALRM, on_alarm\) == SIG_ERR\)$"])

    # --- Backend.h ---------------------------------------------------------------------------------
    st_plain = func_body(be, r"static\s+void\s+start\s*\(\s*BackendOptions\s+const&\s+options[^)]*\)\s*\{")
    st_sh = func_body(be, r"static\s+void\s+start\s*\(\s*BackendOptions\s+const&\s+backend_options\s*,\s*SignalHandlerOptions\s+const&\s+signal_handler_options\s*\)\s*\{")
    stop = func_body(be, r"static\s+void\s+stop\s*\(\s*\)\s*noexcept\s*\{")
    once = r"std::call_once\s*\(\s*detail::BackendManager::instance\(\)\.get_start_once_flag\(\)\s*,"
    d["startUsesOnceFlag"] = bool(st_plain and st_sh and re.search(once, st_plain) and re.search(once, st_sh))

    def lam(body):
        """body of the lambda handed to call_once"""
        if not body:
            return None
        m2 = re.search(once + r"\s*\[[^\]]*\]\s*\(\s*\)\s*(?:mutable\s*)?\{", body)
        return body_after(body, m2.end() - 1) if m2 else None
    lp, ls = lam(st_plain), lam(st_sh)
    cp = flat_calls(parse_block(lp)) if lp else []
    cs = flat_calls(parse_block(ls)) if ls else []
    spawn = r"^detail::BackendManager::instance\(\)\.start_backend_thread\("
    atex = r"^std::atexit\("
    d["plainStartSpawnsThenRegistersAtexit"] = order_ok(cp, [spawn, atex]) and sum(1 for c in cp if re.search(atex, c)) == 1
    # the two local masks may have any name: the one filled and installed, and the one that receives the previous mask
    mset = next((re.match(r"^sigfillset\(&(\w+)\)$", c_) for c_ in cs if re.match(r"^sigfillset\(&(\w+)\)$", c_)), None)
    vset = mset.group(1) if mset else "set"
    mold = next((re.match(r"^sigprocmask\(SIG_SETMASK, &%s, &(\w+)\)$" % vset, c_) for c_ in cs
                 if re.match(r"^sigprocmask\(SIG_SETMASK, &%s, &(\w+)\)$" % vset, c_)), None)
    vold = mold.group(1) if mold else "oldset"
    d["shStartOrder"] = vset != vold and order_ok(cs, [
        r"^sigfillset\(&%s\)$" % vset, r"^sigprocmask\(SIG_SETMASK, &%s, &%s\)$" % (vset, vold),
        r"^detail::init_signal_handler<TFrontendOptions>\(signal_handler_options\.catchable_signals\)$",
        spawn,
        r"^detail::SignalHandlerContext::instance\(\)\.backend_thread_id\.store\( ?detail::BackendManager::instance\(\)\.get_backend_thread_id\(\)\)$",
        r"^sigprocmask\(SIG_SETMASK, &%s, nullptr\)$" % vold, atex]) and sum(1 for c in cs if re.search(atex, c)) == 1
    clear = r"detail::SignalHandlerContext::instance\(\)\.backend_thread_id\.store\(\s*0u?\s*\)"
    stopbt = r"detail::BackendManager::instance\(\)\.stop_backend_thread\(\)"
    sc = flat_calls(parse_block(stop)) if stop else []
    d["stopStopsBackendThread"] = order_ok(sc, ["^" + stopbt + "$"])
    # (whether the id is cleared at all; WHERE in the sequence is `stopSeq` below)
    d["stopClearsBackendId"] = order_ok(sc, ["^" + stopbt + "$"]) and order_ok(sc, ["^" + clear + "$"])

    def atexit_lambda(calls_):
        for c in calls_:
            if re.search(atex, c):
                return c
        return ""
    ap, as_ = atexit_lambda(cp), atexit_lambda(cs)
    d["atexitStopsBackendThread"] = bool(re.search(stopbt, ap) and re.search(stopbt, as_))
    d["atexitClearsBackendId"] = bool(re.search(stopbt, as_) and re.search(clear, as_))

    # --- BackendManager.h --------------------------------------------------------------------------
    sb = func_body(bm, r"void\s+stop_backend_thread\s*\(\s*\)\s*noexcept\s*\{")
    c = flat_calls(parse_block(sb)) if sb else []
    d["stopRenewsOnceFlag"] = order_ok(c, [r"^_backend_worker\.stop\(\)$", r"^auto\* new_flag = new std::once_flag\(\)$",
                                           r"_start_once_flag\.exchange\(new_flag\)$"])
    d["stopBackendThreadStopsWorker"] = order_ok(c, [r"^_backend_worker\.stop\(\)$"])
    g = func_body(bm, r"std::once_flag&\s+get_start_once_flag\s*\(\s*\)\s*noexcept\s*\{")
    d["onceFlagIsTheCurrentOne"] = bool(g and re.search(r"return\s+\*_start_once_flag\.load\(\)", g))
    sbt = func_body(bm, r"void\s+start_backend_thread\s*\(\s*BackendOptions\s+const&\s+options\s*\)\s*\{")
    d["startBackendThreadRuns"] = bool(sbt and re.search(r"_backend_worker\.run\(options\)", sbt))

    # --- BackendWorker.h ---------------------------------------------------------------------------
    run = func_body(bw, r"void\s+run\s*\(\s*BackendOptions\s+const&\s+options\s*\)\s*\{")
    if run is None:
        failures.append("BackendWorker::run not found")
        d["runPollsThenExits"] = False
        d["runWaitsForRunningFlag"] = False
    else:
        c = flat_calls(parse_block(run))
        d["runWaitsForRunningFlag"] = order_ok(c, [r"^std::thread worker\(", r"^_worker_thread\.swap\(worker\)$",
                                                  r"^while !_is_worker_running\.load\("])
        ml = re.search(r"std::thread\s+worker\s*\(\s*\[\s*this\s*,\s*options\s*\]\s*\(\s*\)\s*\{", run)
        tl = parse_block(body_after(run, ml.end() - 1)) if ml else []
        # top level of the thread function: …, running := true, the poll loop, `_exit()`, catch clauses — nothing after
        top = [nd for nd in tl if not (nd[0] == "if" and nd[1].startswith("catch "))]
        i_loop = next((i for i, nd in enumerate(top) if nd[0] == "loop" and nd[1].startswith("while QUILL_LIKELY(_is_worker_running.load(")), -1)
        d["runPollsThenExits"] = bool(
            ml and i_loop >= 2 and top[0] == ("stmt", "_init(options)") and top[i_loop - 1] == ("stmt", "_is_worker_running.store(true)")
            and order_ok(flat_calls(top[i_loop][2]), [r"^_poll\(\)$"])
            and top[i_loop + 1:] == [("stmt", "_exit()")])
    stw = func_body(bw, r"void\s+stop\s*\(\s*\)\s*noexcept\s*\{")
    c = flat_calls(parse_block(stw)) if stw else []
    d["workerStopShape"] = order_ok(c, [r"^if \(!_is_worker_running\.exchange\(false\)\)$", r"^return$", r"^notify\(\)$",
                                        r"^if \(_worker_thread\.joinable\(\)\)$", r"^_worker_thread\.join\(\)$",
                                        r"^_worker_thread_id\.store\(0\)$"])
    ex = func_body(bw, r"void\s+_exit\s*\(\s*\)\s*\{")
    if ex is None:
        failures.append("BackendWorker::_exit not found")
        for k in ("exitLoopShape", "exitFlushesSinksWhenEmpty", "exitHonoursWaitOption"):
            d[k] = False
    else:
        nodes = parse_block(ex)
        top = nodes[0] if nodes else ("stmt", "")
        ok_loop = top[0] == "loop" and top[1] == "while true"
        inner = top[2] if ok_loop else []
        # inside the loop: the emptiness test, `if (empty) { …; flush; break; }`, populate, `if (count > 0) { batch loop }`
        cond_stmt = inner[0][1] if inner and inner[0][0] == "stmt" else ""
        d["exitHonoursWaitOption"] = bool(re.match(
            r"^bool const queues_and_events_empty = \(!_options\.wait_for_queues_to_empty_before_exit\) \|\| "
            r"_check_frontend_queues_and_cached_transit_events_empty\(\)$", cond_stmt))
        leave = inner[1] if len(inner) > 1 and inner[1][0] == "if" else None
        leave_calls = flat_calls(leave[2]) if leave else []
        d["exitFlushesSinksWhenEmpty"] = bool(leave and leave[1] == "queues_and_events_empty" and not leave[3] and order_ok(
            leave_calls, [r"^_flush_and_run_active_sinks\(false, std::chrono::milliseconds\{0\}\)$", r"^break$"]))
        rest = inner[2:] if leave else []
        rest_calls = flat_calls(rest)
        breaks_elsewhere = any(re.match(r"^(break|return)\b", x) for x in rest_calls) or any(
            re.match(r"^(break|return)\b", x) for x in leave_calls[:-1])
        d["exitLoopShape"] = bool(ok_loop and not breaks_elsewhere and order_ok(rest_calls, [
            r"^uint64_t const cached_transit_events_count = _populate_transit_events_from_frontend_queues\(\)$",
            r"^if \(cached_transit_events_count > 0\)$",
            r"^while !has_pending_events_for_caching_when_transit_event_buffer_empty\(\) && _process_lowest_timestamp_transit_event\(\)$"]))
    ce = func_body(bw, r"bool\s+_check_frontend_queues_and_cached_transit_events_empty\s*\(\s*\)\s*\{")
    c = flat_calls(parse_block(ce)) if ce else []
    d["emptyCheckCoversQueuesAndBuffers"] = order_ok(c, [
        r"^_update_active_thread_contexts_cache\(\)$", r"^bool all_empty\{true\}$",
        r"^for ThreadContext\* thread_context : _active_thread_contexts_cache$",
        r"^all_empty &= thread_context->get_spsc_queue_union\(\)\.unbounded_spsc_queue\.empty\(\)$",
        r"^all_empty &= thread_context->get_spsc_queue_union\(\)\.bounded_spsc_queue\.empty\(\)$",
        r"^all_empty &= thread_context->_transit_event_buffer->empty\(\)$", r"^return all_empty$"])

    # --- ManualBackendWorker.h, BackendOptions.h ---------------------------------------------------
    d["manualDtorCallsExit"] = bool(re.search(r"~ManualBackendWorker\s*\(\s*\)\s*\{\s*_backend_worker->_exit\(\)\s*;\s*\}", mb))
    m = re.search(r"bool\s+wait_for_queues_to_empty_before_exit\s*=\s*(true|false)\s*;", bo)
    if not m:
        failures.append("BackendOptions::wait_for_queues_to_empty_before_exit default not found")
    d["waitForQueuesDefault"] = bool(m and m.group(1) == "true")

    # --- Backend::stop() / the atexit handler of the signal-handler overload as their sequence of atomic steps ------
    # (flattened through stop_backend_thread and BackendWorker::stop; statements that are none of the steps are skipped:
    # only the relative order of the steps matters to the model — Exit/Stop.lean)
    def steps_of(calls_, table):
        out = []
        for c_ in calls_:
            for rx, st in table:
                if re.search(rx, c_):
                    out += st
                    break
        return out
    worker_steps = steps_of(flat_calls(parse_block(stw)) if stw else [], [
        (r"_is_worker_running\.exchange\(false\)", [".exchangeRunning"]), (r"^notify\(\)$", [".notify"]),
        (r"^_worker_thread\.join\(\)$", [".join"]), (r"^_worker_thread_id\.store\(0u?\)$", [".clearWorkerTid"])])
    sbt_steps = steps_of(flat_calls(parse_block(sb)) if sb else [], [
        (r"^_backend_worker\.stop\(\)$", worker_steps), (r"_start_once_flag\.exchange\(", [".renewOnce"])])
    top_table = [("^" + stopbt + "$", sbt_steps), ("^" + clear + "$", [".clearCtxId"])]
    d["stopSeq"] = steps_of(sc, top_table)
    ml = re.search(r"std::atexit\(\s*\[\s*\]\s*\(\s*\)\s*\{", as_)
    at_body = body_after(as_, ml.end() - 1) if ml else None
    d["atexitSeq"] = steps_of(flat_calls(parse_block(at_body)) if at_body else [], top_table)
    if not d["stopSeq"]:
        failures.append("Backend::stop(): no step of the stop sequence recognised")
    if not d["atexitSeq"]:
        failures.append("atexit handler of start(BackendOptions, SignalHandlerOptions): no step of the stop sequence recognised")

    L = []
    L.append("/-- control-flow skeleton of `detail::on_signal` (non-Windows build), statement by statement -/")
    L.append("def onSignalProg : Exit.Prog :=\n  " + prog)
    L.append("/-- default `SignalHandlerOptions::catchable_signals` -/")
    L.append("def catchableDefault : List Exit.Sig := [%s]" % ", ".join(SIG[nm] for nm in d["catchable"]))
    L.append("def signalTimeoutSeconds : Nat := %d" % d["timeoutSeconds"])
    L.append("/-- life-cycle facts: `stop_backend_thread` renews the once-flag; `Backend::stop()` and the signal-handler")
    L.append("    overload's `atexit` handler reset the backend thread id cached for the signal handler -/")
    L.append("def lifeParams : Exit.LParams :=\n  { renewOnce := %s, stopClearsId := %s, atexitClearsId := %s }" % (
        lean_bool(d["stopRenewsOnceFlag"]), lean_bool(d["stopClearsBackendId"]), lean_bool(d["atexitClearsBackendId"])))
    L.append("/-- `Backend::stop()` flattened through `stop_backend_thread` and `BackendWorker::stop`: its atomic steps in source order -/")
    L.append("def stopSeq : List Exit.SStep := [%s]" % ", ".join(d["stopSeq"]))
    L.append("/-- the same for the `atexit` handler registered by `start(BackendOptions, SignalHandlerOptions)` -/")
    L.append("def atexitSeq : List Exit.SStep := [%s]" % ", ".join(d["atexitSeq"]))
    L.append("/-- structural facts (see tools/extractors/exit.py for the exact shapes) -/")
    for k in sorted(d):
        if isinstance(d[k], bool) and k not in ("stopRenewsOnceFlag", "stopClearsBackendId", "atexitClearsBackendId"):
            L.append("def %s : Bool := %s" % (k, lean_bool(d[k])))
    return d, "\n".join(L)


_FALSE = ["flushEndsWhenBackendGone", "alarmRestoresThenRaisesStored", "atexitStopsBackendThread", "emptyCheckCoversQueuesAndBuffers", "exitFlushesSinksWhenEmpty",
          "exitHonoursWaitOption", "exitLoopShape", "initInstallsHandlers", "manualDtorCallsExit", "noticeMacroChecksLevelThenLogs",
          "onceFlagIsTheCurrentOne", "plainStartSpawnsThenRegistersAtexit", "runPollsThenExits", "runWaitsForRunningFlag",
          "shStartOrder", "startBackendThreadRuns", "startUsesOnceFlag", "stopBackendThreadStopsWorker", "stopStopsBackendThread",
          "waitForQueuesDefault", "workerStopShape"]
FALLBACK = ({},
            "def onSignalProg : Exit.Prog := .done\ndef catchableDefault : List Exit.Sig := []\ndef signalTimeoutSeconds : Nat := 0\n"
            "def lifeParams : Exit.LParams := { renewOnce := false, stopClearsId := false, atexitClearsId := false }\n"
            "def stopSeq : List Exit.SStep := []\ndef atexitSeq : List Exit.SStep := []\n" +
            "\n".join("def %s : Bool := false" % k for k in _FALSE))
