"""Queue section of the extraction: memory orders and structural facts of the two SPSC queues."""
import re

from extract import read, strip_cpp_comments, func_body, order_of, MO, lean_bool

IMPORTS = ["QuillModel.Spsc.Model"]

def extract_queue(repo, out, failures):
    src = strip_cpp_comments(read(repo, "include/quill/core/BoundedSPSCQueue.h"))
    pw = func_body(src, r"std::byte\*\s+prepare_write\s*\([^)]*\)\s*(?:noexcept)?\s*\{")
    cw = func_body(src, r"void\s+commit_write\s*\(\s*\)\s*(?:noexcept)?\s*\{")
    cr = func_body(src, r"void\s+commit_read\s*\(\s*\)\s*(?:noexcept)?\s*\{")
    em = func_body(src, r"bool\s+empty\s*\(\s*\)\s*const\s*(?:noexcept)?\s*\{")
    q = {}
    q["rLoad"] = order_of(pw, "_atomic_reader_pos", "load", failures, "bounded.prepare_write")
    q["wStore"] = order_of(cw, "_atomic_writer_pos", "store", failures, "bounded.commit_write")
    q["rStore"] = order_of(cr, "_atomic_reader_pos", "store", failures, "bounded.commit_read")
    q["wLoad"] = order_of(em, "_atomic_writer_pos", "load", failures, "bounded.empty")
    # does commit_read also publish once the consumer has caught up with what it knows was written?
    drain = False
    if cr is not None:
        cond = re.search(r"if\s*\((.*?)\)\s*\{", cr, re.S)
        if cond and re.search(r"_reader_pos\s*==\s*_writer_pos_cache|_writer_pos_cache\s*==\s*_reader_pos", cond.group(1)) \
                and "||" in cond.group(1):
            drain = True
    q["drainPublish"] = drain
    m = re.search(r"reader_store_percent\s*=\s*(\d+)", src)
    if m:
        q["defaultPercent"] = int(m.group(1))
    else:
        failures.append("bounded: default reader_store_percent not found")
        q["defaultPercent"] = 5
    out["bounded"] = q

    usrc = strip_cpp_comments(read(repo, "include/quill/core/UnboundedSPSCQueue.h"))
    hf = func_body(usrc, r"std::byte\*\s+_handle_full_queue\s*\([^)]*\)\s*\{")
    sk = func_body(usrc, r"void\s+shrink\s*\([^)]*\)\s*\{")
    pr = func_body(usrc, r"ReadResult\s+prepare_read\s*\(\s*\)\s*\{")
    u = {}
    u["nextStoreGrow"] = order_of(hf, "next", "store", failures, "unbounded._handle_full_queue")
    u["nextStoreShrink"] = order_of(sk, "next", "store", failures, "unbounded.shrink")
    u["nextLoad"] = order_of(pr, "next", "load", failures, "unbounded.prepare_read")
    # structural facts the C02 model is parametric in
    u["commitBeforePublish"] = bool(hf and re.search(r"commit_write\s*\(\s*\)\s*;.*next\s*\.\s*store", hf, re.S))
    rn = func_body(usrc, r"ReadResult\s+_read_next_queue\s*\([^)]*\)\s*\{")
    u["rereadBeforeSwitch"] = bool(rn and re.search(r"prepare_read\s*\(\s*\).*delete\s+_consumer", rn, re.S))
    u["commitReadBeforeDelete"] = bool(rn and re.search(r"commit_read\s*\(\s*\)\s*;.*delete\s+_consumer", rn, re.S))
    u["throwsOverMax"] = bool(hf and re.search(r"nbytes\s*>\s*_max_capacity", hf) and "QUILL_THROW" in hf)
    u["nullOverMax"] = bool(hf and re.search(r"capacity\s*>\s*_max_capacity", hf) and re.search(r"return\s+nullptr", hf))
    out["unbounded"] = u




def extract(repo, failures):
    out = {}
    extract_queue(repo, out, failures)
    b, u = out["bounded"], out["unbounded"]
    L = []
    L.append("/-- memory orders of the four cross-thread accesses of `BoundedSPSCQueueImpl` and the drain rule of `commit_read` -/")
    L.append("def boundedParams : Spsc.Params :=")
    L.append("  { wStore := %s, wLoad := %s, rStore := %s, rLoad := %s, drainPublish := %s }" % (
        MO[b["wStore"]], MO[b["wLoad"]], MO[b["rStore"]], MO[b["rLoad"]], lean_bool(b["drainPublish"])))
    L.append("def boundedDefaultPercent : Nat := %d" % b["defaultPercent"])
    L.append("/-- `UnboundedSPSCQueue`: order of the `next` publication / observation and the structural steps -/")
    L.append("def nextStoreGrow : Spsc.MO := %s" % MO[u["nextStoreGrow"]])
    L.append("def nextStoreShrink : Spsc.MO := %s" % MO[u["nextStoreShrink"]])
    L.append("def nextLoad : Spsc.MO := %s" % MO[u["nextLoad"]])
    for k in ("commitBeforePublish", "rereadBeforeSwitch", "commitReadBeforeDelete", "throwsOverMax", "nullOverMax"):
        L.append("def %s : Bool := %s" % (k, lean_bool(u[k])))
    return out, "\n".join(L)


FALLBACK = ({"bounded": {"wStore": "seq_cst", "wLoad": "seq_cst", "rStore": "seq_cst", "rLoad": "seq_cst",
                         "drainPublish": False, "defaultPercent": 5},
             "unbounded": {}}, "")
