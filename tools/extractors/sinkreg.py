"""SinkManager section of the extraction (C17, by-name sink registry): which bound `_find_sink` and `_insert_sink`
search for and with which comparator, the name test + `weak_ptr::lock()` of `_find_sink`, the create-only-when-null
shape of `create_or_get_sink`, the throw of `get_sink`, and the erase-iff-expired loop of `cleanup_unused_sinks`."""
import re

from extract import read, strip_cpp_comments, func_body, lean_bool

IMPORTS = ["QuillModel.SinkReg.Model"]


def bound_call(body, failures, what):
    """(bound, comparator_ok) of the single std::lower_bound / std::upper_bound call over _sinks in `body`.
    comparator_ok: ascending order by sink_id with the argument order that bound requires
      lower_bound: [](SinkInfo const& elem, std::string const& b) { return elem.sink_id < b; }
      upper_bound: [](std::string const& b, SinkInfo const& elem) { return b < elem.sink_id; }"""
    if body is None:
        failures.append(what + ": function not found")
        return "lower", False
    calls = re.findall(r"std::(lower_bound|upper_bound)\s*\(\s*_sinks\.begin\s*\(\s*\)\s*,\s*_sinks\.end\s*\(\s*\)\s*,\s*(\w+)\s*,\s*"
                       r"\[\s*\]\s*\(([^)]*)\)\s*\{\s*return\s+([^;]*);\s*\}\s*\)", body)
    if len(calls) != 1:
        failures.append(what + ": expected exactly one std::lower_bound/upper_bound over _sinks with a lambda comparator, found %d" % len(calls))
        return "lower", False
    which, key, params, ret = calls[0]
    ps = [p.strip() for p in params.split(",")]
    if len(ps) != 2:
        failures.append(what + ": comparator does not take two parameters")
        return which.split("_")[0], False
    names = [re.sub(r".*[\s&*]", "", p) for p in ps]
    is_info = ["SinkInfo" in p for p in ps]
    ret = re.sub(r"\s+", "", ret)
    if which == "lower_bound":
        ok = is_info == [True, False] and ret == "%s.sink_id<%s" % (names[0], names[1])
    else:
        ok = is_info == [False, True] and ret == "%s<%s.sink_id" % (names[0], names[1])
    return which.split("_")[0], ok


def block_after(body, open_idx):
    """(text inside the braces opening at body[open_idx], index after the closing brace)"""
    depth, j = 0, open_idx
    while j < len(body):
        if body[j] == "{":
            depth += 1
        elif body[j] == "}":
            depth -= 1
            if depth == 0:
                return body[open_idx + 1:j], j + 1
        j += 1
    return None, len(body)


def find_shape_ok(fnd):
    """_find_sink, in either shape
         A: std::shared_ptr<Sink> r; auto it = <bound>; if (it != end && it->sink_id == target) { r = it->sink_ptr.lock(); } return r;
         B: auto it = <bound>; if (it != end && it->sink_id == target) { return it->sink_ptr.lock(); } return nullptr;
       what matters: the end test and the name equality test guard the lock() (evaluated before it), there is exactly one lock()
       in the function, on the entry the bound points at, its result is what is returned on that path, and null otherwise."""
    if not fnd:
        return False
    fnd = re.sub(r"\[\s*\]\s*\([^)]*\)\s*\{[^{}]*\}", "<cmp>", fnd)   # the comparator lambda (checked by bound_call)
    mi = re.search(r"auto\s+(\w+)\s*=\s*std::(?:lower|upper)_bound\s*\(", fnd)
    if not mi:
        return False
    it = mi.group(1)
    if len(re.findall(r"\block\s*\(", fnd)) != 1 or len(re.findall(r"\bif\s*\(", fnd)) != 1:
        return False
    end = r"(?:std::end\s*\(\s*_sinks\s*\)|_sinks\.end\s*\(\s*\))"
    eq = r"(?:%s->sink_id\s*==\s*\w+|\w+\s*==\s*%s->sink_id)" % (it, it)
    mc = re.search(r"\bif\s*\(\s*(?:%s\s*!=\s*%s|%s\s*!=\s*%s)\s*&&\s*%s\s*\)\s*\{" % (it, end, end, it, eq), fnd)
    if not mc or mc.start() < mi.start():
        return False
    then, after_idx = block_after(fnd, mc.end() - 1)
    if then is None:
        return False
    before, after = fnd[:mc.start()], fnd[after_idx:]
    if re.match(r"\s*else\b", after):
        return False
    lock = r"%s->sink_ptr\.lock\s*\(\s*\)" % it
    null = r"(?:nullptr|\{\s*\}|std::shared_ptr\s*<\s*Sink\s*>\s*(?:\{\s*\}|\(\s*\)))"
    # shape B
    if re.fullmatch(r"\s*return\s+%s\s*;\s*" % lock, then):
        return bool(re.fullmatch(r"\s*return\s+%s\s*;\s*" % null, after)) and "return" not in before
    # shape A
    ma = re.fullmatch(r"\s*(\w+)\s*=\s*%s\s*;\s*" % lock, then)
    if ma:
        r_ = ma.group(1)
        decl = re.search(r"std::shared_ptr\s*<\s*Sink\s*>\s+%s\s*(?:\{\s*\}|=\s*nullptr|\{\s*nullptr\s*\})?\s*;" % r_, before)
        assigns = re.findall(r"\b%s\s*=[^=]" % r_, fnd)
        return bool(decl) and len(assigns) == 1 and "return" not in before and bool(re.fullmatch(r"\s*return\s+%s\s*;\s*" % r_, after))
    return False


def extract(repo, failures):
    src = strip_cpp_comments(read(repo, "include/quill/core/SinkManager.h"))
    fnd = func_body(src, r"_find_sink\s*\(\s*std::string\s+const&\s*(\w+)\s*\)\s*const\s*(?:noexcept)?\s*\{")
    ins = func_body(src, r"void\s+_insert_sink\s*\([^)]*\)\s*\{")
    cog = func_body(src, r"create_or_get_sink\s*\([^)]*\)\s*\{")
    get = func_body(src, r"get_sink\s*\(\s*std::string\s+const&\s*\w+\s*\)\s*const\s*\{")
    cln = func_body(src, r"cleanup_unused_sinks\s*\(\s*\)\s*\{")
    d = {}
    d["findAt"], d["findCmpOK"] = bound_call(fnd, failures, "_find_sink")
    d["insertAt"], d["insertCmpOK"] = bound_call(ins, failures, "_insert_sink")
    d["findTestsNameThenLocks"] = find_shape_ok(fnd)
    # _insert_sink: `_sinks.insert(search_it, SinkInfo{sink_name, sink});`
    d["insertsAtBound"] = bool(ins and re.search(r"_sinks\.insert\s*\(\s*search_it\s*,\s*SinkInfo\s*\{\s*sink_name\s*,\s*sink\s*\}\s*\)\s*;", ins))
    # create_or_get_sink: find; `if (!sink) { … make_shared … _insert_sink(sink_name, sink); } return sink;`, under the lock
    ok = False
    if cog:
        m = re.search(r"std::shared_ptr<Sink>\s+sink\s*=\s*_find_sink\s*\(\s*sink_name\s*\)\s*;\s*if\s*\(\s*!\s*sink\s*\)\s*\{", cog)
        if m:
            depth, j = 0, m.end() - 1
            while j < len(cog):
                if cog[j] == "{":
                    depth += 1
                elif cog[j] == "}":
                    depth -= 1
                    if depth == 0:
                        break
                j += 1
            inner, after = cog[m.end():j], cog[j + 1:]
            ok = (len(re.findall(r"std::make_shared\s*<\s*TSink\s*>", inner)) >= 1
                  and bool(re.search(r"_insert_sink\s*\(\s*sink_name\s*,\s*sink\s*\)\s*;\s*$", inner.strip()))
                  and "_insert_sink" not in after and "make_shared" not in after and "make_shared" not in cog[:m.start()]
                  and bool(re.match(r"\s*return\s+sink\s*;\s*$", after)))
    d["createOnlyWhenNotFound"] = ok
    d["getThrowsWhenNull"] = bool(get and re.search(
        r"sink\s*=\s*_find_sink\s*\(\s*sink_name\s*\)\s*;\s*if\s*\(\s*(?:QUILL_UNLIKELY\s*\(\s*)?!\s*sink\s*\)?\s*\)\s*\{?\s*QUILL_THROW\s*\(\s*QuillError", get)
        and re.search(r"return\s+sink\s*;", get))
    d["cleanupErasesIffExpired"] = bool(cln and re.search(
        r"for\s*\(\s*auto\s+it\s*=\s*_sinks\.begin\s*\(\s*\)\s*;\s*it\s*!=\s*_sinks\.end\s*\(\s*\)\s*;\s*\)\s*\{\s*"
        r"if\s*\(\s*it->sink_ptr\.expired\s*\(\s*\)\s*\)\s*\{\s*it\s*=\s*_sinks\.erase\s*\(\s*it\s*\)\s*;\s*\+\+\s*cnt\s*;\s*\}\s*"
        r"else\s*\{\s*\+\+\s*it\s*;\s*\}\s*\}\s*return\s+cnt\s*;", cln))
    locked = all(b is not None and re.search(r"LockGuard\s+const\s+lock\s*\{\s*_spinlock\s*\}\s*;", b) for b in (cog, get, cln))
    d["publicOpsLocked"] = bool(locked)
    d["weakEntries"] = bool(re.search(r"std::weak_ptr\s*<\s*Sink\s*>\s+sink_ptr\s*;", src)) and bool(re.search(r"std::vector\s*<\s*SinkInfo\s*>\s+_sinks\s*;", src))
    for k in ("findCmpOK", "insertCmpOK", "findTestsNameThenLocks", "insertsAtBound", "createOnlyWhenNotFound", "getThrowsWhenNull",
              "cleanupErasesIffExpired", "publicOpsLocked", "weakEntries"):
        if not d[k]:
            failures.append("SinkManager: structural fact %s no longer recognised" % k)
    L = ["/-- which bound `_find_sink` / `_insert_sink` search for in the sorted `_sinks` vector -/",
         "def sinkRegParams : SinkReg.Params := { findAt := .%s, insertAt := .%s }" % (d["findAt"], d["insertAt"]),
         "/-- the comparators order by `sink_id` ascending, in the argument order their bound function requires -/",
         "def sinkRegComparatorsAscending : Bool := %s" % lean_bool(d["findCmpOK"] and d["insertCmpOK"]),
         "/-- `_find_sink` tests `!= end && sink_id == target` and returns `sink_ptr.lock()`; `_insert_sink` inserts at the bound;",
         "    `create_or_get_sink` constructs and inserts only when `_find_sink` returned null; `get_sink` throws QuillError on null;",
         "    `cleanup_unused_sinks` erases exactly the entries with `sink_ptr.expired()` and returns their number; all under the lock -/",
         "def sinkRegStructure : List (String × Bool) := [%s]" % ", ".join(
             '("%s", %s)' % (k, lean_bool(d[k])) for k in ("findTestsNameThenLocks", "insertsAtBound", "createOnlyWhenNotFound",
                                                            "getThrowsWhenNull", "cleanupErasesIffExpired", "publicOpsLocked", "weakEntries"))]
    return d, "\n".join(L)


FALLBACK = ({"findAt": "lower", "insertAt": "lower"},
            "def sinkRegParams : SinkReg.Params := { findAt := .upper, insertAt := .upper }\n"
            "def sinkRegComparatorsAscending : Bool := false\n"
            "def sinkRegStructure : List (String × Bool) := []")
