"""Filter section of the extraction: the structure of Sink::add_filter / Sink::apply_all_filters (sinks/Sink.h) that
lean/QuillModel/Filt/Model.lean is written after, the memory orders of `_new_filter` / `_log_level`, and the orders of the
lock they use (core/Spinlock.h). Facts, not text: where the LockGuard is taken relative to the push / the copy, where
`_local_filters.clear()` and the two stores of `_new_filter` sit relative to the critical section, whether the lock is
ever taken other than through a LockGuard (try_lock)."""
import re

from extract import read, strip_cpp_comments, func_body, body_after, order_of, MO, lean_bool

from extractors.spin import lock_orders

IMPORTS = ["QuillModel.Filt.Model"]

GUARD = r"LockGuard\s+(?:const\s+)?\w+\s*[{(]\s*_global_filters_lock\s*[})]\s*;"


def top_level(body):
    """`body` with every nested {...} block blanked out (same length, so positions are comparable); the brace-initialiser
    of the guard is kept"""
    body = re.sub(r"\{(\s*_global_filters_lock\s*)\}", lambda m: "(" + m.group(1) + ")", body)
    out, depth = [], 0
    for c in body:
        if c == "{":
            depth += 1
            out.append(" ")
        elif c == "}":
            depth -= 1
            out.append(" ")
        else:
            out.append(c if depth == 0 or c == "\n" else " ")
    return "".join(out)


def pos(pattern, text):
    m = re.search(pattern, text)
    return m.start() if m else None


def extract(repo, failures):
    src = strip_cpp_comments(read(repo, "include/quill/sinks/Sink.h"))
    lo, _, _ = lock_orders(repo, failures, "filt: spinlock")
    d = {"xchg": lo["xchg"], "unl": lo["unl"]}

    ab = func_body(src, r"void\s+add_filter\s*\([^)]*\)\s*\{")
    fb = func_body(src, r"bool\s+apply_all_filters\s*\([^{;]*\)\s*\{")
    sb = func_body(src, r"void\s+set_log_level_filter\s*\([^)]*\)\s*\{")
    if ab is None:
        failures.append("filt: Sink::add_filter not found")
        ab = ""
    if fb is None:
        failures.append("filt: Sink::apply_all_filters not found")
        fb = ""
    if sb is None:
        failures.append("filt: Sink::set_log_level_filter not found")
        sb = ""

    # ---- add_filter: guard, then (duplicate check and) push, then the flag, all in the guard's scope
    at = top_level(ab)
    g = re.search(GUARD, at)
    push = pos(r"_global_filters\s*\.\s*(?:push_back|emplace_back)\s*\(", at)
    fset = pos(r"_new_filter\s*\.\s*store\s*\(\s*true\b", at)
    touched_before = bool(g) and re.search(r"_global_filters\b(?!_lock)|_new_filter", ab[:g.start()]) is not None
    d["addGuardBeforePush"] = bool(g) and push is not None and g.end() <= push and not touched_before
    d["addFlagAfterPushUnderGuard"] = bool(g) and push is not None and fset is not None and push < fset

    # ---- apply_all_filters: level load, flag load, the update block, the evaluation
    lvl_load = pos(r"_log_level\s*\.\s*load\s*\(", fb)
    m = re.search(r"if\s*\(\s*(?:QUILL_(?:UN)?LIKELY\s*\(\s*)?_new_filter\s*\.\s*load\s*\(", fb)
    blk, blk_end = "", None
    if m:
        try:
            blk = body_after(fb, m.end())
            blk_end = fb.index("{", m.end()) + len(blk) + 1
        except ValueError:
            failures.append("filt: the `if (_new_filter.load(...))` block of apply_all_filters is not brace-delimited")
    else:
        failures.append("filt: apply_all_filters has no `if (_new_filter.load(...))`")
    bt = top_level(blk)
    g2 = re.search(GUARD, bt)
    clear = pos(r"_local_filters\s*\.\s*clear\s*\(\s*\)", bt)
    loop = pos(r"for\s*\([^)]*:\s*_global_filters\s*\)", bt)
    reset = pos(r"_new_filter\s*\.\s*store\s*\(\s*false\b", bt)
    evalp = None
    if blk_end is not None:
        e = re.search(r"_local_filters\s*\.\s*(?:empty|begin)\s*\(", fb[blk_end:])
        evalp = blk_end + e.start() if e else None
    d["clearBeforeLock"] = clear is not None and bool(g2) and clear < g2.start()
    d["copyUnderGuard"] = bool(g2) and loop is not None and g2.end() <= loop
    d["resetUnderGuard"] = bool(g2) and reset is not None and g2.end() <= reset
    d["resetBeforeCopy"] = reset is not None and loop is not None and reset < loop
    d["levelThenFlagThenEval"] = (lvl_load is not None and m is not None and lvl_load < m.start() and evalp is not None
                                  and len(re.findall(r"_local_filters\s*\.\s*clear\s*\(", fb)) == 1
                                  and len(re.findall(r"_local_filters\s*\.\s*(?:push_back|emplace_back)\s*\(", fb)) == 1)
    # the lock is only ever taken through a LockGuard; nobody else writes the flag
    uses = len(re.findall(r"_global_filters_lock\b", src))
    guards = len(re.findall(GUARD, src))
    decl = len(re.findall(r"Spinlock\s+_global_filters_lock\s*;", src))
    d["lockOnlyViaGuard"] = uses == guards + decl and decl == 1 and guards == 2
    d["tryLock"] = re.search(r"\btry_lock\b", src) is not None
    d["flagWrites"] = len(re.findall(r"_new_filter\s*\.\s*(?:store|exchange|compare_exchange\w*)\s*\(|_new_filter\s*=[^=]", src))
    # ---- orders of the two relaxed atomics (informational for the model, cross-checked against the run-time orders)
    d["flagSet"] = order_of(ab, "_new_filter", "store", failures, "filt: add_filter")
    d["flagLoad"] = order_of(fb, "_new_filter", "load", failures, "filt: apply_all_filters")
    d["flagReset"] = order_of(fb, "_new_filter", "store", failures, "filt: apply_all_filters")
    d["lvlStore"] = order_of(sb, "_log_level", "store", failures, "filt: set_log_level_filter")
    d["lvlLoad"] = order_of(fb, "_log_level", "load", failures, "filt: apply_all_filters")

    L = ["def filtParams : Filt.Params := { lock := { xchg := %s, unl := %s }, resetBeforeCopy := %s, tryLock := %s }" % (
        MO[d["xchg"]], MO[d["unl"]], lean_bool(d["resetBeforeCopy"]), lean_bool(d["tryLock"]))]
    for k in ("addGuardBeforePush", "addFlagAfterPushUnderGuard", "clearBeforeLock", "copyUnderGuard", "resetUnderGuard",
              "levelThenFlagThenEval", "lockOnlyViaGuard"):
        L.append("def filt%s : Bool := %s" % (k[0].upper() + k[1:], lean_bool(d[k])))
    L.append("def filtFlagWrites : Nat := %d" % d["flagWrites"])
    L.append("def filtRelaxedOrders : List (String × Spsc.MO) := [%s]" % ", ".join(
        '("%s", %s)' % (k, MO[d[k]]) for k in ("flagSet", "flagReset", "flagLoad", "lvlStore", "lvlLoad")))
    return d, "\n".join(L)


FALLBACK = ({"xchg": "seq_cst", "unl": "seq_cst", "resetBeforeCopy": False, "tryLock": True},
            "def filtParams : Filt.Params := { lock := { xchg := .seqcst, unl := .seqcst }, resetBeforeCopy := false, tryLock := true }\n"
            + "\n".join("def filt%s : Bool := false" % k for k in (
                "AddGuardBeforePush", "AddFlagAfterPushUnderGuard", "ClearBeforeLock", "CopyUnderGuard", "ResetUnderGuard",
                "LevelThenFlagThenEval", "LockOnlyViaGuard"))
            + "\ndef filtFlagWrites : Nat := 0\ndef filtRelaxedOrders : List (String × Spsc.MO) := []")
