"""NamedArgs section of the extraction (property C19): the magic separator, the literal pieces and slot order of the
JSON line, the characters the two brace scanners test, and a few structural facts of their loops."""
import re

from extract import read, strip_cpp_comments, func_body, lean_bool

IMPORTS = ["QuillModel.NamedArgs.Model"]

def func_body_lit(src, pattern):
    """like extract.func_body, but braces inside string / char / raw-string literals do not count"""
    m = re.search(pattern, src)
    if not m:
        return None
    i = src.find("{", m.end() - 1)
    if i < 0:
        return None
    depth, j, n = 0, i, len(src)
    while j < n:
        c = src[j]
        if c == "R" and src.startswith('R"', j):
            k = src.index("(", j)
            delim = ")" + src[j + 2:k] + '"'
            j = src.index(delim, k) + len(delim)
            continue
        if c == '"' or c == "'":
            q = c
            j += 1
            while j < n and src[j] != q:
                if src[j] == "\\":
                    j += 1
                j += 1
            j += 1
            continue
        if c == "{":
            depth += 1
        elif c == "}":
            depth -= 1
            if depth == 0:
                return src[i + 1:j]
        j += 1
    return None


SIMPLE_ESC = {"n": 10, "t": 9, "r": 13, "0": 0, "\\": 92, "'": 39, '"': 34, "a": 7, "b": 8, "f": 12, "v": 11}


def c_unescape(body):
    """bytes of a C string/char literal body (between the quotes)"""
    out, i = [], 0
    while i < len(body):
        ch = body[i]
        if ch != "\\":
            out += list(ch.encode("utf-8"))
            i += 1
            continue
        i += 1
        e = body[i]
        if e == "x":
            j = i + 1
            while j < len(body) and body[j] in "0123456789abcdefABCDEF":
                j += 1
            out.append(int(body[i + 1:j], 16) & 0xFF)
            i = j
        elif e in "01234567":
            j = i
            while j < len(body) and j < i + 3 and body[j] in "01234567":
                j += 1
            out.append(int(body[i:j], 8) & 0xFF)
            i = j
        elif e in SIMPLE_ESC:
            out.append(SIMPLE_ESC[e])
            i += 1
        else:
            raise ValueError("unknown escape \\" + e)
    return out


def lean_chars(bs):
    def one(b):
        if 32 <= b < 127 and chr(b) not in "'\\":
            return "'%s'" % chr(b)
        return "Char.ofNat %d" % b
    return "[" + ", ".join(one(b) for b in bs) + "]"


def lean_char(b):
    return lean_chars([b])[1:-1]


SLOT = [
    (r"^std::to_string\s*\(\s*log_timestamp\s*\)$", "timestamp"),
    (r"^log_metadata->file_name\s*\(\s*\)$", "fileName"),
    (r"^log_metadata->line\s*\(\s*\)$", "line"),
    (r"^thread_id$", "threadId"),
    (r"^logger_name$", "logger"),
    (r"^log_level_description$", "logLevel"),
    (r"^message_format$", "messageFormat"),
]


def split_args(s):
    out, depth, cur = [], 0, ""
    for ch in s:
        if ch in "([{":
            depth += 1
        elif ch in ")]}":
            depth -= 1
        if ch == "," and depth == 0:
            out.append(cur.strip())
            cur = ""
        else:
            cur += ch
    if cur.strip():
        out.append(cur.strip())
    return out


def extract(repo, failures):
    d = {}
    # ---- separator -------------------------------------------------------------------------------------
    common = read(repo, "include/quill/core/Common.h")
    m = re.search(r'#\s*define\s+QUILL_MAGIC_SEPARATOR\s+"((?:[^"\\]|\\.)*)"', common)
    if m:
        try:
            d["separator"] = c_unescape(m.group(1))
        except Exception as ex:
            failures.append("QUILL_MAGIC_SEPARATOR literal not understood: %r" % ex)
            d["separator"] = [1, 2, 3]
    else:
        failures.append("QUILL_MAGIC_SEPARATOR definition not found in core/Common.h")
        d["separator"] = [1, 2, 3]
    bw_raw = read(repo, "include/quill/backend/BackendWorker.h")
    bw = strip_cpp_comments(bw_raw)
    fs = func_body_lit(bw, r"static\s+void\s+_format_and_split_arguments\s*\([^)]*\)\s*\{")
    if fs is None:
        failures.append("_format_and_split_arguments not found")
        fs = ""
    if not re.search(r"delimiter\s*\{\s*QUILL_MAGIC_SEPARATOR\s*\}", fs):
        failures.append("_format_and_split_arguments: delimiter is not QUILL_MAGIC_SEPARATOR")
    d["splitUsesFindDelimiter"] = bool(re.search(r"\.find\s*\(\s*delimiter\s*,\s*start\s*\)", fs))
    d["splitAdvancesByDelimiterLength"] = bool(re.search(r"start\s*=\s*end\s*\+\s*delimiter\.length\s*\(\s*\)", fs))
    d["splitLastValue"] = bool(re.search(r"substr\s*\(\s*start\s*\)", fs))
    d["joinSkipsLastDelimiter"] = bool(re.search(r"i\s*<\s*named_args\.size\s*\(\s*\)\s*-\s*1", fs))
    for k in ("splitUsesFindDelimiter", "splitAdvancesByDelimiterLength", "splitLastValue", "joinSkipsLastDelimiter"):
        if not d[k]:
            failures.append("_format_and_split_arguments: structural fact %s no longer recognised" % k)

    # ---- the process scanner ---------------------------------------------------------------------------
    pr = func_body_lit(bw, r"_process_named_args_format_message\s*\(\s*std::string_view\s+fmt_template\s*\)\s*(?:noexcept)?\s*\{")
    if pr is None:
        failures.append("_process_named_args_format_message not found")
        pr = ""
    d["processFindChars"] = [c_unescape(x)[0] for x in re.findall(r"find_first_of\s*\(\s*'((?:[^'\\]|\\.)+)'", pr)]
    mcol = re.search(r"text_inside_placeholders\.find\s*\(\s*'((?:[^'\\]|\\.)+)'\s*\)", pr)
    if mcol:
        d["processColon"] = c_unescape(mcol.group(1))[0]
    else:
        failures.append("_process_named_args_format_message: the ':' split was not found")
        d["processColon"] = 58
    d["processAdjacentTests"] = len(re.findall(r"\(\s*\w+_2_pos\s*-\s*1\s*\)\s*==\s*\w+_pos", pr))
    mfmt = re.search(r'fmtquill::format\s*\(\s*"((?:[^"\\]|\\.)*)"\s*,\s*fmt_template\.substr\s*\(\s*cur_pos\s*,\s*open_bracket_pos\s*-\s*cur_pos\s*\)\s*,\s*arg_syntax\s*\)', pr)
    d["processEmitFormat"] = c_unescape(mfmt.group(1)) if mfmt else []
    if not mfmt:
        failures.append("_process_named_args_format_message: the fmt_str += format(\"{}{{{}}}\", text, arg_syntax) step was not found")
    d["processKeyIsNameSyntax"] = bool(re.search(r"keys\.emplace_back\s*\(\s*arg_name\s*,\s*arg_syntax\s*\)", pr))
    if not d["processKeyIsNameSyntax"]:
        failures.append("_process_named_args_format_message: keys.emplace_back(arg_name, arg_syntax) not found")
    d["processReopensAtClose"] = bool(re.search(r"open_bracket_pos\s*=\s*fmt_template\.find_first_of\s*\(\s*'\{'\s*,\s*close_bracket_pos\s*\)", pr))

    # ---- cache -----------------------------------------------------------------------------------------
    d["cacheKeyIsOriginalTemplate"] = bool(
        re.search(r"_named_args_format_template\.assign\s*\(\s*transit_event->macro_metadata->message_format\s*\(\s*\)\s*\)", bw)
        and re.search(r"_named_args_templates\.find\s*\(\s*_named_args_format_template\s*\)", bw)
        and re.search(r"_named_args_templates\.try_emplace\s*\(\s*_named_args_format_template\s*,\s*_process_named_args_format_message\s*\(\s*transit_event->macro_metadata->message_format\s*\(\s*\)\s*\)\s*\)", bw))
    if not d["cacheKeyIsOriginalTemplate"]:
        failures.append("_named_args_templates: find/try_emplace keyed by the original message_format not recognised")

    # ---- the detection scanner -------------------------------------------------------------------------
    mm = strip_cpp_comments(read(repo, "include/quill/core/MacroMetadata.h"))
    dt = func_body_lit(mm, r"_contains_named_args\s*\(\s*std::string_view\s+fmt\s*\)\s*(?:noexcept)?\s*\{")
    if dt is None:
        failures.append("_contains_named_args not found")
        dt = ""
    d["detectEqChars"] = [c_unescape(x)[0] for x in re.findall(r"==\s*'((?:[^'\\]|\\.)+)'", dt)]
    d["detectAlphaRanges"] = [[c_unescape(a)[0], c_unescape(b)[0]] for a, b in
                              re.findall(r"fc\s*>=\s*'((?:[^'\\]|\\.)+)'\s*&&\s*fc\s*<=\s*'((?:[^'\\]|\\.)+)'", dt)]
    d["detectNeedsCount"] = bool(re.search(r"char_cnt\s*!=\s*0", dt))
    # the `++pos;` that closes the body of the outer loop (executed after a placeholder as well)
    d["detectTrailingInc"] = bool(re.search(r"found_named_arg\s*=\s*true\s*;\s*\}\s*\}\s*\+\+pos\s*;\s*\}\s*return\s+found_named_arg", dt))

    # ---- JSON sink -------------------------------------------------------------------------------------
    js = strip_cpp_comments(read(repo, "include/quill/sinks/JsonSink.h"))
    gj = func_body_lit(js, r"void\s+generate_json_message\s*\([^{;]*\)\s*\{")
    layout = []
    if gj is None:
        failures.append("generate_json_message not found")
        gj = ""
    mlit = re.search(r'fmtquill::format\s*\(\s*R"\((.*?)\)"\s*,(.*?)\)\s*\)\s*;', gj, re.S)
    if not mlit:
        failures.append("generate_json_message: the header format call was not found")
    else:
        lit = mlit.group(1)
        args = split_args(mlit.group(2))
        mem = re.fullmatch(r'\{\{((?:"[^"{}]*":"\{\}")(?:,"[^"{}]*":"\{\}")*)', lit)
        if not mem:
            failures.append("generate_json_message: header literal is not `{{` + `\"key\":\"{}\"` members joined by commas: " + lit)
        else:
            keys = re.findall(r'"([^"{}]*)":"\{\}"', mem.group(1))
            if len(keys) != len(args):
                failures.append("generate_json_message: %d keys but %d arguments" % (len(keys), len(args)))
            for k, a in zip(keys, args):
                slot = None
                for pat, nm in SLOT:
                    if re.match(pat, a):
                        slot = nm
                if slot is None:
                    failures.append("generate_json_message: argument `%s` of key `%s` is not a known slot" % (a, k))
                    slot = "timestamp"
                layout.append([k, slot])
    d["jsonLayout"] = layout
    app = re.findall(r'_json_message\.append\s*\(\s*std::string_view\s*\{\s*"((?:[^"\\]|\\.)*)"\s*\}\s*\)|_json_message\.append\s*\(\s*(key|value)\s*\)', gj)
    seq = []
    for lit, var in app:
        seq.append(var if var else c_unescape(lit))
    d["jsonArgSeq"] = seq
    if not (len(seq) == 5 and seq[1] == "key" and seq[3] == "value" and all(isinstance(seq[i], list) for i in (0, 2, 4))):
        failures.append("generate_json_message: the per-pair append sequence literal,key,literal,value,literal was not recognised: %r" % (seq,))
        seq = [[44, 34], "key", [34, 58, 34], "value", [34]]
    d["jsonArgOpen"], d["jsonArgMid"], d["jsonArgClose"] = seq[0], seq[2], seq[4]
    d["jsonArgsGuardedByPointer"] = bool(re.search(r"if\s*\(\s*named_args\s*\)", gj))
    wl = func_body_lit(js, r"void\s+write_log\s*\([^{;]*\)\s*(?:override)?\s*\{")
    if wl is None:
        failures.append("JsonSink::write_log not found")
        wl = ""
    mt = re.search(r'_json_message\.append\s*\(\s*std::string_view\s*\{\s*"((?:[^"\\]|\\.)*)"\s*\}\s*\)', wl)
    d["jsonTail"] = c_unescape(mt.group(1)) if mt else []
    if not mt:
        failures.append("JsonSink::write_log: the closing append was not found")
    mf = re.search(r"_format\.find\s*\(\s*'((?:[^'\\]|\\.)+)'\s*,\s*pos\s*\)", wl)
    mr = re.search(r'_format\.replace\s*\(\s*pos\s*,\s*1\s*,\s*"((?:[^"\\]|\\.)*)"\s*\)', wl)
    d["jsonNlChar"] = c_unescape(mf.group(1))[0] if mf else 10
    d["jsonNlRepl"] = c_unescape(mr.group(1)) if mr else []
    if not (mf and mr):
        failures.append("JsonSink::write_log: the newline replacement loop was not found")
    d["jsonUsesRewrittenTemplate"] = bool(re.search(r"message_format\s*=\s*_format\.data\s*\(\s*\)", wl)) and \
        bool(re.search(r"generate_json_message\s*\([^;]*\bmessage_format\s*\)\s*;", wl, re.S))
    if not d["jsonUsesRewrittenTemplate"]:
        failures.append("JsonSink::write_log: the rewritten template is not what is passed to generate_json_message")

    # the line buffer across statements: where `_json_message.clear()` sits relative to the (virtual, possibly throwing)
    # generate_json_message call and the base write_log call; both at the top level of the function body
    wl_nolit = re.sub(r'"(?:[^"\\\n]|\\.)*"|\'(?:[^\'\\\n]|\\.)*\'', lambda m_: " " * len(m_.group(0)), wl)   # same offsets, literals blanked

    def depth_at(body, pos):
        return wl_nolit[:pos].count("{") - wl_nolit[:pos].count("}")
    mg = re.search(r"\bgenerate_json_message\s*\(", wl)
    mw = re.search(r"\b(?:StreamSink|base_type|TBase|FileSink)::write_log\s*\(", wl)
    clears = [m_.start() for m_ in re.finditer(r"_json_message\.clear\s*\(\s*\)\s*;", wl) if depth_at(wl, m_.start()) == 0]
    if not mg:
        failures.append("JsonSink::write_log: the generate_json_message call was not found")
    if not mw:
        failures.append("JsonSink::write_log: the base write_log call was not found")
    d["jsonClearBefore"] = bool(mg and any(c < mg.start() for c in clears))
    wend = wl.find(";", mw.start()) if mw else -1
    d["jsonClearAfter"] = bool(mw and any(c > wend for c in clears))
    d["jsonWriteOrderOK"] = bool(mg and mw and mt and depth_at(wl, mg.start()) == 0 and depth_at(wl, mw.start()) == 0
                                 and mg.start() < mt.start() < mw.start()
                                 and re.search(r"std::string_view\s*\{\s*_json_message\.data\s*\(\s*\)\s*,\s*_json_message\.size\s*\(\s*\)\s*\}\s*\)\s*;",
                                               wl[mw.start():wend + 1] if mw else ""))
    if not d["jsonWriteOrderOK"]:
        failures.append("JsonSink::write_log: order generate_json_message; append tail; base write_log(…, _json_message) not recognised")
    d["jsonGenerateIsVirtual"] = bool(re.search(r"virtual\s+void\s+generate_json_message\s*\(", js))
    d["jsonBufferIsMember"] = bool(re.search(r"fmtquill::memory_buffer\s+_json_message\s*;", js))

    # ---- LOGJ_ ----------------------------------------------------------------------------------------
    lm = read(repo, "include/quill/LogMacros.h").replace("\\\n", " ")
    logj = {}
    for mm_ in re.finditer(r"#define\s+QUILL_GENERATE_NAMED_FORMAT_STRING_(\d+)\s*\(([^)]*)\)\s*(.*)", lm):
        n = int(mm_.group(1))
        params = [p.strip() for p in mm_.group(2).split(",")]
        body = mm_.group(3).strip()
        # tokens: identifiers, #ident, string literals
        toks = re.findall(r'"(?:[^"\\]|\\.)*"|#\s*\w+|\w+', body)
        shape = []
        for tk in toks:
            if tk.startswith('"'):
                shape.append(("lit", bytes(c_unescape(tk[1:-1])).decode("latin-1")))
            elif tk.startswith("#"):
                shape.append(("name", params.index(tk[1:].strip())))
            else:
                shape.append(("text", params.index(tk)))
        # merge adjacent literals
        merged = []
        for s in shape:
            if merged and merged[-1][0] == "lit" and s[0] == "lit":
                merged[-1] = ("lit", merged[-1][1] + s[1])
            else:
                merged.append(s)
        want = [("text", 0)]
        for i in range(1, n + 1):
            want.append(("lit", (" {" if i == 1 else "}, {")))
            want.append(("name", i))
        if n:
            want.append(("lit", "}"))
        logj[n] = (merged == want and len(params) == n + 1)
    d["logjArities"] = sorted(logj)
    d["logjShapeOK"] = bool(logj) and all(logj.values())
    if not d["logjShapeOK"]:
        failures.append("QUILL_GENERATE_NAMED_FORMAT_STRING_n: shape `text \" {x1}, {x2}, …\"` not recognised for n in %r" %
                        sorted(k for k, v in logj.items() if not v))

    L = []
    L.append("/-- `QUILL_MAGIC_SEPARATOR` (core/Common.h) -/")
    L.append("def separator : Named.Str := %s" % lean_chars(d["separator"]))
    L.append("/-- header of the JSON line: literal key and run-time slot, in the order of the C++ literal -/")
    L.append("def jsonLayout : List (Named.Str × Named.HdrField) := [%s]" % ", ".join(
        "(%s, .%s)" % (lean_chars(list(k.encode())), s) for k, s in d["jsonLayout"]))
    L.append("def jsonArgOpen : Named.Str := %s" % lean_chars(d["jsonArgOpen"]))
    L.append("def jsonArgMid : Named.Str := %s" % lean_chars(d["jsonArgMid"]))
    L.append("def jsonArgClose : Named.Str := %s" % lean_chars(d["jsonArgClose"]))
    L.append("def jsonTail : Named.Str := %s" % lean_chars(d["jsonTail"]))
    L.append("def jsonNlChar : Char := %s" % lean_char(d["jsonNlChar"]))
    L.append("def jsonNlRepl : Named.Str := %s" % lean_chars(d["jsonNlRepl"]))
    L.append("/-- `JsonSink::write_log`: `_json_message.clear()` before the generate_json_message call / after the base write -/")
    L.append("def jsonSinkParams : Named.JSinkParams := { clearBefore := %s, clearAfter := %s }" % (
        lean_bool(d["jsonClearBefore"]), lean_bool(d["jsonClearAfter"])))
    L.append("/-- generate_json_message; append the tail; base write_log with the buffer — in this order, unconditionally -/")
    L.append("def jsonWriteOrderOK : Bool := %s" % lean_bool(d["jsonWriteOrderOK"]))
    L.append("/-- character literals compared with `==` in `_contains_named_args`, in source order -/")
    L.append("def detectEqChars : Named.Str := %s" % lean_chars(d["detectEqChars"]))
    L.append("def detectAlphaRanges : List (Char × Char) := [%s]" % ", ".join(
        "(%s, %s)" % (lean_char(a), lean_char(b)) for a, b in d["detectAlphaRanges"]))
    L.append("def detectNeedsCount : Bool := %s" % lean_bool(d["detectNeedsCount"]))
    L.append("/-- the outer loop's closing `++pos` is also reached after a placeholder (the F11 skip) -/")
    L.append("def detectTrailingInc : Bool := %s" % lean_bool(d["detectTrailingInc"]))
    L.append("/-- characters given to `find_first_of` in `_process_named_args_format_message`, in source order -/")
    L.append("def processFindChars : Named.Str := %s" % lean_chars(d["processFindChars"]))
    L.append("def processColon : Char := %s" % lean_char(d["processColon"]))
    L.append("def processAdjacentTests : Nat := %d" % d["processAdjacentTests"])
    L.append("def processEmitFormat : Named.Str := %s" % lean_chars(d["processEmitFormat"]))
    L.append("def processReopensAtClose : Bool := %s" % lean_bool(d["processReopensAtClose"]))
    L.append("def cacheKeyIsOriginalTemplate : Bool := %s" % lean_bool(d["cacheKeyIsOriginalTemplate"]))
    L.append("def logjShapeOK : Bool := %s" % lean_bool(d["logjShapeOK"]))
    L.append("def logjMaxArity : Nat := %d" % (max(d["logjArities"]) if d["logjArities"] else 0))
    return d, "\n".join(L)


FALLBACK = ({"separator": [1, 2, 3], "jsonLayout": []},
            "def separator : Named.Str := []\ndef jsonLayout : List (Named.Str × Named.HdrField) := []\n"
            "def jsonArgOpen : Named.Str := []\ndef jsonArgMid : Named.Str := []\ndef jsonArgClose : Named.Str := []\n"
            "def jsonTail : Named.Str := []\ndef jsonNlChar : Char := ' '\ndef jsonNlRepl : Named.Str := []\n"
            "def jsonSinkParams : Named.JSinkParams := { clearBefore := false, clearAfter := false }\ndef jsonWriteOrderOK : Bool := false\n"
            "def detectEqChars : Named.Str := []\ndef detectAlphaRanges : List (Char × Char) := []\n"
            "def detectNeedsCount : Bool := false\ndef detectTrailingInc : Bool := false\n"
            "def processFindChars : Named.Str := []\ndef processColon : Char := ' '\ndef processAdjacentTests : Nat := 0\n"
            "def processEmitFormat : Named.Str := []\ndef processReopensAtClose : Bool := false\n"
            "def cacheKeyIsOriginalTemplate : Bool := false\ndef logjShapeOK : Bool := false\ndef logjMaxArity : Nat := 0")
