"""Fault-model section of the extraction (w2_faults): the structural facts of BackendWorker.h that `Backend/Fault.lean`
is parametric in (`FCfg`).
  overrideFormatterCreatedInsideSinkLoopAfterFilter — `_write_log_statement` creates a sink's override PatternFormatter lazily
      inside the per-sink loop, inside the `if (sink->apply_all_filters(...))` block, before `write_log`; no other function
      constructs it (a constructor that throws then costs only statements that reach THAT sink)
  readPassHasNoCatch — neither `_populate_transit_events_from_frontend_queues` nor `_read_and_decode_frontend_queue` nor
      `_populate_transit_event_from_frontend_queue` contains a try/catch: an exception raised while one queue is read ends the
      whole pass (and `_poll`), it is never swallowed per queue
  processHandlersNotifyUnconditionally — both handlers after `QUILL_TRY { _process_transit_event(...) }` call
      `_options.error_notifier(...)` directly (std::exception: `e.what()`, whatever its text; catch-all: the fixed text), and no
      notifier call of that function is guarded by a test on the text"""
import re

from extract import read, strip_cpp_comments, func_body, lean_bool

IMPORTS = []


def extract(repo, failures):
    d = {}
    bw = strip_cpp_comments(read(repo, "include/quill/backend/BackendWorker.h"))

    # ---- override formatter position --------------------------------------------------------------------------------
    ws = func_body(bw, r"void\s+_write_log_statement\s*\([^)]*\)\s*const\s*\{")
    ok = False
    if ws is None:
        failures.append("faults: _write_log_statement not found")
    else:
        i_loop = ws.find("for (auto& sink")
        if i_loop < 0:
            i_loop = ws.find("for (auto const& sink")
        i_filt = ws.find("apply_all_filters")
        i_make = ws.find("_override_pattern_formatter =")
        i_write = ws.find("->write_log(")
        ok = 0 <= i_loop < i_filt < i_make < i_write
        # the creation sits inside the block guarded by the filter test (brace depth relative to the `if`)
        if ok:
            seg = ws[i_filt:i_make]
            ok = seg.count("{") - seg.count("}") >= 1 and re.search(r"if\s*\(\s*sink->apply_all_filters", ws) is not None
        # and nowhere else in the backend
        if ok:
            ok = len(re.findall(r"_override_pattern_formatter\s*=\s*std::make_shared", bw)) == 1
    d["overrideFormatterCreatedInsideSinkLoopAfterFilter"] = bool(ok)

    # ---- no catch inside the read pass ------------------------------------------------------------------------------
    bodies = [func_body(bw, r"size_t\s+_populate_transit_events_from_frontend_queues\s*\(\s*\)\s*\{"),
              func_body(bw, r"size_t\s+_read_and_decode_frontend_queue\s*\([^)]*\)\s*\{"),
              func_body(bw, r"bool\s+_populate_transit_event_from_frontend_queue\s*\([^)]*\)\s*\{")]
    if any(b is None for b in bodies):
        failures.append("faults: the functions of the read pass not found")
        d["readPassHasNoCatch"] = False
    else:
        d["readPassHasNoCatch"] = not any(("QUILL_TRY" in b or "QUILL_CATCH" in b or re.search(r"\b(try|catch)\b", b)) for b in bodies)

    # ---- the handlers of _process_lowest_timestamp_transit_event ----------------------------------------------------
    pl = func_body(bw, r"bool\s+_process_lowest_timestamp_transit_event\s*\(\s*\)\s*\{")
    ok = False
    if pl is None:
        failures.append("faults: _process_lowest_timestamp_transit_event not found")
    else:
        flat = re.sub(r"\s+", " ", pl)
        h1 = re.search(r"QUILL_CATCH\s*\(\s*std::exception const& e\s*\)\s*\{\s*_options\.error_notifier\s*\(\s*e\.what\(\)\s*\)\s*;\s*\}", flat)
        h2 = re.search(r"QUILL_CATCH_ALL\s*\(\s*\)\s*\{\s*_options\.error_notifier\s*\(\s*std::string\s*\{\s*\"Caught unhandled exception\.\"\s*\}\s*\)\s*;\s*\}", flat)
        guarded = re.search(r"if\s*\([^)]*(empty|size|length)\s*\(\s*\)[^)]*\)\s*\{?\s*_options\.error_notifier", flat)
        ok = bool(h1) and bool(h2) and not guarded and flat.count("_options.error_notifier(") == 2
    d["processHandlersNotifyUnconditionally"] = bool(ok)

    lean = "\n".join("def %s : Bool := %s" % (k, lean_bool(v)) for k, v in d.items())
    return d, lean


FALLBACK = ({}, "def overrideFormatterCreatedInsideSinkLoopAfterFilter : Bool := false\ndef readPassHasNoCatch : Bool := false\n"
                "def processHandlersNotifyUnconditionally : Bool := false")
