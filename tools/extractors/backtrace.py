"""Backtrace section of the extraction (C18): structural facts of `BacktraceStorage` (store / process /
set_capacity), the backtrace decisions of `BackendWorker::_process_transit_event`, and the order of
`enum class LogLevel`."""
import re

from extract import read, strip_cpp_comments, func_body, lean_bool, lean_str

IMPORTS = ["QuillModel.Backtrace.Model"]

CMP = {">=": ".ge", ">": ".gt", "<=": ".le", "<": ".lt", "==": ".eq", "!=": ".ne"}

INC = r"(?:_index\s*\+=\s*1|\+\+\s*_index|_index\s*\+\+|_index\s*=\s*_index\s*\+\s*1)"
INC_LOCAL = r"(?:index\s*\+=\s*1|\+\+\s*index|index\s*\+\+|index\s*=\s*index\s*\+\s*1)"


def extract_ring(repo, failures):
    src = strip_cpp_comments(read(repo, "include/quill/backend/BacktraceStorage.h"))
    st = func_body(src, r"void\s+store\s*\([^)]*\)\s*\{")
    pr = func_body(src, r"void\s+process\s*\((?:[^(){}]|\([^()]*\))*\)\s*\{")
    sc = func_body(src, r"void\s+set_capacity\s*\([^)]*\)\s*\{")
    q = {"resetsIndexOnFlush": False, "guardsZeroCapacity": False, "startsAtIndex": False,
         "clearsOnFlush": False, "wrapSlack": 1}
    if st is None:
        failures.append("BacktraceStorage::store not found")
    else:
        access = st.find("_stored_events[")
        if access < 0:
            failures.append("store: no `_stored_events[...]` access found")
            access = len(st)
        elif not re.search(r"_stored_events\s*\[\s*_index\s*\]", st):
            failures.append("store: the overwritten slot is not `_stored_events[_index]`")
        g = re.search(r"if\s*\(\s*(?:_capacity\s*==\s*0u?|0u?\s*==\s*_capacity|!\s*_capacity)\s*\)\s*\{?\s*return\s*;", st)
        q["guardsZeroCapacity"] = bool(g and g.start() < access)
        if not re.search(r"if\s*\(\s*_stored_events\s*\.\s*size\s*\(\s*\)\s*<\s*_capacity\s*\)\s*\{?\s*_stored_events\s*\.\s*emplace_back", st):
            failures.append("store: growth branch `if (_stored_events.size() < _capacity) emplace_back` not found")
        w = re.search(r"if\s*\(\s*_index\s*<\s*_capacity\s*(?:-\s*(\d+)\s*)?\)\s*\{?\s*" + INC + r"\s*;\s*\}?\s*else\s*\{?\s*_index\s*=\s*0\s*;", st)
        if w:
            q["wrapSlack"] = int(w.group(1)) if w.group(1) else 0
        else:
            failures.append("store: index advance `if (_index < _capacity - k) _index += 1; else _index = 0;` not found")
    if pr is None:
        failures.append("BacktraceStorage::process not found")
    else:
        m = re.search(r"uint32_t\s+index\s*=\s*(_index|0u?)\s*;", pr) or re.search(r"uint32_t\s+index\s*\{\s*(_index|0u?)?\s*\}\s*;", pr)
        if m:
            q["startsAtIndex"] = m.group(1) == "_index"
        else:
            failures.append("process: start of the walk (`uint32_t index = _index;`) not found")
        loop = re.search(r"for\s*\(\s*uint32_t\s+i\s*=\s*0\s*;\s*i\s*<\s*_stored_events\s*\.\s*size\s*\(\s*\)\s*;\s*\+\+\s*i\s*\)", pr)
        if not loop:
            failures.append("process: loop `for (uint32_t i = 0; i < _stored_events.size(); ++i)` not found")
        if not re.search(r"callback\s*\(\s*_stored_events\s*\[\s*index\s*\]\s*\.\s*transit_event", pr):
            failures.append("process: `callback(_stored_events[index].transit_event, …)` not found")
        if not re.search(r"if\s*\(\s*index\s*<\s*_stored_events\s*\.\s*size\s*\(\s*\)\s*-\s*1\s*\)\s*\{?\s*" + INC_LOCAL +
                         r"\s*;\s*\}?\s*else\s*\{?\s*index\s*=\s*0\s*;", pr):
            failures.append("process: cyclic advance `if (index < size() - 1) index += 1; else index = 0;` not found")
        tail = pr[loop.end():] if loop else pr
        # what follows the loop's closing brace
        try:
            depth, j = 0, tail.index("{")
            while j < len(tail):
                if tail[j] == "{":
                    depth += 1
                elif tail[j] == "}":
                    depth -= 1
                    if depth == 0:
                        break
                j += 1
            after = tail[j + 1:]
        except ValueError:
            after = ""
        c = re.search(r"_stored_events\s*\.\s*clear\s*\(\s*\)\s*;", after)
        q["clearsOnFlush"] = bool(c)
        q["resetsIndexOnFlush"] = bool(re.search(r"\b_index\s*=\s*0u?\s*;", after))
    if sc is None:
        failures.append("BacktraceStorage::set_capacity not found")
    else:
        ok = (re.search(r"if\s*\(\s*_capacity\s*!=\s*capacity\s*\)", sc) and re.search(r"_capacity\s*=\s*capacity\s*;", sc)
              and re.search(r"\b_index\s*=\s*0u?\s*;", sc) and re.search(r"_stored_events\s*\.\s*clear\s*\(\s*\)\s*;", sc))
        if not ok:
            failures.append("set_capacity: `if (_capacity != capacity) { _capacity = capacity; _index = 0; _stored_events.clear(); … }` not found")
    if not re.search(r"uint32_t\s+_capacity\s*\{\s*0\s*\}", src) or not re.search(r"uint32_t\s+_index\s*\{\s*0\s*\}", src):
        failures.append("BacktraceStorage: members `_capacity{0}` / `_index{0}` not found")
    return q


def split_if_else(body, cond_regex):
    """(then-block, else-block, index of the `if`) of the first `if (<cond>) {…} else {…}` in body"""
    m = re.search(r"if\s*\(\s*" + cond_regex + r"\s*\)\s*\{", body)
    if not m:
        return None

    def block(start):
        depth, j = 0, start
        while j < len(body):
            if body[j] == "{":
                depth += 1
            elif body[j] == "}":
                depth -= 1
                if depth == 0:
                    return body[start + 1:j], j + 1
            j += 1
        raise ValueError("unbalanced")
    then, end = block(m.end() - 1)
    e = re.match(r"\s*else\s*\{", body[end:])
    if not e:
        return then, None, m.start()
    els, _ = block(end + e.end() - 1)
    return then, els, m.start()


def _replay_dispatches(src, segment):
    """the callback handed to `backtrace_storage->process(` inside `segment` hands each stored event `te` to
    `_dispatch_transit_event_to_sinks`: directly, or (F26 repair) through a member function whose body calls it"""
    if "_dispatch_transit_event_to_sinks(te" in segment:
        return True
    m = re.search(r"backtrace_storage\s*->\s*process\s*\(\s*\[[^\]]*\]\s*\([^)]*\)\s*\{\s*(\w+)\s*\(\s*te\b", segment)
    if not m:
        return False
    fb = func_body(src, r"void\s+" + re.escape(m.group(1)) + r"\s*\([^)]*\)\s*\{")
    return bool(fb and re.search(r"_dispatch_transit_event_to_sinks\s*\(\s*transit_event\b", fb))


def extract_backend(repo, failures):
    src = strip_cpp_comments(read(repo, "include/quill/backend/BackendWorker.h"))
    body = func_body(src, r"void\s+_process_transit_event\s*\([^)]*\)\s*\{")
    q = {"flushCmp": ">=", "writesBeforeReplay": False, "backtraceBranchStoresOnly": False,
         "explicitFlushReplays": False, "initSetsCapacity": False}
    if body is None:
        failures.append("BackendWorker::_process_transit_event not found")
        return q
    parts = split_if_else(body, r"transit_event\s*\.\s*log_level\s*\(\s*\)\s*!=\s*LogLevel::Backtrace")
    if not parts or parts[1] is None:
        failures.append("_process_transit_event: `if (transit_event.log_level() != LogLevel::Backtrace) {…} else {…}` not found")
        return q
    then, els, _ = parts
    m = re.search(r"transit_event\s*\.\s*log_level\s*\(\s*\)\s*(>=|<=|==|!=|>|<)\s*transit_event\s*\.\s*logger_base\s*->\s*backtrace_flush_level", then)
    if m:
        q["flushCmp"] = m.group(1)
    else:
        failures.append("_process_transit_event: comparison of the statement's level with backtrace_flush_level not found")
    d = then.find("_dispatch_transit_event_to_sinks(transit_event")
    r = re.search(r"backtrace_storage\s*->\s*process\s*\(", then)
    q["writesBeforeReplay"] = bool(d >= 0 and m and r and d < m.start() < r.start()
                                   and _replay_dispatches(src, then[r.start():]))
    q["backtraceBranchStoresOnly"] = bool(re.search(r"backtrace_storage\s*->\s*store\s*\(", els)
                                          and "_dispatch_transit_event_to_sinks" not in els
                                          and "QUILL_THROW" in els)
    fb = split_if_else(body, r"transit_event\s*\.\s*macro_metadata\s*->\s*event\s*\(\s*\)\s*==\s*MacroMetadata::Event::FlushBacktrace")
    q["explicitFlushReplays"] = bool(fb and re.search(r"backtrace_storage\s*->\s*process\s*\(", fb[0])
                                     and _replay_dispatches(src, fb[0]))
    ib = split_if_else(body, r"transit_event\s*\.\s*macro_metadata\s*->\s*event\s*\(\s*\)\s*==\s*MacroMetadata::Event::InitBacktrace")
    q["initSetsCapacity"] = bool(ib and re.search(r"backtrace_storage\s*->\s*set_capacity\s*\(", ib[0])
                                 and re.search(r"make_shared\s*<\s*BacktraceStorage\s*>", ib[0]))
    return q


def extract_levels(repo, failures):
    src = strip_cpp_comments(read(repo, "include/quill/core/LogLevel.h"))
    m = re.search(r"enum\s+class\s+LogLevel\s*(?::\s*\w+)?\s*\{(.*?)\}", src, re.S)
    if not m:
        failures.append("enum class LogLevel not found")
        return []
    names = []
    for item in m.group(1).split(","):
        item = item.strip()
        if not item:
            continue
        if "=" in item:
            failures.append("enum class LogLevel: explicit enumerator value `%s` (order table not positional)" % item)
            item = item.split("=")[0].strip()
        names.append(item)
    return names


def extract(repo, failures):
    ring = extract_ring(repo, failures)
    be = extract_backend(repo, failures)
    levels = extract_levels(repo, failures)
    out = {"ring": ring, "backend": be, "levels": levels}
    L = []
    L.append("/-- structure of `BacktraceStorage::store/process` and the flush-level comparison of `_process_transit_event` -/")
    L.append("def backtraceParams : Backtrace.Params :=")
    L.append("  { resetsIndexOnFlush := %s, guardsZeroCapacity := %s, startsAtIndex := %s, clearsOnFlush := %s," % (
        lean_bool(ring["resetsIndexOnFlush"]), lean_bool(ring["guardsZeroCapacity"]),
        lean_bool(ring["startsAtIndex"]), lean_bool(ring["clearsOnFlush"])))
    L.append("    wrapSlack := %d, flushCmp := %s }" % (ring["wrapSlack"], CMP[be["flushCmp"]]))
    L.append("/-- `_process_transit_event`: the statement is dispatched before the level test and the replay; the backtrace")
    L.append("    branch stores (or throws) and never dispatches; FlushBacktrace replays; InitBacktrace creates + set_capacity -/")
    for k in ("writesBeforeReplay", "backtraceBranchStoresOnly", "explicitFlushReplays", "initSetsCapacity"):
        L.append("def %s : Bool := %s" % (k, lean_bool(be[k])))
    L.append("/-- enumerators of `enum class LogLevel`, in declaration order (rank = position) -/")
    L.append("def levelTable : List String := [%s]" % ", ".join(lean_str(n) for n in levels))
    return out, "\n".join(L)


FALLBACK = ({"ring": {"resetsIndexOnFlush": False, "guardsZeroCapacity": False, "startsAtIndex": False,
                      "clearsOnFlush": False, "wrapSlack": 1},
             "backend": {"flushCmp": ">=", "writesBeforeReplay": False, "backtraceBranchStoresOnly": False,
                         "explicitFlushReplays": False, "initSetsCapacity": False},
             "levels": []},
            "def backtraceParams : Backtrace.Params :=\n"
            "  { resetsIndexOnFlush := false, guardsZeroCapacity := false, startsAtIndex := false, clearsOnFlush := false,\n"
            "    wrapSlack := 1, flushCmp := .ge }\n"
            "def writesBeforeReplay : Bool := false\ndef backtraceBranchStoresOnly : Bool := false\n"
            "def explicitFlushReplays : Bool := false\ndef initSetsCapacity : Bool := false\n"
            "def levelTable : List String := []")
