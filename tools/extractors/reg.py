"""Registration / failure-counter section of the extraction (core/ThreadContextManager.h, backend/BackendWorker.h):
the order of the operations of `register_thread_context` and of the backend's cache update as straight-line programs
(interpreted by lean/QuillModel/Reg/Model.lean), the memory orders of the flag and counter accesses, and the shape of
`increment_failure_counter` / `get_and_reset_failure_counter`."""
import re

from extract import read, strip_cpp_comments, func_body, order_of, MO

IMPORTS = ["QuillModel.Reg.Model"]

TCM = "include/quill/core/ThreadContextManager.h"
BW = "include/quill/backend/BackendWorker.h"


def _scope_end(body, pos):
    """end of the innermost block of `body` that contains position `pos` (len(body) when it is the function body itself)"""
    depth = 0
    for j in range(pos, len(body)):
        c = body[j]
        if c == "{":
            depth += 1
        elif c == "}":
            if depth == 0:
                return j
            depth -= 1
    return len(body)


def _lock_events(body, lock_name="_spinlock"):
    """(position, 'lock'|'unlock') of manual lock()/unlock() calls and of LockGuard objects (unlock = end of their scope)"""
    ev = []
    for m in re.finditer(re.escape(lock_name) + r"\s*\.\s*lock\s*\(\s*\)", body):
        ev.append((m.start(), "lock"))
    for m in re.finditer(re.escape(lock_name) + r"\s*\.\s*unlock\s*\(\s*\)", body):
        ev.append((m.start(), "unlock"))
    for m in re.finditer(r"\bLockGuard\b[^;{(]*[{(]\s*" + re.escape(lock_name) + r"\s*[})]\s*;", body):
        ev.append((m.start(), "lock"))
        ev.append((_scope_end(body, m.end()) - 0.5, "unlock"))
    return ev


def _register_program(src, failures):
    body = func_body(src, r"void\s+register_thread_context\s*\([^)]*\)\s*(?:noexcept)?\s*\{")
    if body is None:
        failures.append("register_thread_context: function not found")
        return [], "seq_cst"
    ev = _lock_events(body)
    for m in re.finditer(r"_thread_contexts\s*\.\s*(?:push_back|emplace_back)\s*\(", body):
        ev.append((m.start(), "push"))
    for m in re.finditer(r"_new_thread_context_flag\s*(?:\.\s*store\s*\(\s*true\b|=\s*true\b)", body):
        ev.append((m.start(), "setFlag"))
    prog = [k for _, k in sorted(ev)]
    for k in ("lock", "push", "unlock", "setFlag"):
        if prog.count(k) != 1:
            failures.append("register_thread_context: expected exactly one %s, found %d" % (k, prog.count(k)))
    order = order_of(body, "_new_thread_context_flag", "store", [], "") if re.search(r"_new_thread_context_flag\s*\.\s*store", body) else "seq_cst"
    return prog, order


def _update_program(tcm, bw, failures):
    d = {}
    # new_thread_context_flag(): load; if set: store(false); return true
    fb = func_body(tcm, r"bool\s+new_thread_context_flag\s*\(\s*\)\s*(?:const)?\s*(?:noexcept)?\s*\{")
    d["flagLoad"] = order_of(fb, "_new_thread_context_flag", "load", failures, "new_thread_context_flag")
    reset_in_fn = False
    d["flagReset"] = "seq_cst"
    if fb:
        m_load = re.search(r"_new_thread_context_flag\s*\.\s*load\s*\(", fb)
        m_reset = re.search(r"_new_thread_context_flag\s*(?:\.\s*store\s*\(\s*false\b|=\s*false\b)", fb)
        if m_load and m_reset and m_load.start() < m_reset.start() and re.search(r"return\s+true\s*;", fb[m_reset.end():]):
            reset_in_fn = True
            if ".store" in m_reset.group(0).replace(" ", ""):
                d["flagReset"] = order_of(fb, "_new_thread_context_flag", "store", [], "")
        elif m_load and re.search(r"_new_thread_context_flag\s*\.\s*exchange\s*\(\s*false\b", fb):
            pass  # an exchange is a different protocol: leave it to the failure below
    if not reset_in_fn:
        failures.append("new_thread_context_flag: `load … store(false) … return true` not recognised")
    # for_each_thread_context: guard, then the loop calling the callback
    feb = func_body(tcm, r"void\s+for_each_thread_context\s*\([^)]*\)\s*\{")
    fe_prog = []
    if feb:
        ev = _lock_events(feb)
        m = re.search(r"\bcb\s*\(", feb)
        if m:
            ev.append((m.start(), "copy"))
        fe_prog = [k for _, k in sorted(ev)]
    if fe_prog != ["lock", "copy", "unlock"]:
        failures.append("for_each_thread_context: expected lock, callback loop, unlock — found %s" % fe_prog)
    # the backend's update: if (new_thread_context_flag()) { cache.clear(); for_each_thread_context(push_back) }
    ub = func_body(bw, r"void\s+_update_active_thread_contexts_cache\s*\(\s*\)\s*\{")
    prog = []
    if ub is None:
        failures.append("_update_active_thread_contexts_cache: function not found")
    else:
        ev = []
        m_if = re.search(r"if\s*\(.*?new_thread_context_flag\s*\(\s*\)", ub, re.S)
        if not m_if:
            failures.append("_update_active_thread_contexts_cache: not guarded by new_thread_context_flag()")
        elif reset_in_fn:
            ev.append((m_if.end(), ["reset"]))
        for m in re.finditer(r"_active_thread_contexts_cache\s*\.\s*clear\s*\(\s*\)", ub):
            ev.append((m.start(), ["clear"]))
        m_fe = re.search(r"for_each_thread_context\s*\(", ub)
        if m_fe and re.search(r"_active_thread_contexts_cache\s*\.\s*(?:push_back|emplace_back)\s*\(", ub[m_fe.end():]):
            ev.append((m_fe.start(), fe_prog))
        else:
            failures.append("_update_active_thread_contexts_cache: no for_each_thread_context(… cache.push_back …)")
        for _, ks in sorted(ev, key=lambda e: e[0]):
            prog += ks
    return prog, d


def _counter(src, failures):
    d = {}
    ib = func_body(src, r"void\s+increment_failure_counter\s*\(\s*\)\s*(?:noexcept)?\s*\{")
    gb = func_body(src, r"size_t\s+get_and_reset_failure_counter\s*\(\s*\)\s*(?:noexcept)?\s*\{")
    if ib is None:
        failures.append("increment_failure_counter: function not found")
        ib = ""
    if gb is None:
        failures.append("get_and_reset_failure_counter: function not found")
        gb = ""
    if re.search(r"_failure_counter\s*\.\s*fetch_add\s*\(", ib):
        d["incRmw"] = True
        d["incOrder"] = order_of(ib, "_failure_counter", "fetch_add", [], "")
    elif re.search(r"(\+\+\s*_failure_counter|_failure_counter\s*\+\+|_failure_counter\s*\+=)", ib):
        d["incRmw"] = True
        d["incOrder"] = "seq_cst"
    else:
        d["incRmw"] = False
        d["incOrder"] = "seq_cst"
        if not re.search(r"_failure_counter", ib):
            failures.append("increment_failure_counter: no access of _failure_counter found")
    m_load = re.search(r"_failure_counter\s*\.\s*load\s*\(", gb)
    m_x = re.search(r"_failure_counter\s*\.\s*exchange\s*\(\s*0\b", gb)
    plain_store = re.search(r"_failure_counter\s*(?:\.\s*store\s*\(|=[^=])", gb)
    d["preLoad"] = bool(m_load and (not m_x or m_load.start() < m_x.start()))
    d["loadOrder"] = order_of(gb, "_failure_counter", "load", [], "") if m_load else "seq_cst"
    d["xchgOrder"] = order_of(gb, "_failure_counter", "exchange", [], "") if m_x else "seq_cst"
    returned = False
    if m_x:
        if re.search(r"return\s+_failure_counter\s*\.\s*exchange\s*\(", gb):
            returned = True
        else:
            mv = re.search(r"(\w+)\s*(?:=|\{)\s*_failure_counter\s*\.\s*exchange\s*\(", gb)
            returned = bool(mv and re.search(r"return\s+" + re.escape(mv.group(1)) + r"\s*;", gb[mv.end():]))
    d["resetXchg"] = bool(m_x and returned and not plain_store)
    if not m_x and not plain_store:
        failures.append("get_and_reset_failure_counter: neither exchange(0) nor a store found")
    return d


def _lean_list(xs):
    return "[" + ", ".join("." + x for x in xs) + "]"


def extract(repo, failures):
    tcm = strip_cpp_comments(read(repo, TCM))
    bw = strip_cpp_comments(read(repo, BW))
    reg_prog, flag_store = _register_program(tcm, failures)
    upd_prog, d = _update_program(tcm, bw, failures)
    ctr = _counter(tcm, failures)
    d.update({"regProg": reg_prog, "updProg": upd_prog, "flagStore": flag_store, "ctr": ctr})
    b = lambda x: "true" if x else "false"
    L = ["def regProg : List Reg.FInstr := %s" % _lean_list(reg_prog),
         "def updProg : List Reg.BInstr := %s" % _lean_list(upd_prog),
         "def flagStoreOrder : Spsc.MO := %s" % MO[flag_store],
         "def flagLoadOrder : Spsc.MO := %s" % MO[d["flagLoad"]],
         "def flagResetOrder : Spsc.MO := %s" % MO[d["flagReset"]],
         "def ctrCfg : Ctr.Cfg := { incRmw := %s, preLoad := %s, resetXchg := %s }" % (b(ctr["incRmw"]), b(ctr["preLoad"]), b(ctr["resetXchg"])),
         "def ctrIncOrder : Spsc.MO := %s" % MO[ctr["incOrder"]],
         "def ctrLoadOrder : Spsc.MO := %s" % MO[ctr["loadOrder"]],
         "def ctrXchgOrder : Spsc.MO := %s" % MO[ctr["xchgOrder"]]]
    return d, "\n".join(L)


FALLBACK = ({"regProg": [], "updProg": [], "flagStore": "seq_cst", "flagLoad": "seq_cst", "flagReset": "seq_cst",
             "ctr": {"incRmw": False, "preLoad": False, "resetXchg": False, "incOrder": "seq_cst", "loadOrder": "seq_cst", "xchgOrder": "seq_cst"}},
            "def regProg : List Reg.FInstr := []\ndef updProg : List Reg.BInstr := []\ndef flagStoreOrder : Spsc.MO := .seqcst\n"
            "def flagLoadOrder : Spsc.MO := .seqcst\ndef flagResetOrder : Spsc.MO := .seqcst\n"
            "def ctrCfg : Ctr.Cfg := { incRmw := false, preLoad := false, resetXchg := false }\n"
            "def ctrIncOrder : Spsc.MO := .seqcst\ndef ctrLoadOrder : Spsc.MO := .seqcst\ndef ctrXchgOrder : Spsc.MO := .seqcst")
