"""Per-context dispatch on the queue type (backend/BackendWorker.h), for processes with several frontends of different queue
types (lean/QuillModel/Backend/Mixed.lean): `_check_failure_counter` visits EVERY cached context and tests
`has_bounded_queue_type()` on that context (no return / break / condition before or inside the loop that would let one
context decide for the others), the report and its wording use the same loop context, and the "unreported counter keeps the
context" rule of `_cleanup_invalidated_thread_contexts` sits in the bounded branch only."""
import re

from extract import read, strip_cpp_comments, func_body

IMPORTS = []
BW = "include/quill/backend/BackendWorker.h"


def _block(src, open_pos):
    """text inside the braces that open at src[open_pos] == '{'"""
    depth = 0
    for j in range(open_pos, len(src)):
        if src[j] == "{":
            depth += 1
        elif src[j] == "}":
            depth -= 1
            if depth == 0:
                return src[open_pos + 1:j], j
    return None, len(src)


def _if_block(src, cond_re):
    m = re.search(r"if\s*\(\s*" + cond_re + r"\s*\)\s*\{", src)
    if not m:
        return None, None
    inner, end = _block(src, m.end() - 1)
    return inner, (m.start(), end)


def extract(repo, failures):
    bw = strip_cpp_comments(read(repo, BW))
    d = dict(checkNoExitBeforeLoop=False, checkTestsEveryContext=False, checkUsesLoopContext=False, cleanupCounterRuleBoundedOnly=False)
    body = func_body(bw, r"void\s+_check_failure_counter\s*\(\s*std::function[^{;]*\{")
    if body is None:
        failures.append("_check_failure_counter: function not found")
    else:
        mf = re.search(r"for\s*\(\s*ThreadContext\s*\*\s*(\w+)\s*:\s*_active_thread_contexts_cache\s*\)\s*\{", body)
        if not mf:
            failures.append("_check_failure_counter: range-for over _active_thread_contexts_cache not found")
        else:
            var = mf.group(1)
            pre = body[:mf.start()]
            loop, end = _block(body, mf.end() - 1)
            post = body[end + 1:]
            d["checkNoExitBeforeLoop"] = not re.search(r"\b(return|break|goto|if|while|for|throw)\b", pre) and "_active_thread_contexts_cache" not in pre
            if loop is not None:
                inner, span = _if_block(loop, re.escape(var) + r"\s*->\s*has_bounded_queue_type\s*\(\s*\)")
                only_that_if = inner is not None and loop[:span[0]].strip() == "" and loop[span[1] + 1:].strip() == ""
                d["checkTestsEveryContext"] = bool(only_that_if and not re.search(r"\b(return|break|goto|continue)\b", loop)
                                                   and re.search(re.escape(var) + r"\s*->\s*get_and_reset_failure_counter\s*\(\s*\)", inner))
                calls = re.findall(r"([A-Za-z_]\w*(?:\s*\.\s*\w+\s*\(\s*\)|\s*\[[^\]]*\])?)\s*->\s*(has_dropping_queue|has_blocking_queue|get_and_reset_failure_counter|"
                                   r"thread_id|has_bounded_queue_type|has_unbounded_queue_type)\s*\(", loop)
                d["checkUsesLoopContext"] = bool(calls) and all(c[0] == var for c in calls) and \
                    not re.search(r"_active_thread_contexts_cache\s*(\.\s*(front|back|at|begin|data)\b|\[)", body) and \
                    {c[1] for c in calls} >= {"has_dropping_queue", "has_blocking_queue", "get_and_reset_failure_counter", "has_bounded_queue_type"}
            if re.search(r"\b(return|break|goto)\b", post):
                d["checkTestsEveryContext"] = d["checkTestsEveryContext"] and True   # after the loop nothing can be skipped
    cl = func_body(bw, r"void\s+_cleanup_invalidated_thread_contexts\s*\(\s*\)\s*\{")
    if cl is None:
        failures.append("_cleanup_invalidated_thread_contexts: function not found")
    else:
        ub, _ = _if_block(cl, r"thread_context\s*->\s*has_unbounded_queue_type\s*\(\s*\)")
        bb, _ = _if_block(cl, r"thread_context\s*->\s*has_bounded_queue_type\s*\(\s*\)")
        if ub is None or bb is None:
            failures.append("_cleanup_invalidated_thread_contexts: the two queue-type branches not found")
        else:
            d["cleanupCounterRuleBoundedOnly"] = "_failure_counter" not in ub and bool(
                re.search(r"unbounded_spsc_queue\s*\.\s*empty\s*\(\s*\)\s*&&\s*thread_context\s*->\s*_transit_event_buffer\s*->\s*empty\s*\(\s*\)\s*;", ub)) and \
                cl.count("_failure_counter") == bb.count("_failure_counter")
    b = lambda x: "true" if x else "false"
    L = ["def %s : Bool := %s" % (k, b(v)) for k, v in d.items()]
    L.append("/-- the seeded variant `Backend.Mix.early`: one context decides for all -/")
    L.append("def mixEarly : Bool := !(checkNoExitBeforeLoop && checkTestsEveryContext)")
    return d, "\n".join(L)


FALLBACK = ({}, "def checkNoExitBeforeLoop : Bool := false\ndef checkTestsEveryContext : Bool := false\ndef checkUsesLoopContext : Bool := false\n"
                "def cleanupCounterRuleBoundedOnly : Bool := false\ndef mixEarly : Bool := true")
