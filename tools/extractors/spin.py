"""Spinlock section of the extraction: memory orders of lock()/unlock() in core/Spinlock.h."""
import re

from extract import read, strip_cpp_comments, func_body, order_of, MO

IMPORTS = ["QuillModel.Spin.Model"]


def extract(repo, failures):
    src = strip_cpp_comments(read(repo, "include/quill/core/Spinlock.h"))
    lk = func_body(src, r"void\s+lock\s*\(\s*\)\s*(?:noexcept)?\s*\{")
    ul = func_body(src, r"void\s+unlock\s*\(\s*\)\s*(?:noexcept)?\s*\{")
    d = {}
    d["xchg"] = order_of(lk, "_flag", "exchange", failures, "spinlock.lock")
    d["unl"] = order_of(ul, "_flag", "store", failures, "spinlock.unlock")
    d["lockIsExchangeLoop"] = bool(lk and re.search(r"while\s*\(\s*_flag\s*\.\s*exchange\s*\(", lk))
    d["guardUnlocksInDtor"] = bool(re.search(r"~LockGuard\s*\(\s*\)\s*\{\s*_spinlock\s*\.\s*unlock\s*\(\s*\)", src))
    L = ["def spinOrders : Spin.Orders := { xchg := %s, unl := %s }" % (MO[d["xchg"]], MO[d["unl"]]),
         "def lockIsExchangeLoop : Bool := %s" % ("true" if d["lockIsExchangeLoop"] else "false"),
         "def guardUnlocksInDtor : Bool := %s" % ("true" if d["guardUnlocksInDtor"] else "false")]
    return d, "\n".join(L)


FALLBACK = ({"xchg": "seq_cst", "unl": "seq_cst"}, "def spinOrders : Spin.Orders := { xchg := .seqcst, unl := .seqcst }\ndef lockIsExchangeLoop : Bool := false\ndef guardUnlocksInDtor : Bool := false")
