"""Spinlock section of the extraction: memory orders of lock()/unlock() in core/Spinlock.h."""
import re

from extract import read, strip_cpp_comments, func_body, body_after, order_of, MO

IMPORTS = ["QuillModel.Spin.Model"]


def flag_member(src, failures, what):
    """name of the single std::atomic<…> data member of `class Spinlock`, read off its declaration (the extraction must not
    depend on what the member is called)"""
    m = re.search(r"class\s+Spinlock\b[^{;]*\{", src)
    try:
        cls = body_after(src, m.end() - 1) if m else None
    except ValueError:
        cls = None
    if cls is None:
        failures.append(what + ": class Spinlock not found")
        return "_flag"
    names = re.findall(r"\bstd\s*::\s*atomic\s*<[^;{}()]*>\s*(\w+)\s*(?:\{[^;]*\}|=[^;]*|\([^;]*\))?\s*;", cls)
    if len(names) != 1:
        failures.append(what + ": expected exactly one std::atomic data member in class Spinlock, found %d" % len(names))
        return names[0] if names else "_flag"
    return names[0]


def lock_orders(repo, failures, what):
    """memory orders of the lock's exchange / unlock store, whatever the flag member is called"""
    src = strip_cpp_comments(read(repo, "include/quill/core/Spinlock.h"))
    flag = flag_member(src, failures, what)
    lk = func_body(src, r"void\s+lock\s*\(\s*\)\s*(?:noexcept)?\s*\{")
    ul = func_body(src, r"void\s+unlock\s*\(\s*\)\s*(?:noexcept)?\s*\{")
    d = {}
    d["xchg"] = order_of(lk, flag, "exchange", failures, what + ".lock")
    d["unl"] = order_of(ul, flag, "store", failures, what + ".unlock")
    d["lockIsExchangeLoop"] = bool(lk and re.search(r"while\s*\(\s*" + re.escape(flag) + r"\s*\.\s*exchange\s*\(", lk))
    d["flag"] = flag   # handed to the harness builds as -DH_SPIN_FLAG=<name> (see spin_flag_define)
    return d, src, flag


def spin_flag_define(ex):
    """compiler flag telling the atomic-shim harnesses what the lock's flag member is called in the current tree"""
    name = (ex or {}).get("spin", {}).get("flag") or "_flag"
    return "-DH_SPIN_FLAG=" + (name if re.fullmatch(r"\w+", name) else "_flag")


def extract(repo, failures):
    d, src, _ = lock_orders(repo, failures, "spinlock")
    d["guardUnlocksInDtor"] = bool(re.search(r"~LockGuard\s*\(\s*\)\s*\{\s*_spinlock\s*\.\s*unlock\s*\(\s*\)", src))
    L = ["def spinOrders : Spin.Orders := { xchg := %s, unl := %s }" % (MO[d["xchg"]], MO[d["unl"]]),
         "def lockIsExchangeLoop : Bool := %s" % ("true" if d["lockIsExchangeLoop"] else "false"),
         "def guardUnlocksInDtor : Bool := %s" % ("true" if d["guardUnlocksInDtor"] else "false")]
    return d, "\n".join(L)


FALLBACK = ({"xchg": "seq_cst", "unl": "seq_cst", "flag": "_flag"}, "def spinOrders : Spin.Orders := { xchg := .seqcst, unl := .seqcst }\ndef lockIsExchangeLoop : Bool := false\ndef guardUnlocksInDtor : Bool := false")
