"""Time section of the extraction (C13): what `StringFromTime.h` / `TimestampFormatter.h` special-case.

Tables: the seven modifiers the pattern is split at, where each field sits relative to the end of the freshly
appended text and how it is re-written (fill, width, argument), the three rewrites of `init`, the rejected
substring, the recalculation constants (local period, noon/midnight arithmetic), the fallback / recalculation
conditions, the h/m/s divisors, the strftime buffer growth, the fractional specifiers with their widths and
divisors, the exclusivity throws and the right-alignment of the fraction writer."""
import re

from extract import read, strip_cpp_comments, func_body, lean_bool, lean_str

IMPORTS = []

SFT = "include/quill/backend/StringFromTime.h"
TSF = "include/quill/backend/TimestampFormatter.h"


def norm(s):
    return re.sub(r"\s+", "", s)


def num(s):
    return int(s.replace("'", ""))


def lean_char(c):
    return "'" + c.replace("\\", "\\\\").replace("'", "\\'") + "'"


def fmt_spec(spec, failures, what):
    """fmt spec "{:02}" / "{:2}" / "{:10}" -> (fill, width)"""
    m = re.fullmatch(r"\{:(0?)(\d+)\}", spec)
    if not m:
        failures.append("%s: unrecognised fmt spec %r" % (what, spec))
        return (" ", 0)
    return ("0" if m.group(1) else " ", int(m.group(2)))


class _NoEval(Exception):
    pass


def _eval_tm_statements(text, hour):
    """Evaluate the C++ statements `text` (assignments to time_info.tm_hour/min/sec, if/else, ?:, simple local definitions)
    for an initial tm_hour; tm_min / tm_sec start unknown. Returns the final (hour, min, sec)."""
    toks = re.findall(r"[A-Za-z_][\w:.]*|\d[\d']*|==|!=|<=|>=|&&|\|\||[-+*/%<>=!?:;(){},&]", text)
    pos = [0]
    env = {"time_info.tm_hour": hour, "time_info.tm_min": None, "time_info.tm_sec": None}

    def peek():
        return toks[pos[0]] if pos[0] < len(toks) else None

    def take(t=None):
        x = peek()
        if x is None or (t is not None and x != t):
            raise _NoEval("expected %r, found %r" % (t, x))
        pos[0] += 1
        return x

    def atom(live):
        x = take()
        if x == "(":
            v = expr(live)
            take(")")
            return v
        if x == "!":
            v = atom(live)
            return (not v) if live else None
        if x == "-":
            v = atom(live)
            return -v if live else None
        if re.fullmatch(r"\d[\d']*", x):
            return int(x.replace("'", ""))
        if x in ("true", "false"):
            return x == "true"
        if x in ("static_cast<int>",):
            return atom(live)
        if re.fullmatch(r"[A-Za-z_][\w:.]*", x):
            if not live:
                return None
            if x not in env:
                raise _NoEval("unknown name %s" % x)
            if env[x] is None:
                raise _NoEval("%s read before it is set" % x)
            return env[x]
        raise _NoEval("unexpected token %r" % x)

    def arith(live):
        v = atom(live)
        while peek() in ("+", "-", "*"):
            op = take()
            w = atom(live)
            if live:
                v = v + w if op == "+" else (v - w if op == "-" else v * w)
        return v

    def cmp_(live):
        v = arith(live)
        if peek() in ("<", "<=", ">", ">=", "==", "!="):
            op = take()
            w = arith(live)
            if live:
                v = {"<": v < w, "<=": v <= w, ">": v > w, ">=": v >= w, "==": v == w, "!=": v != w}[op]
        return v

    def logic(live):
        v = cmp_(live)
        while peek() in ("&&", "||"):
            op = take()
            w = cmp_(live)
            if live:
                v = (v and w) if op == "&&" else (v or w)
        return v

    def expr(live):
        c = logic(live)
        if peek() == "?":
            take("?")
            a = expr(live and bool(c))
            take(":")
            b = expr(live and not bool(c))
            return (a if c else b) if live else None
        return c

    def stmt(live):
        x = peek()
        if x == "{":
            take("{")
            while peek() != "}":
                stmt(live)
            take("}")
            return
        if x == "if":
            take("if")
            take("(")
            c = expr(live)
            take(")")
            stmt(live and bool(c))
            if peek() == "else":
                take("else")
                stmt(live and not bool(c))
            return
        # assignment or local definition: tokens up to '=' ; the last one is the target
        lhs = []
        while peek() not in ("=", None, ";"):
            lhs.append(take())
        take("=")
        v = expr(live)
        take(";")
        if not lhs:
            raise _NoEval("assignment without a target")
        target = lhs[-1]
        if target.startswith("time_info.") and target not in env:
            raise _NoEval("field %s is modified (only hour/min/sec of the same day may be)" % target)
        if len(lhs) > 1 and target.startswith("time_info."):
            raise _NoEval("unexpected declaration of %s" % target)
        if live:
            env[target] = v

    while peek() is not None:
        stmt(True)
    return env["time_info.tm_hour"], env["time_info.tm_min"], env["time_info.tm_sec"]


def _noon_midnight_table(nm):
    """[T, H1, H2, M, S, K] with: hour < T -> H1:M:S, else H2:M:S, same day, + K seconds; ([], reason) when the body is not
    such a computation"""
    if not nm:
        return [], "function not found"
    g = re.search(r"gmtime_rs\(\s*&timestamp\s*,\s*&time_info\s*\)\s*;", nm)
    t = re.search(r"[^;{}]*timegm\(\s*&time_info\s*\)[^;]*;", nm)
    k = re.search(r"return[^;]*\.count\(\)\s*\+\s*(\d+)\s*;", nm)
    if not (g and t and k and g.end() <= t.start() < k.start()):
        return [], "gmtime_rs / timegm / `count() + K` frame not found"
    try:
        res = [_eval_tm_statements(nm[g.end():t.start()], h) for h in range(24)]
    except _NoEval as ex:
        return [], str(ex)
    if any(not isinstance(x, int) or isinstance(x, bool) for r in res for x in r):
        return [], "a field is not set to a constant"
    if len(set((m, s_) for _, m, s_ in res)) != 1:
        return [], "minute/second differ between the branches: %s" % sorted(set(res))
    hours = [h for h, _, _ in res]
    steps = [i for i in range(1, 24) if hours[i] != hours[i - 1]]
    if len(steps) != 1:
        return [], "the hour set is not a two-valued step function of the hour: %s" % hours
    return [steps[0], hours[0], hours[23], res[0][1], res[0][2], int(k.group(1))], ""


def extract(repo, failures):
    out = {}
    src = strip_cpp_comments(read(repo, SFT))

    # 1. modifiers searched by _split_timestamp_format_once
    so = func_body(src, r"_split_timestamp_format_once\s*\([^)]*\)\s*(?:noexcept)?\s*\{")
    mods = []
    if so is None:
        failures.append("time: _split_timestamp_format_once not found")
    else:
        m = re.search(r"modifiers\s*\{([^}]*)\}", so)
        if not m:
            failures.append("time: modifiers array not found")
        else:
            mods = re.findall(r'"%(.)"', m.group(1))
            if len(mods) != len(re.findall(r'"[^"]*"', m.group(1))):
                failures.append("time: a modifier is not of the form \"%c\"")
        if not re.search(r"\+\s*2\s*\}", so):
            failures.append("time: split no longer skips 2 characters after the modifier")
        # hits are collected in a std::map keyed by position and the cut is made at begin() (lowest position)
        out["splitAtLowestIndex"] = bool(re.search(r"std::map<\s*size_t\s*,\s*std::string\s*>\s+found_format_modifiers", so)
                                         and re.search(r"found_format_modifiers\.emplace\(\s*search\s*,\s*modifier\s*\)", so)
                                         and len(re.findall(r"found_format_modifiers\.begin\(\)->first", so)) >= 3
                                         and re.search(r"part_2\s*=\s*found_format_modifiers\.begin\(\)->second", so))
        if not out["splitAtLowestIndex"]:
            failures.append("time: _split_timestamp_format_once no longer cuts at the lowest hit of a position-keyed map")
    out["modifiers"] = mods

    # 2. where the fields are recorded
    pp = func_body(src, r"_populate_pre_formatted_string_and_cached_indexes\s*\([^)]*\)\s*\{")
    back = {}
    if pp is None:
        failures.append("time: _populate_pre_formatted_string_and_cached_indexes not found")
    else:
        for m in re.finditer(r'format_part\s*==\s*"%(.)"\s*\)\s*\{\s*_cached_indexes\.emplace_back\(\s*_pre_formatted_ts\.size\(\)\s*-\s*(\d+)\s*,\s*format_type::(\w+)\s*\)', pp):
            back[m.group(3)] = (m.group(1), int(m.group(2)))
        cs = re.search(r"_cached_seconds\s*=\s*static_cast<uint32_t>\((.*?)\);", pp, re.S)
        out["cachedSecondsExpr"] = norm(cs.group(1)) if cs else ""
        if not cs:
            failures.append("time: _cached_seconds initialisation not found")
    # 3. how they are patched
    ft = func_body(src, r"format_timestamp\s*\(\s*time_t\s+timestamp\s*\)\s*\{")
    patch = {}
    out["fallbackCond"] = out["recalcCond"] = ""
    hms = []
    if ft is None:
        failures.append("time: StringFromTime::format_timestamp not found")
    else:
        for m in re.finditer(r'case\s+format_type::(\w+)\s*:\s*fmtquill::format_to\(\s*&_pre_formatted_ts\[index\.first\]\s*,\s*"([^"]*)"\s*,\s*(.*?)\)\s*;\s*break', ft, re.S):
            patch[m.group(1)] = (m.group(2), norm(m.group(3)))
        conds = [norm(c) for c in re.findall(r"\bif\s*\(([^{;]*?)\)\s*\{", ft)]
        out["conds"] = conds
        if conds:
            out["fallbackCond"] = conds[0]
        if len(conds) > 1:
            out["recalcCond"] = conds[1]
        out["emptyReturn"] = bool(re.search(r"if\s*\(\s*_cached_indexes\.empty\(\)\s*\)\s*\{\s*return\s+_pre_formatted_ts\s*;", ft))
        out["sameReturn"] = bool(re.search(r"if\s*\(\s*_cached_timestamp\s*==\s*timestamp\s*\)\s*\{\s*return\s+_pre_formatted_ts\s*;", ft))
        m = re.search(r"hours\s*=\s*total_seconds\s*/\s*(\d+)\s*;\s*total_seconds\s*-=\s*hours\s*\*\s*(\d+)\s*;\s*uint32_t\s+const\s+minutes\s*=\s*total_seconds\s*/\s*(\d+)\s*;\s*total_seconds\s*-=\s*minutes\s*\*\s*(\d+)\s*;", ft)
        if m:
            hms = [int(x) for x in m.groups()]
        else:
            failures.append("time: hours/minutes/seconds decomposition not found")
        out["diffAdd"] = bool(re.search(r"_cached_seconds\s*\+=\s*static_cast<uint32_t>\(timestamp_diff\)", ft)) and \
            bool(re.search(r"timestamp_diff\s*=\s*timestamp\s*-\s*_cached_timestamp", ft))
        if not out["diffAdd"]:
            failures.append("time: `_cached_seconds += timestamp - _cached_timestamp` not found")
        # local → quarter hour, gmt → noon/midnight
        out["recalcLocalGmt"] = bool(re.search(r"LocalTime\s*\)\s*\{\s*_next_recalculation_timestamp\s*=\s*_next_quarter_hour_timestamp\(timestamp\)\s*;\s*\}\s*else\s+if\s*\(\s*_time_zone\s*==\s*Timezone::GmtTime\s*\)\s*\{\s*_next_recalculation_timestamp\s*=\s*_next_noon_or_midnight_timestamp\(timestamp\)", ft))
        if not out["recalcLocalGmt"]:
            failures.append("time: choice of the next recalculation point (local: quarter hour, GMT: noon/midnight) not found")
    table = []
    for c in mods:
        # format_type enumerator has the modifier's own letter
        if c not in back or c not in patch:
            failures.append("time: modifier %%%s has no index rule or no patch case" % c)
            continue
        if back[c][0] != c:
            failures.append("time: format_type::%s is recorded for %%%s" % (c, back[c][0]))
        fill, width = fmt_spec(patch[c][0], failures, "patch %" + c)
        table.append((c, back[c][1], fill, width, patch[c][1]))
    for k in set(back) | set(patch):
        if k not in mods:
            failures.append("time: format_type::%s is handled but %%%s is not searched for" % (k, k))
    out["patchTable"] = table

    # 4./5. init: rejected substring and rewrites
    ini = func_body(src, r"void\s+init\s*\([^)]*\)\s*\{")
    rewrites, rejected = [], []
    if ini is None:
        failures.append("time: StringFromTime::init not found")
    else:
        for m in re.finditer(r'_timestamp_format\.find\("([^"]*)"\)\s*!=\s*std::string::npos\s*\)\s*\{\s*QUILL_THROW', ini):
            rejected.append(m.group(1))
        for m in re.finditer(r'_replace_all\(\s*_timestamp_format\s*,\s*"%(.)"\s*,\s*"([^"]*)"\s*\)', ini):
            rewrites.append((m.group(1), m.group(2)))
        if ini.find("_replace_all") > ini.find("_populate_initial_parts") or ini.find("QUILL_THROW") > ini.find("_replace_all"):
            failures.append("time: order reject → rewrite → split changed in init")
    out["rewrites"], out["rejected"] = rewrites, rejected
    ra = func_body(src, r"_replace_all\s*\([^)]*\)\s*(?:noexcept)?\s*\{")
    out["replaceAllLoop"] = bool(ra and re.search(r"while\s*\(\(pos\s*=\s*str\.find\(old_value\s*,\s*pos\)\)\s*!=\s*std::string::npos\)", ra)
                                 and re.search(r"str\.replace\(pos\s*,\s*old_value\.length\(\)\s*,\s*new_value\)", ra)
                                 and re.search(r"pos\s*\+=\s*new_value\.length\(\)", ra))
    if not out["replaceAllLoop"]:
        failures.append("time: _replace_all is no longer `find from pos / replace / skip the replacement`")

    # 6. quarter hour
    nq = func_body(src, r"_nearest_quarter_hour_timestamp\s*\([^)]*\)\s*(?:noexcept)?\s*\{")
    nx = func_body(src, r"_next_quarter_hour_timestamp\s*\([^)]*\)\s*(?:noexcept)?\s*\{")
    period = 0
    m1 = re.search(r"\(\s*timestamp\s*/\s*(\d+)\s*\)\s*\*\s*(\d+)", nq or "")
    m2 = re.search(r"_nearest_quarter_hour_timestamp\(timestamp\)\s*\+\s*(\d+)", nx or "")
    if m1 and m2 and m1.group(1) == m1.group(2) == m2.group(1):
        period = int(m1.group(1))
    else:
        failures.append("time: quarter-hour arithmetic `(t / P) * P + P` with one P not found")
    out["localPeriod"] = period

    # 7. noon / midnight: the fact that matters is "next boundary = H1:M:S when the hour is < T, else H2:M:S, of the same
    # day, + K s". The statements between gmtime_rs and timegm are *evaluated* for every hour 0..23 (if/else, ?:, locals),
    # so that any shape of the same computation extracts the same table and any change of the boundary changes it.
    nm = func_body(src, r"_next_noon_or_midnight_timestamp\s*\([^)]*\)\s*(?:noexcept)?\s*\{")
    noon, why = _noon_midnight_table(nm)
    if not noon:
        failures.append("time: noon/midnight arithmetic not found (%s)" % why)
    out["noonMidnight"] = noon

    # 9. strftime buffer
    ss = func_body(src, r"_safe_strftime\s*\([^)]*\)\s*\{")
    m = re.search(r"buffer\.resize\((\d+)\)", ss or "")
    m2 = re.search(r"buffer\.resize\(buffer\.size\(\)\s*\*\s*(\d+)\)", ss or "")
    if m and m2:
        out["strftimeBuf"] = [int(m.group(1)), int(m2.group(1))]
    else:
        failures.append("time: _safe_strftime buffer growth not found")
        out["strftimeBuf"] = [0, 0]
    out["emptyFormatGuard"] = bool(ss and re.search(r"format_string\[0\]\s*==\s*'\\0'", ss))

    # 10. TimestampFormatter
    t = strip_cpp_comments(read(repo, TSF))
    m = re.search(r"specifier_name\s*\{([^}]*)\}", t)
    names = re.findall(r'"([^"]*)"', m.group(1)) if m else []
    if not m:
        failures.append("time: specifier_name not found")
    m = re.search(r"specifier_length\s*=\s*(\d+)", t)
    out["specifierLength"] = int(m.group(1)) if m else 0
    fb = func_body(t, r"format_timestamp\s*\(\s*std::chrono::nanoseconds\s+time_since_epoch\s*\)\s*\{")
    frac = []
    if fb is None:
        failures.append("time: TimestampFormatter::format_timestamp not found")
    else:
        m = re.search(r"timestamp_secs\s*=\s*timestamp_ns\s*/\s*([\d']+)", fb)
        m2 = re.search(r"timestamp_ns\s*-\s*\(\s*timestamp_secs\s*\*\s*([\d']+)\s*\)", fb)
        out["nsPerSec"] = num(m.group(1)) if (m and m2 and m.group(1) == m2.group(1)) else 0
        if not out["nsPerSec"]:
            failures.append("time: seconds / sub-second split not found")
        for kind in ("Qms", "Qus", "Qns"):
            mm = re.search(r"AdditionalSpecifier::" + kind + r"\s*\)\s*\{(.*?)_write_fractional_seconds\((\w+)\)", fb, re.S)
            if not mm:
                failures.append("time: branch for %s not found" % kind)
                continue
            z = re.search(r'zeros\{"(0*)"\}', mm.group(1))
            d = re.search(mm.group(2) + r"\s*=\s*extracted_ns\s*/\s*([\d']+)", mm.group(1))
            div = num(d.group(1)) if d else (1 if mm.group(2) == "extracted_ns" else 0)
            idx = ["", "Qms", "Qus", "Qns"].index(kind)
            nm_ = names[idx] if idx < len(names) else "?"
            frac.append((nm_, len(z.group(1)) if z else 0, div))
    out["fracTable"] = frac
    wf = func_body(t, r"_write_fractional_seconds\s*\([^)]*\)\s*\{")
    out["fracRightAligned"] = bool(wf and re.search(r"&_formatted_date\[\s*_formatted_date\.size\(\)\s*-\s*extracted_ms_string\.size\(\)\s*\]", wf)
                                   and re.search(r"format_int\s+const\s+extracted_ms_string\{extracted_fractional_seconds\}", wf))
    ctor = func_body(t, r"explicit\s+TimestampFormatter\s*\([^)]*\)\s*:[^{]*\{")
    out["exclusiveThrows"] = len(re.findall(r"if\s*\(\s*specifier_begin\s*!=\s*std::string::npos\s*\)\s*\{\s*QUILL_THROW", ctor or ""))
    order = re.findall(r"_time_format\.find\(specifier_name\[AdditionalSpecifier::(\w+)\]\)", ctor or "")
    out["searchOrder"] = order
    # F21 repair: after the split, the constructor throws when part 2 still contains a fractional specifier
    # (between the initialisation of part 1 and that of part 2)
    rr = False
    if ctor:
        m = re.search(r"if\s*\(((?:[^{}]|\n)*?)\)\s*\{\s*QUILL_THROW\(QuillError\{\"[^\"]*only once[^\"]*\"\}\)", ctor)
        if m:
            kinds = set(re.findall(r"format_part_2\.find\(specifier_name\[AdditionalSpecifier::(\w+)\]\)\s*!=\s*std::string::npos", m.group(1)))
            pos = m.start()
            p1 = ctor.find("_strftime_part_1.init(format_part_1")
            p2 = ctor.find("_strftime_part_2.init(format_part_2")
            if kinds == {"Qms", "Qus", "Qns"} and "&&" not in m.group(1) and 0 <= p1 < pos < p2:
                rr = True
            else:
                failures.append("time: the repeated-specifier check of the constructor is there but not in the expected form (%s)" % sorted(kinds))
    out["rejectsRepeatedSpecifier"] = rr

    L = []
    L.append("/-- the array `_split_timestamp_format_once` searches for -/")
    L.append("def modifierTable : List Char := [%s]" % ", ".join(lean_char(c) for c in mods))
    L.append("/-- (modifier, distance of the field from the end of the appended text, fill, width) -/")
    L.append("def patchTable : List (Char × Nat × Char × Nat) := [%s]" % ", ".join(
        "(%s, %d, %s, %d)" % (lean_char(c), b, lean_char(f), w) for c, b, f, w, _ in table))
    L.append("/-- (modifier, argument of the patching `format_to`, blanks removed) -/")
    L.append("def patchArgs : List (Char × String) := [%s]" % ", ".join("(%s, %s)" % (lean_char(c), lean_str(a)) for c, _, _, _, a in table))
    L.append("def splitAtLowestIndex : Bool := %s" % lean_bool(out.get("splitAtLowestIndex", False)))
    L.append("def rewriteTable : List (Char × String) := [%s]" % ", ".join("(%s, %s)" % (lean_char(c), lean_str(n)) for c, n in rewrites))
    L.append("def replaceAllLoop : Bool := %s" % lean_bool(out.get("replaceAllLoop", False)))
    L.append("def rejectedTable : List String := [%s]" % ", ".join(lean_str(r) for r in rejected))
    L.append("def localPeriod : Nat := %d" % period)
    L.append("def noonMidnightTable : List Nat := [%s]" % ", ".join(str(x) for x in noon))
    L.append("def hmsDivisors : List Nat := [%s]" % ", ".join(str(x) for x in hms))
    L.append("def cachedSecondsExpr : String := %s" % lean_str(out.get("cachedSecondsExpr", "")))
    L.append("def fallbackCond : String := %s" % lean_str(out["fallbackCond"]))
    L.append("def recalcCond : String := %s" % lean_str(out["recalcCond"]))
    L.append("def emptyIndexReturn : Bool := %s" % lean_bool(out.get("emptyReturn", False)))
    L.append("def sameTimestampReturn : Bool := %s" % lean_bool(out.get("sameReturn", False)))
    L.append("def strftimeBuf : Nat × Nat := (%d, %d)" % tuple(out["strftimeBuf"]))
    L.append("def emptyFormatGuard : Bool := %s" % lean_bool(out["emptyFormatGuard"]))
    L.append("/-- (specifier, number of zeros appended, divisor applied to the nanoseconds) -/")
    L.append("def fracTable : List (String × Nat × Nat) := [%s]" % ", ".join("(%s, %d, %d)" % (lean_str(n), z, d) for n, z, d in frac))
    L.append("def fracSearchOrder : List String := [%s]" % ", ".join(lean_str(o) for o in order))
    L.append("def specifierLength : Nat := %d" % out["specifierLength"])
    L.append("def nsPerSec : Nat := %d" % out.get("nsPerSec", 0))
    L.append("def fracRightAligned : Bool := %s" % lean_bool(out["fracRightAligned"]))
    L.append("def exclusiveThrows : Nat := %d" % out["exclusiveThrows"])
    L.append("/-- the constructor throws when the text after the split still contains a fractional specifier (F21 repair) -/")
    L.append("def rejectsRepeatedSpecifier : Bool := %s" % lean_bool(out["rejectsRepeatedSpecifier"]))
    return out, "\n".join(L)


FALLBACK = ({"localPeriod": 900}, "def localPeriod : Nat := 0")
