"""Integer/bit arithmetic section of the extraction (C01, C02, C03): the literal shape of `is_power_of_two`,
`max_power_of_two`, `next_power_of_two` (MathUtilities.h) and of the constructors / doubling loops that consume them
(BoundedSPSCQueue.h, UnboundedSPSCQueue.h, TransitEventBuffer.h). `lean/QuillModel/MathUtil/Model.lean` is written
for exactly these shapes; `Obligations/MathUtilC0{1,2,3}.lean` re-prove by `decide` that the extracted values are the
ones the model uses. Constructs that cannot be found are listed per area (`mathMissing…`) so that a change in the
transit buffer is C03's broken tie, not C01's."""
import re

from extract import read, strip_cpp_comments, func_body, lean_bool, lean_str

IMPORTS = []


def nows(s):
    return re.sub(r"\s+", "", s or "")


def extract(repo, failures):
    d = {}
    miss = {"common": [], "bounded": [], "unbounded": [], "transit": []}

    # ---------------------------------------------------------------- MathUtilities.h
    mu = strip_cpp_comments(read(repo, "include/quill/core/MathUtilities.h"))
    ip = func_body(mu, r"bool\s+is_power_of_two\s*\(\s*uint64_t\s+number\s*\)\s*(?:noexcept)?\s*\{")
    e = ""
    if ip is None:
        miss["common"].append("is_power_of_two(uint64_t number) not found")
    else:
        m = re.search(r"return\s*(.*?);", ip, re.S)
        e = nows(m.group(1)) if m else ""
        if not m:
            miss["common"].append("is_power_of_two: return expression not found")
    d["ip2Expr"] = e
    d["ip2NonzeroGuard"] = bool(re.search(r"number!=0|0!=number|number>0", e))
    d["ip2BitTrick"] = bool(re.search(r"\(?number&\(number-1(?:u|ul|ull)?\)\)?==0", e))
    d["ip2Conjunction"] = e.count("&&") == 1 and "||" not in e
    mp = func_body(mu, r"constexpr\s+T\s+max_power_of_two\s*\(\s*\)\s*(?:noexcept)?\s*\{")
    mm = re.search(r"return\s*\(\s*std::numeric_limits<T>::max\(\)\s*>>\s*(\d+)\s*\)\s*\+\s*(\d+)\s*;", mp or "")
    if not mm:
        miss["common"].append("max_power_of_two: `return (numeric_limits<T>::max() >> 1) + 1;` not found")
    d["maxShift"] = int(mm.group(1)) if mm else 0
    d["maxAdd"] = int(mm.group(2)) if mm else 0
    np_ = func_body(mu, r"T\s+next_power_of_two\s*\(\s*T\s+n\s*\)\s*(?:noexcept)?\s*\{")
    sat = re.search(r"if\s*\(\s*n\s*(>=|>|==|<=|<)\s*max_power_of_2\s*\)\s*\{?\s*return\s+max_power_of_2\s*;", np_ or "")
    if not sat:
        miss["common"].append("next_power_of_two: saturation `if (n >= max_power_of_2) return max_power_of_2;` not found")
    d["satOp"] = sat.group(1) if sat else "?"
    d["satStrict"] = bool(sat and sat.group(1) == ">")
    d["satConstFromMax"] = bool(re.search(r"constexpr\s+T\s+max_power_of_2\s*=\s*max_power_of_two<T>\(\)\s*;", np_ or ""))
    early = re.search(r"if\s*\(\s*is_power_of_two\s*\(\s*static_cast<uint64_t>\s*\(\s*n\s*\)\s*\)\s*\)\s*\{?\s*return\s+n\s*;", np_ or "")
    d["earlyReturnPow2"] = bool(early)
    lp = re.search(r"T\s+result\s*=\s*(\d+)\s*;\s*while\s*\(\s*result\s*(<=|<|!=)\s*n\s*\)\s*\{?\s*result\s*<<=\s*(\d+)\s*;\s*\}?", np_ or "")
    if not lp:
        miss["common"].append("next_power_of_two: loop `T result = 1; while (result < n) result <<= 1;` not found")
    d["loopInit"] = int(lp.group(1)) if lp else 0
    d["loopCmp"] = lp.group(2) if lp else "?"
    d["loopLe"] = bool(lp and lp.group(2) == "<=")
    d["loopShift"] = int(lp.group(3)) if lp else 0
    d["returnsResult"] = bool(re.search(r"return\s+result\s*;", np_ or ""))
    # order of the three parts: saturation, early return, loop
    d["orderOK"] = bool(sat and early and lp and sat.start() < early.start() < lp.start())

    # ---------------------------------------------------------------- BoundedSPSCQueue.h
    bq = strip_cpp_comments(read(repo, "include/quill/core/BoundedSPSCQueue.h"))
    m0 = re.search(r"explicit\s+BoundedSPSCQueueImpl\s*\(", bq)
    ini = nows(bq[m0.start():m0.start() + 1400]) if m0 else ""
    if not m0:
        miss["bounded"].append("BoundedSPSCQueueImpl constructor not found")
    # two accepted shapes: the pinned `_capacity(next_power_of_two(capacity))` (never rejects: finding F32) and the repaired
    # `_capacity(_checked_capacity(capacity))` whose helper rounds with next_power_of_two and throws when twice the result does
    # not fit in 64 bits
    old_shape = "_capacity(next_power_of_two(capacity))" in ini
    new_shape = "_capacity(_checked_capacity(capacity))" in ini
    cc = func_body(bq, r"integer_type\s+_checked_capacity\s*\(\s*integer_type\s+capacity\s*\)\s*\{")
    ccn = nows(cc)
    cc_rounds = bool(re.search(r"integer_typeconst(\w+)=next_power_of_two\(capacity\);", ccn))
    cc_var = re.search(r"integer_typeconst(\w+)=next_power_of_two\(capacity\);", ccn)
    v = cc_var.group(1) if cc_var else "c"
    cc_guard = bool(re.search(r"if\(static_cast<uint64_t>\(" + v + r"\)>\(std::numeric_limits<uint64_t>::max\(\)>>1u?\)\)\{?QUILL_THROW\(QuillError", ccn))
    cc_ret = bool(re.search(r"return" + v + r";\}?$", ccn))
    if new_shape and not (cc_rounds and cc_guard and cc_ret):
        miss["bounded"].append("_checked_capacity: `c = next_power_of_two(capacity); if (uint64_t(c) > (max<uint64_t>() >> 1)) throw; return c;` not found")
    d["bCapacityFromNextPow2"] = old_shape or (new_shape and cc_rounds and cc_ret)
    d["ctorRejectsOversized"] = bool(new_shape and cc_rounds and cc_guard and cc_ret)
    mk = re.search(r"_mask\(_capacity(?:-(\d+)(?:u|ul|ull)?)?\)", ini)
    if not mk:
        miss["bounded"].append("constructor: `_mask(_capacity - 1)` not found")
    d["bMaskMinus"] = int(mk.group(1)) if mk and mk.group(1) else 0
    al = re.search(r"_alloc_aligned\((\d+)ull\*static_cast<uint64_t>\(_capacity\),", ini)
    if not al:
        miss["bounded"].append("constructor: `_alloc_aligned(2ull * static_cast<uint64_t>(_capacity), …)` not found")
    d["bAllocFactor"] = int(al.group(1)) if al else 0
    ms = re.search(r"memset\(_storage,0,(\d+)ull\*static_cast<uint64_t>\(_capacity\)\)", ini)
    d["bMemsetFactor"] = int(ms.group(1)) if ms else 0
    bt = re.search(r"_bytes_per_batch\(static_cast<integer_type>\(static_cast<double>\(_capacity\*reader_store_percent\)/(\d+)(?:\.0)?\)\)", ini)
    if not bt:
        miss["bounded"].append("constructor: `_bytes_per_batch(static_cast<integer_type>(static_cast<double>(_capacity * reader_store_percent) / 100.0))` not found")
    d["bBatchDiv"] = int(bt.group(1)) if bt else 0
    xg = re.search(r"if\(_capacity<(\d+)\)\{?QUILL_THROW", ini)
    d["bX86MinCapacity"] = int(xg.group(1)) if xg else 0
    d["bWriteOffsetMasked"] = bool(re.search(r"return\s+_storage\s*\+\s*\(\s*_writer_pos\s*&\s*_mask\s*\)\s*;", bq))
    d["bReadOffsetMasked"] = bool(re.search(r"return\s+_storage\s*\+\s*\(\s*_reader_pos\s*&\s*_mask\s*\)\s*;", bq))
    # order of the members: `_mask` is initialised from `_capacity`, so `_capacity` must be declared first
    dc = re.search(r"integer_type\s+const\s+_capacity\s*;", bq)
    dm = re.search(r"integer_type\s+const\s+_mask\s*;", bq)
    d["bCapacityDeclaredBeforeMask"] = bool(dc and dm and dc.start() < dm.start())

    # ---------------------------------------------------------------- UnboundedSPSCQueue.h
    uq = strip_cpp_comments(read(repo, "include/quill/core/UnboundedSPSCQueue.h"))
    hf = func_body(uq, r"std::byte\s*\*\s*_handle_full_queue\s*\(\s*size_t\s+nbytes\s*\)\s*\{")
    h1 = re.search(r"size_t\s+capacity\s*=\s*_producer->bounded_queue\.capacity\(\)\s*\*\s*(\d+)(?:u|ul|ull)?\s*;", hf or "")
    h2 = re.search(r"while\s*\(\s*capacity\s*(<=|<)\s*nbytes\s*\)\s*\{?\s*capacity\s*=\s*capacity\s*\*\s*(\d+)(?:u|ul|ull)?\s*;", hf or "")
    if not h1 or not h2:
        miss["unbounded"].append("_handle_full_queue: `size_t capacity = capacity() * 2ull; while (capacity < nbytes) capacity = capacity * 2ull;` not found")
    d["uFirstFactor"] = int(h1.group(1)) if h1 else 0
    d["uLoopCmp"] = h2.group(1) if h2 else "?"
    d["uLoopFactor"] = int(h2.group(2)) if h2 else 0
    d["uNodeFromCapacity"] = bool(re.search(r"new\s+Node\s*\{\s*capacity\s*,", hf or ""))
    sh = func_body(uq, r"void\s+shrink\s*\(\s*size_t\s+capacity\s*\)\s*\{")
    s1 = re.search(r"if\s*\(\s*capacity\s*(>=|>)\s*\(\s*_producer->bounded_queue\.capacity\(\)\s*>>\s*(\d+)\s*\)\s*\)\s*\{?\s*return\s*;", sh or "")
    if not s1:
        miss["unbounded"].append("shrink: `if (capacity > (capacity() >> 1)) return;` not found")
    d["uShrinkCmp"] = s1.group(1) if s1 else "?"
    d["uShrinkShift"] = int(s1.group(2)) if s1 else 0
    d["uShrinkNodeFromCapacity"] = bool(re.search(r"new\s+Node\s*\{\s*capacity\s*,", sh or ""))
    d["uNodeCtorForwards"] = bool(re.search(r":\s*bounded_queue\s*\(\s*bounded_queue_capacity\s*,", uq))
    d["uCtorNodeFromInitial"] = bool(re.search(r"_producer\s*\(\s*new\s+Node\s*\(\s*initial_bounded_queue_capacity\s*,", uq))

    # ---------------------------------------------------------------- TransitEventBuffer.h
    tb = strip_cpp_comments(read(repo, "include/quill/backend/TransitEventBuffer.h"))
    t0 = re.search(r"explicit\s+TransitEventBuffer\s*\(", tb)
    tin = nows(tb[t0.start():t0.start() + 500]) if t0 else ""
    if not t0:
        miss["transit"].append("TransitEventBuffer constructor not found")
    d["tInitialFromNextPow2"] = "_initial_capacity(next_power_of_two(initial_capacity))" in tin
    d["tCapacityFromInitial"] = "_capacity(_initial_capacity)" in tin
    tm = re.search(r"_mask\(_capacity(?:-(\d+)(?:u|ul|ull)?)?\)", tin)
    d["tMaskMinus"] = int(tm.group(1)) if tm and tm.group(1) else 0
    d["tStorageOfCapacity"] = "make_unique<TransitEvent[]>(_capacity)" in tin
    ex = func_body(tb, r"void\s+_expand\s*\(\s*\)\s*\{")
    if ex is None:
        miss["transit"].append("_expand not found")
        ex = ""
    en = re.search(r"size_t\s+const\s+new_capacity\s*=\s*_capacity\s*\*\s*(\d+)\s*;", ex)
    d["tExpandFactor"] = int(en.group(1)) if en else 0
    mv = re.search(r"new_storage\s*\[\s*i\s*\]\s*=\s*std::move\s*\(\s*_storage\s*\[\s*\(\s*_reader_pos\s*\+\s*i\s*\)\s*&\s*_mask\s*\]\s*\)", ex)
    ca = re.search(r"_capacity\s*=\s*new_capacity\s*;", ex)
    ma = re.search(r"_mask\s*=\s*_capacity\s*(?:-\s*(\d+)(?:u|ul|ull)?\s*)?;", ex)
    # the move loop reads the OLD storage with the OLD mask (before the reassignment); the new mask is computed from the NEW capacity
    d["tExpandMovesWithOldMask"] = bool(mv and ma and mv.start() < ma.start())
    d["tExpandMaskFromNewCapacity"] = bool(ca and ma and ca.start() < ma.start())
    d["tExpandMaskMinus"] = int(ma.group(1)) if ma and ma.group(1) else 0
    d["tExpandResetsPositions"] = bool(re.search(r"_writer_pos\s*=\s*current_size\s*;", ex) and re.search(r"_reader_pos\s*=\s*0\s*;", ex))
    ts = func_body(tb, r"void\s+try_shrink\s*\(\s*\)\s*\{") or ""
    sc = re.search(r"_capacity\s*=\s*_initial_capacity\s*;", ts)
    sm = re.search(r"_mask\s*=\s*_capacity\s*(?:-\s*(\d+)(?:u|ul|ull)?\s*)?;", ts)
    d["tShrinkMaskFromNewCapacity"] = bool(sc and sm and sc.start() < sm.start())
    d["tShrinkMaskMinus"] = int(sm.group(1)) if sm and sm.group(1) else 0
    d["tFrontMasked"] = bool(re.search(r"return\s*&\s*_storage\s*\[\s*_reader_pos\s*&\s*_mask\s*\]\s*;", tb))
    d["tBackMasked"] = bool(re.search(r"return\s*&\s*_storage\s*\[\s*_writer_pos\s*&\s*_mask\s*\]\s*;", tb))
    d["tSizeIsDifference"] = bool(re.search(r"return\s+_writer_pos\s*-\s*_reader_pos\s*;", tb))
    d["tFullTest"] = bool(re.search(r"if\s*\(\s*_capacity\s*==\s*size\s*\(\s*\)\s*\)", tb))
    pt = re.search(r"(size_t|uint64_t|uint32_t|uint16_t)\s+_reader_pos\s*\{\s*0\s*\}\s*;\s*(size_t|uint64_t|uint32_t|uint16_t)\s+_writer_pos\s*\{\s*0\s*\}\s*;", tb)
    bits = {"size_t": 64, "uint64_t": 64, "uint32_t": 32, "uint16_t": 16}
    if not pt:
        miss["transit"].append("declared type of _reader_pos / _writer_pos not found")
    d["tPosBits"] = bits.get(pt.group(1), 0) if pt and pt.group(1) == pt.group(2) else 0
    ct = re.search(r"(size_t|uint64_t|uint32_t|uint16_t)\s+_capacity\s*;", tb)
    d["tCapBits"] = bits.get(ct.group(1), 0) if ct else 0
    d["missing"] = miss

    L = ["/-- literal shapes found in MathUtilities.h, BoundedSPSCQueue.h, UnboundedSPSCQueue.h, TransitEventBuffer.h -/"]
    for k, v in d.items():
        if k == "missing":
            continue
        name = "math" + k[0].upper() + k[1:]
        if isinstance(v, bool):
            L.append("def %s : Bool := %s" % (name, lean_bool(v)))
        elif isinstance(v, int):
            L.append("def %s : Nat := %d" % (name, v))
        else:
            L.append("def %s : String := %s" % (name, lean_str(v)))
    for area in ("common", "bounded", "unbounded", "transit"):
        L.append("def mathMissing%s : List String := [%s]" % (area.capitalize(), ", ".join(lean_str(x) for x in miss[area])))
    return d, "\n".join(L)
