"""Codec section of the extraction (C04, C11): size-cache geometry, record framing, the container table of
quill/std/*.h (size prefix, arithmetic shortcuts and their predicates, cached element count), the cache-clearing rule,
the printable-character predicate and the escape format, MacroMetadata::Event kinds, formatter calls of the two
user-type codecs."""
import re

from extract import read, strip_cpp_comments, func_body, body_after, lean_bool, lean_str

IMPORTS = ["QuillModel.Codec.Model"]

# container family -> (header, regex that finds the `struct Codec<...>` specialisation)
CONTAINERS = [
    ("vector", "include/quill/std/Vector.h", r"struct\s+Codec<\s*std::vector<"),
    ("deque", "include/quill/std/Deque.h", r"struct\s+Codec<\s*std::deque<"),
    ("list", "include/quill/std/List.h", r"struct\s+Codec<\s*std::list<"),
    ("forward_list", "include/quill/std/ForwardList.h", r"struct\s+Codec<\s*std::forward_list<"),
    ("set", "include/quill/std/Set.h", r"struct\s+Codec<\s*SetType<"),
    ("unordered_set", "include/quill/std/UnorderedSet.h", r"struct\s+Codec<\s*UnorderedSetType<"),
    ("map", "include/quill/std/Map.h", r"struct\s+Codec<\s*MapType<"),
    ("unordered_map", "include/quill/std/UnorderedMap.h", r"struct\s+Codec<\s*UnorderedMapType<"),
    ("array", "include/quill/std/Array.h", r"struct\s+Codec<\s*std::array<"),
    ("carray", "include/quill/std/Array.h", r"struct\s+Codec<\s*T\[N\]"),
]


def struct_body(src, pattern):
    m = re.search(pattern, src)
    if not m:
        return None
    try:
        return body_after(src, m.end())
    except ValueError:
        return None


def named_body(src, pattern):
    """body of the function whose declaration starts with `pattern` (parameter lists may contain parentheses)"""
    m = re.search(pattern, src)
    if not m:
        return None
    try:
        return body_after(src, m.end())
    except ValueError:
        return None


def if_constexpr_cond(body):
    """condition text of the first `if constexpr (...)` of a function body (balanced parentheses), or None"""
    m = re.search(r"if\s+constexpr\s*\(", body)
    if not m:
        return None
    i = m.end()
    depth = 1
    j = i
    while j < len(body) and depth:
        if body[j] == "(":
            depth += 1
        elif body[j] == ")":
            depth -= 1
        j += 1
    return body[i:j - 1]


def traits_of(cond):
    """[(trait, type-argument)] of a shortcut condition such as disjunction_v<is_arithmetic<T>, is_enum<T>>"""
    return re.findall(r"std::(is_\w+)\s*<\s*([A-Za-z_][\w:]*)\s*>", cond or "")


def container_info(repo, name, rel, pattern, failures):
    src = strip_cpp_comments(read(repo, rel))
    # drop the Windows-only wide string branches so that they cannot be mistaken for the generic code
    src = re.sub(r"#if defined\(_WIN32\).*?#endif", "", src, flags=re.S)
    sb = struct_body(src, pattern)
    info = dict(hasPrefix=False, fastSize=False, fastEncode=False, pushCount=False, mapLike=name in ("map", "unordered_map"),
                pairTemp=False, sizeTraits=[], encodeTraits=[])
    if sb is None:
        failures.append("std codec %s: specialisation not found in %s" % (name, rel))
        return info
    size_b = named_body(sb, r"static\s+size_t\s+compute_encoded_size\s*\(")
    enc_b = named_body(sb, r"static\s+void\s+encode\s*\(")
    dec_b = named_body(sb, r"static\s+auto\s+decode_arg\s*\(")
    if size_b is None or enc_b is None or dec_b is None:
        failures.append("std codec %s: compute_encoded_size/encode/decode_arg not found" % name)
        return info
    pre_size = bool(re.search(r"total_size\s*\{\s*sizeof\(size_t\)\s*\}", size_b))
    pre_enc = bool(re.search(r"Codec<size_t>::encode\s*\(", enc_b))
    pre_dec = bool(re.search(r"Codec<size_t>::decode_arg\s*\(", dec_b))
    if not (pre_size == pre_enc == pre_dec):
        failures.append("std codec %s: element-count prefix inconsistent (size=%s encode=%s decode=%s)" % (
            name, pre_size, pre_enc, pre_dec))
    info["hasPrefix"] = pre_size
    cs = if_constexpr_cond(size_b)
    ce = if_constexpr_cond(enc_b)
    info["fastSize"] = cs is not None and re.search(
        r"\(?\s*sizeof\(\w+\)\s*(?:\+\s*sizeof\(\w+\)\s*\))?\s*\*\s*(?:arg\.size\(\)|N\b)", size_b) is not None
    info["fastEncode"] = ce is not None and re.search(
        r"memcpy\([^;]*sizeof\(\w+\)\s*\*\s*(?:arg\.size\(\)|N)\s*\)", enc_b) is not None
    info["sizeTraits"] = traits_of(cs) if info["fastSize"] else []
    info["encodeTraits"] = traits_of(ce) if info["fastEncode"] else []
    push = bool(re.search(r"conditional_arg_size_cache\s*\.\s*push_back\s*\(", size_b))
    assign = bool(re.search(r"conditional_arg_size_cache\s*\.\s*assign\s*\(", size_b))
    readback = bool(re.search(r"conditional_arg_size_cache\s*\[\s*conditional_arg_size_cache_index\s*\+\+\s*\]", enc_b))
    # the element count goes through the size cache either as placeholder + assign (forward_list, which has no size())
    # or as one push of a count known up front; either way the encode pass must read back exactly what was pushed.
    # Whether a family *should* take a slot is C11's business (obligation alloc_count_slots), not a broken tie.
    if push != readback or (assign and not push):
        failures.append("std codec %s: cached element count inconsistent (push=%s assign=%s read=%s)" % (
            name, push, assign, readback))
    info["pushCount"] = push
    # finding F16: `elem` (a pair<const Key,T>) handed to Codec<std::pair<Key,T>> => converting copy in each pass
    info["pairTemp"] = bool(re.search(r"Codec<std::pair<Key,\s*T>>::compute_encoded_size\([^;]*\belem\)", size_b) or
                            re.search(r"Codec<std::pair<Key,\s*T>>::encode\([^;]*\belem\)", enc_b))
    if info["mapLike"] and not info["pairTemp"]:
        # repaired form: key and mapped value encoded by their own codecs, in this order, in both passes
        ok_size = re.search(r"Codec<Key>::compute_encoded_size\([^;]*elem\.first\).*Codec<T>::compute_encoded_size\([^;]*elem\.second\)", size_b, re.S)
        ok_enc = re.search(r"Codec<Key>::encode\([^;]*elem\.first\).*Codec<T>::encode\([^;]*elem\.second\)", enc_b, re.S)
        if not (ok_size and ok_enc):
            failures.append("std codec %s: element encoding not recognised (neither Codec<pair<Key,T>>(elem) nor Codec<Key>(first); Codec<T>(second))" % name)
    return info


def extract(repo, failures):
    out = {}
    # ---- InlinedVector -------------------------------------------------------------------------------
    iv = strip_cpp_comments(read(repo, "include/quill/core/InlinedVector.h"))
    m = re.search(r"using\s+SizeCacheVector\s*=\s*InlinedVector<\s*(\w+)\s*,\s*(\d+)\s*>", iv)
    if m:
        out["cacheElem"] = m.group(1)
        out["cacheInlineCap"] = int(m.group(2))
    else:
        failures.append("InlinedVector.h: SizeCacheVector alias not found")
        out["cacheElem"], out["cacheInlineCap"] = "uint32_t", 0
    pb = func_body(iv, r"value_type\s+push_back\s*\(\s*value_type\s+value\s*\)\s*\{")
    g = re.search(r"new_capacity\s*=\s*_capacity\s*\*\s*(\d+)", pb or "")
    if g and re.search(r"if\s*\(\s*_size\s*==\s*_capacity\s*\)", pb):
        out["cacheGrowthFactor"] = int(g.group(1))
    else:
        # relevant to C11 only: no extraction failure (which would break every check), the neutral value breaks
        # Obligations.alloc_cache_geometry instead
        out["cacheGrowthFactor"] = 0
    out["cacheGrowAllocs"] = len(re.findall(r"\bnew\s+value_type\s*\[", pb or ""))
    clr = re.search(r"void\s+clear\s*\(\s*\)\s*(?:noexcept)?\s*\{([^}]*)\}", iv)
    out["clearKeepsCapacity"] = bool(clr and re.sub(r"\s", "", clr.group(1)) == "_size=0;")

    # ---- log_statement framing -----------------------------------------------------------------------
    lg = strip_cpp_comments(read(repo, "include/quill/Logger.h"))
    ls = func_body(lg, r"bool\s+log_statement\s*\([^)]*\)\s*\{")
    frame = dict(tsBytes=0, ptrBytes=8, nPtrs=0, lvlBytes=0)
    facts = dict(lvlCounted=False, lvlWritten=False, lvlRead=False, hdrPtrsWritten=0, hdrPtrsRead=0,
                 sameSizeReservedCommitted=False)
    if ls is None:
        failures.append("Logger.h: log_statement not found")
        ls = ""
    m = re.search(r"total_size\s*=\s*sizeof\(current_timestamp\)\s*\+\s*\(\s*sizeof\(uintptr_t\)\s*\*\s*(\d+)\s*\)\s*\+\s*"
                  r"detail::compute_encoded_size_and_cache_string_lengths", ls)
    ts_t = re.search(r"(uint\d+_t)\s+current_timestamp\s*;", ls)
    if m and ts_t:
        frame["nPtrs"] = int(m.group(1))
        frame["tsBytes"] = int(re.search(r"\d+", ts_t.group(1)).group(0)) // 8
    else:
        failures.append("Logger.h: header size formula `sizeof(current_timestamp) + (sizeof(uintptr_t) * k) + …` not found")
    facts["lvlCounted"] = bool(re.search(
        r"if\s+constexpr\s*\(\s*has_dynamic_log_level\s*\)\s*\{\s*total_size\s*\+=\s*sizeof\(dynamic_log_level\)\s*;", ls))
    facts["lvlWritten"] = bool(re.search(
        r"if\s+constexpr\s*\(\s*has_dynamic_log_level\s*\)\s*\{\s*std::memcpy\(write_buffer,\s*&dynamic_log_level,\s*"
        r"sizeof\(dynamic_log_level\)\);\s*write_buffer\s*\+=\s*sizeof\(dynamic_log_level\)\s*;", ls))
    facts["sameSizeReservedCommitted"] = bool(
        re.search(r"_prepare_write_buffer\(total_size\)", ls) and re.search(r"finish_and_commit_write\(total_size\)", ls))
    eh = func_body(lg, r"std::byte\*\s+_encode_header\s*\([^)]*\)\s*(?:noexcept)?\s*\{")
    if eh is None:
        failures.append("Logger.h: _encode_header not found")
        eh = ""
    facts["hdrPtrsWritten"] = len(re.findall(r"write_buffer\s*\+=\s*sizeof\(uintptr_t\)", eh))
    if not re.search(r"write_buffer\s*\+=\s*sizeof\(timestamp\)", eh):
        failures.append("Logger.h: _encode_header does not advance by sizeof(timestamp)")
    ll = strip_cpp_comments(read(repo, "include/quill/core/LogLevel.h"))
    m = re.search(r"enum\s+class\s+LogLevel\s*:\s*(u?int(\d+)_t)", ll)
    if m:
        frame["lvlBytes"] = int(m.group(2)) // 8
    else:
        failures.append("LogLevel.h: underlying type of LogLevel not found")

    bw = strip_cpp_comments(read(repo, "include/quill/backend/BackendWorker.h"))
    pt = func_body(bw, r"bool\s+_populate_transit_event_from_frontend_queue\s*\([^)]*\)\s*\{")
    if pt is None:
        failures.append("BackendWorker.h: _populate_transit_event_from_frontend_queue not found")
        pt = ""
    facts["hdrPtrsRead"] = len(re.findall(
        r"read_pos\s*\+=\s*sizeof\((?:transit_event->macro_metadata|transit_event->logger_base|format_args_decoder)\)", pt))
    facts["lvlRead"] = bool(re.search(
        r"log_level\(\)\s*==\s*LogLevel::Dynamic\s*\)\s*\{\s*std::memcpy\(&transit_event->dynamic_log_level,\s*read_pos,\s*"
        r"sizeof\(transit_event->dynamic_log_level\)\);\s*read_pos\s*\+=\s*sizeof\(transit_event->dynamic_log_level\)", pt))
    if not re.search(r"format_args_decoder\(read_pos,\s*_format_args_store\)", pt):
        failures.append("BackendWorker.h: arguments are no longer decoded through the stored function pointer")
    unformatted = re.findall(r"event\(\)\s*!=\s*MacroMetadata::Event::(\w+)", pt.split("format_args_decoder(read_pos")[0])
    out["frame"] = frame
    out["framing"] = facts
    out["unformattedEvents"] = unformatted

    # ---- MacroMetadata::Event ------------------------------------------------------------------------
    mm = strip_cpp_comments(read(repo, "include/quill/core/MacroMetadata.h"))
    m = re.search(r"enum\s+Event\s*:\s*\w+\s*\{([^}]*)\}", mm)
    out["macroEvents"] = [x.strip() for x in m.group(1).split(",") if x.strip()] if m else []
    if not m:
        failures.append("MacroMetadata.h: enum Event not found")

    # ---- cache clearing rule -------------------------------------------------------------------------
    cd = strip_cpp_comments(read(repo, "include/quill/core/Codec.h"))
    cs = func_body(cd, r"size_t\s+compute_encoded_size_and_cache_string_lengths\s*\([^)]*\)\s*\{")
    exempt = []
    clears = False
    if cs is None:
        failures.append("Codec.h: compute_encoded_size_and_cache_string_lengths not found")
    else:
        cond = if_constexpr_cond(cs)
        if cond and cond.strip().startswith("!std::conjunction_v"):
            for tr, arg in re.findall(r"(?:std::)?(is_\w+)\s*<\s*remove_cvref_t<Args>\s*(?:,\s*([^>]+))?>", cond):
                exempt.append(tr + (":" + arg.strip() if arg else ""))
        # (no such condition: `clearExempt` stays empty and `clearsCache` false — obligation codec_clear_rule breaks;
        #  not an extraction failure, which would alarm every property)
        clears = bool(re.search(r"\)\s*\{\s*conditional_arg_size_cache\.clear\(\);\s*\}", cs))
    out["clearExempt"] = exempt
    out["clearsCache"] = clears
    # the clear() sits at the START of the size pass: before the accumulator and before any argument is sized
    # (a statement dropped between the two passes must leave nothing behind: C04_drop_leaves_nothing)
    at_start = False
    if cs is not None and clears:
        i_clear = cs.find("conditional_arg_size_cache.clear()")
        firsts = [i for i in (cs.find("total_sum"), cs.find("compute_encoded_size(")) if i >= 0]
        at_start = bool(firsts) and 0 <= i_clear < min(firsts)
    out["clearAtStart"] = at_start
    em = re.search(r"void\s+encode\s*\(\s*std::byte\*&\s*buffer,\s*(?:QUILL_MAYBE_UNUSED\s+)?SizeCacheVector\s*(const)?\s*&\s*"
                   r"conditional_arg_size_cache,\s*Args\s+const&\.\.\.\s*args\s*\)\s*\{", cd)
    enc_all = None
    if em:
        try:
            enc_all = body_after(cd, em.end() - 1)
        except ValueError:
            enc_all = None
    out["encodeStartsAtZero"] = bool(enc_all and re.search(r"conditional_arg_size_cache_index\s*\{\s*0\s*\}", enc_all))
    # the encode pass only reads the cache: `const&` parameter, no clear()/push_back()/assign() in its body
    out["encodeCacheConst"] = bool(em and em.group(1))
    out["encodeMutatesCache"] = bool(enc_all is None or re.search(r"conditional_arg_size_cache\s*\.\s*(clear|push_back|assign)\s*\(", enc_all))
    if enc_all is None:
        failures.append("Codec.h: detail::encode(buffer, cache, args...) not found")

    # ---- the backend's shared argument store: reset for EVERY statement, whatever its argument count -------------
    dm = re.search(r"void\s+decode_and_store_args\s*\(\s*(?:QUILL_MAYBE_UNUSED\s+)?std::byte\*&\s*buffer,\s*"
                   r"(?:QUILL_MAYBE_UNUSED\s+)?DynamicFormatArgStore&\s*args_store\s*\)\s*\{", cd)
    dbody = None
    if dm:
        try:
            dbody = re.sub(r"\s", "", body_after(cd, dm.end() - 1))
        except ValueError:
            dbody = None
    # first statement of the body is the unconditional clear(); the decode of the pack follows; no branch around either
    out["decodeClearsStoreFirst"] = bool(dbody is not None and dbody.startswith("args_store.clear();") and
                                         "decode_and_store_arg<Args...>(buffer,&args_store);" in dbody and
                                         not re.search(r"\bif\b|\?", dbody))
    if dbody is None:
        failures.append("Codec.h: detail::decode_and_store_args(buffer, args_store) not found")
    dfs = strip_cpp_comments(read(repo, "include/quill/core/DynamicFormatArgStore.h"))
    clr_s = func_body(dfs, r"void\s+clear\s*\(\s*\)\s*\{")
    c = re.sub(r"\s", "", clr_s or "")
    # clear() drops the values, the owned copies and the string-related flag
    out["storeClearResetsAll"] = bool("_data.clear();" in c and "_dynamic_arg_list=detail::DynamicArgList{};" in c and
                                      "_has_string_related_type=false;" in c)

    # ---- the unbounded queue between log calls (C11): does a drained queue publish the reader position? -----------
    bq = strip_cpp_comments(read(repo, "include/quill/core/BoundedSPSCQueue.h"))
    uq = strip_cpp_comments(read(repo, "include/quill/core/UnboundedSPSCQueue.h"))
    cr = func_body(bq, r"void\s+commit_read\s*\(\s*\)\s*(?:noexcept)?\s*\{")
    drain = False
    if cr is not None:
        cond = re.search(r"if\s*\((.*?)\)\s*\{", cr, re.S)
        c = re.sub(r"\s", "", cond.group(1)) if cond else ""
        # an unguarded disjunct `_reader_pos == _writer_pos_cache` next to the batch test
        drain = bool(re.search(r">=_bytes_per_batch\)\|\|\(?(_reader_pos==_writer_pos_cache|_writer_pos_cache==_reader_pos)\)?$", c))
    ucr = func_body(uq, r"void\s+commit_read\s*\(\s*\)\s*(?:noexcept)?\s*\{")
    # ... and the unbounded queue hands commit_read straight to its node's bounded queue
    through = bool(ucr is not None and re.sub(r"\s", "", ucr) == "_consumer->bounded_queue.commit_read();")
    out["drainPublishes"] = drain and through
    m = re.search(r"reader_store_percent\s*=\s*(\d+)", bq)
    out["readerBatchPercent"] = int(m.group(1)) if m else 0
    brd = strip_cpp_comments(read(repo, "include/quill/backend/BackendWorker.h"))
    rd = func_body(brd, r"size_t\s+_read_and_decode_frontend_queue\s*\([^)]*\)\s*\{") or ""
    # one commit_read per pass, after the loop, whenever something was read
    out["commitReadPerPass"] = bool(re.search(r"while\s*\(.*?\)\s*;\s*if\s*\(\s*total_bytes_read\s*!=\s*0\s*\)\s*\{\s*frontend_queue\.commit_read\(\);", rd, re.S))

    # ---- std/ containers -----------------------------------------------------------------------------
    kinds = {}
    for name, rel, pat in CONTAINERS:
        kinds[name] = container_info(repo, name, rel, pat, failures)
    out["kinds"] = kinds

    # ---- user-type codecs: where a formatter runs -----------------------------------------------------
    df = strip_cpp_comments(read(repo, "include/quill/DirectFormatCodec.h"))
    d_size = func_body(df, r"static\s+size_t\s+compute_encoded_size\s*\([^)]*\)\s*\{") or ""
    d_enc = func_body(df, r"static\s+void\s+encode\s*\([^)]*\)\s*\{") or ""
    out["directFormatCalls"] = len(re.findall(r"fmtquill::formatted_size\s*\(", d_size)) + \
        len(re.findall(r"fmtquill::format_to_n\s*\(", d_enc))
    out["directPushes"] = len(re.findall(r"conditional_arg_size_cache\.push_back\(", d_size))
    if not d_size or not d_enc:
        failures.append("DirectFormatCodec.h: compute_encoded_size/encode not found")
    de = strip_cpp_comments(read(repo, "include/quill/DeferredFormatCodec.h"))
    de_size = func_body(de, r"static\s+size_t\s+compute_encoded_size\s*\([^)]*\)\s*(?:noexcept)?\s*\{") or ""
    de_enc = func_body(de, r"static\s+void\s+encode\s*\([^)]*\)\s*\{") or ""
    if not de_size or not de_enc:
        failures.append("DeferredFormatCodec.h: compute_encoded_size/encode not found")
    out["deferredFormatCalls"] = len(re.findall(r"fmtquill::|format\w*\s*\(", de_size + de_enc))
    out["nonpodSlackSites"] = len(re.findall(r"sizeof\(T\)\s*\+\s*alignof\(T\)\s*-\s*1", de))

    # ---- sanitiser -----------------------------------------------------------------------------------
    bo = strip_cpp_comments(read(repo, "include/quill/backend/BackendOptions.h"))
    m = re.search(r"check_printable_char\s*=\s*\[\]\s*\(\s*char\s+c\s*\)\s*\{\s*return\s*\(\s*c\s*>=\s*'(.)'\s*&&\s*c\s*<=\s*'(.)'\s*\)"
                  r"((?:\s*\|\|\s*\(\s*c\s*==\s*'\\?.'\s*\))*)\s*;", bo)
    pr = dict(lo=0, hi=0, extra=[])
    if m:
        pr["lo"], pr["hi"] = ord(m.group(1)), ord(m.group(2))
        esc = {"n": 10, "t": 9, "r": 13, "0": 0}
        for e in re.findall(r"c\s*==\s*'(\\?.)'", m.group(3)):
            pr["extra"].append(esc[e[1]] if e.startswith("\\") else ord(e))
    else:
        failures.append("BackendOptions.h: default check_printable_char predicate not recognised")
    out["printable"] = pr
    sn = func_body(bw, r"static\s+void\s+sanitize_non_printable_chars\s*\([^)]*\)\s*\{")
    hexd, prefix, nib = "", [], []
    if sn is None:
        failures.append("BackendWorker.h: sanitize_non_printable_chars not found")
    else:
        h = re.search(r'hex\[\]\s*=\s*"([0-9A-Fa-f]{16})"', sn)
        hexd = h.group(1) if h else ""
        for a in re.findall(r"formatted_msg\.append\(std::string\{('(?:\\\\|[^'])'|hex\[[^\]]*\]|c)\}\);", sn):
            if a.startswith("'"):
                prefix.append(ord(a[1:-1].replace("\\\\", "\\")))
            elif a.startswith("hex"):
                nib.append(re.sub(r"\s", "", a))
        if not h:
            failures.append("sanitize_non_printable_chars: hex digit table not found")
    out["escape"] = dict(hex=hexd, prefix=prefix, nibbles=nib)
    # both loops of the sanitiser ask the user's predicate about EVERY byte: the predicate call is the first thing in
    # each loop body, nothing (no range shortcut, no `continue`) stands before it
    sn_c = re.sub(r"\s", "", sn or "")
    out["sanitizeAsksEveryByte"] = bool(
        "for(charc:formatted_msg){if(!options.check_printable_char(c)){contains_non_printable_char=true;break;}}" in sn_c and
        "for(charc:formatted_msg_copy){if(options.check_printable_char(c)){" in sn_c and
        sn_c.count("for(charc:") == 2 and "continue" not in sn_c)
    # std::set / std::multiset are rebuilt by decode_arg with the comparator of the argument type (std::less rebound to
    # the decoded key type, anything else kept), so the backend iterates them in the order they were encoded
    st = strip_cpp_comments(read(repo, "include/quill/std/Set.h"))
    st = re.sub(r"#if defined\(_WIN32\).*?#endif", "", st, flags=re.S)
    st_c = re.sub(r"\s", "", st)
    out["setKeepsComparator"] = bool(
        "usingReboundCompare=typenamestd::conditional<std::is_same<Compare,std::less<Key>>::value,std::less<ReturnType>,Compare>::type;" in st_c and
        "SetType<ReturnType,ReboundCompare,ReboundAllocator>arg;" in st_c)
    pm = func_body(bw, r"void\s+_populate_formatted_log_message\s*\([^)]*\)\s*\{") or ""
    out["sanitizeGuard"] = bool(re.search(
        r"_options\.check_printable_char\s*&&\s*_format_args_store\.has_string_related_type\(\)", pm))

    return out, render(out)


def render(out):
    """Lean text of the section (also used for the fallback, so that the driver always builds)"""
    frame, facts, kinds, pr = out["frame"], out["framing"], out["kinds"], out["printable"]
    unformatted, exempt, clears = out["unformattedEvents"], out["clearExempt"], out["clearsCache"]
    hexd, prefix, nib = out["escape"]["hex"], out["escape"]["prefix"], out["escape"]["nibbles"]
    L = []
    L.append("/-- `using SizeCacheVector = InlinedVector<%s, N>` and the growth rule of `push_back` -/" % out["cacheElem"])
    L.append("def cacheInlineCap : Nat := %d" % out["cacheInlineCap"])
    L.append("def cacheElemBytes : Nat := %d" % (int(re.search(r"\d+", out["cacheElem"]).group(0)) // 8 if re.search(r"\d+", out["cacheElem"]) else 0))
    L.append("def cacheGrowthFactor : Nat := %d" % out["cacheGrowthFactor"])
    L.append("def cacheGrowAllocs : Nat := %d" % out["cacheGrowAllocs"])
    L.append("def clearKeepsCapacity : Bool := %s" % lean_bool(out["clearKeepsCapacity"]))
    L.append("/-- record framing of `log_statement`: `sizeof(current_timestamp) + sizeof(uintptr_t) * nPtrs + args [+ sizeof(LogLevel)]` -/")
    L.append("def frame : Codec.Frame := { tsBytes := %d, ptrBytes := %d, nPtrs := %d, lvlBytes := %d }" % (
        frame["tsBytes"], frame["ptrBytes"], frame["nPtrs"], frame["lvlBytes"]))
    for k in ("lvlCounted", "lvlWritten", "lvlRead", "sameSizeReservedCommitted"):
        L.append("def %s : Bool := %s" % (k, lean_bool(facts[k])))
    L.append("def hdrPtrsWritten : Nat := %d" % facts["hdrPtrsWritten"])
    L.append("def hdrPtrsRead : Nat := %d" % facts["hdrPtrsRead"])
    L.append("def macroEvents : List String := [%s]" % ", ".join(lean_str(x) for x in out["macroEvents"]))
    L.append("def unformattedEvents : List String := [%s]" % ", ".join(lean_str(x) for x in unformatted))
    L.append("/-- argument classes that do NOT make `compute_encoded_size_and_cache_string_lengths` clear the cache -/")
    L.append("def clearExempt : List String := [%s]" % ", ".join(lean_str(x) for x in exempt))
    L.append("def clearsCache : Bool := %s" % lean_bool(clears))
    L.append("def encodeStartsAtZero : Bool := %s" % lean_bool(out["encodeStartsAtZero"]))
    L.append("/-- where the `clear()` sits and whether `detail::encode` can change the cache -/")
    L.append("def clearAtStart : Bool := %s" % lean_bool(out["clearAtStart"]))
    L.append("def encodeCacheConst : Bool := %s" % lean_bool(out["encodeCacheConst"]))
    L.append("def encodeMutatesCache : Bool := %s" % lean_bool(out["encodeMutatesCache"]))
    L.append("/-- `decode_and_store_args` clears the shared store first, unconditionally; `clear()` resets values, copies and flag -/")
    L.append("def decodeClearsStoreFirst : Bool := %s" % lean_bool(out["decodeClearsStoreFirst"]))
    L.append("def storeClearResetsAll : Bool := %s" % lean_bool(out["storeClearResetsAll"]))
    L.append("/-- `commit_read` publishes the reader position of a drained (unbounded) queue; batch threshold in percent -/")
    L.append("def drainPublishes : Bool := %s" % lean_bool(out["drainPublishes"]))
    L.append("def readerBatchPercent : Nat := %d" % out["readerBatchPercent"])
    L.append("def commitReadPerPass : Bool := %s" % lean_bool(out["commitReadPerPass"]))
    L.append("/-- quill/std/*.h: element-count prefix, arithmetic shortcuts, cached element count, pair elements -/")
    L.append("def kindTable : List (String × Codec.KindInfo) := [")
    rows = []
    for name, _, _ in CONTAINERS:
        k = kinds[name]
        rows.append("  (%s, { hasPrefix := %s, fastSize := %s, fastEncode := %s, pushCount := %s, mapLike := %s, pairTemp := %s })" % (
            lean_str(name), lean_bool(k["hasPrefix"]), lean_bool(k["fastSize"]), lean_bool(k["fastEncode"]),
            lean_bool(k["pushCount"]), lean_bool(k["mapLike"]), lean_bool(k["pairTemp"])))
    L.append(",\n".join(rows) + "]")
    L.append("/-- the type traits (and the template parameter they test) guarding each shortcut -/")
    L.append("def fastTraits : List (String × List (String × String)) := [")
    rows = []
    for name, _, _ in CONTAINERS:
        k = kinds[name]
        for which in ("sizeTraits", "encodeTraits"):
            if k[which]:
                rows.append("  (%s, [%s])" % (lean_str(name + "." + which[:-6]),
                                              ", ".join("(%s, %s)" % (lean_str(a), lean_str(b)) for a, b in k[which])))
    L.append(",\n".join(rows) + "]")
    L.append("def directFormatCalls : Nat := %d" % out["directFormatCalls"])
    L.append("def directPushes : Nat := %d" % out["directPushes"])
    L.append("def deferredFormatCalls : Nat := %d" % out["deferredFormatCalls"])
    L.append("def nonpodSlackSites : Nat := %d" % out["nonpodSlackSites"])
    L.append("/-- default `BackendOptions::check_printable_char` and the escape written by `sanitize_non_printable_chars` -/")
    L.append("def printable : Codec.Printable := { lo := %d, hi := %d, extra := [%s] }" % (
        pr["lo"], pr["hi"], ", ".join(str(x) for x in pr["extra"])))
    L.append("def escapeHex : String := %s" % lean_str(hexd))
    L.append("def escapePrefix : List Nat := [%s]" % ", ".join(str(x) for x in prefix))
    L.append("def escapeNibbles : List String := [%s]" % ", ".join(lean_str(x) for x in nib))
    L.append("def sanitizeGuard : Bool := %s" % lean_bool(out["sanitizeGuard"]))
    L.append("def sanitizeAsksEveryByte : Bool := %s" % lean_bool(out["sanitizeAsksEveryByte"]))
    L.append("def setKeepsComparator : Bool := %s" % lean_bool(out["setKeepsComparator"]))
    return "\n".join(L)


def _neutral():
    """values that satisfy no obligation: used when a header can no longer be parsed at all"""
    k0 = dict(hasPrefix=False, fastSize=False, fastEncode=False, pushCount=False, mapLike=False, pairTemp=False,
              sizeTraits=[], encodeTraits=[])
    return {
        "cacheElem": "uint32_t", "cacheInlineCap": 0, "cacheGrowthFactor": 0, "cacheGrowAllocs": 0, "clearKeepsCapacity": False,
        "frame": dict(tsBytes=0, ptrBytes=8, nPtrs=0, lvlBytes=0),
        "framing": dict(lvlCounted=False, lvlWritten=False, lvlRead=False, hdrPtrsWritten=0, hdrPtrsRead=0,
                        sameSizeReservedCommitted=False),
        "unformattedEvents": [], "macroEvents": [], "clearExempt": [], "clearsCache": False, "encodeStartsAtZero": False,
        "clearAtStart": False, "encodeCacheConst": False, "encodeMutatesCache": True, "drainPublishes": False,
        "readerBatchPercent": 0, "commitReadPerPass": False, "decodeClearsStoreFirst": False, "storeClearResetsAll": False,
        "kinds": {name: dict(k0) for name, _, _ in CONTAINERS},
        "directFormatCalls": 0, "directPushes": 0, "deferredFormatCalls": 0, "nonpodSlackSites": 0,
        "printable": dict(lo=0, hi=0, extra=[]), "escape": dict(hex="", prefix=[], nibbles=[]), "sanitizeGuard": False, "sanitizeAsksEveryByte": False, "setKeepsComparator": False,
    }


FALLBACK = (_neutral(), render(_neutral()))
