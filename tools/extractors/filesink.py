"""Stream-sink section of the extraction (C06, the sink's write/flush protocol): on EVERY path of `StreamSink::write_log`
that reaches fwrite/safe_fwrite the dirty flag `_write_occurred` is set before the function returns (paths enumerated over the
if/else/early-return structure, so both `if (cb) {…} else {…} flag = true;` and `if (!cb) {…; flag = true; return;} …; flag = true;`
are accepted), `flush_sink` tests the flag, flushes and `flush()` resets it, `FileSink::flush_sink` tests the same flag and
delegates."""
import re

from extract import read, strip_cpp_comments, func_body, lean_bool

IMPORTS = ["QuillModel.FileSink.Model"]


def matching(body, i, open_c, close_c):
    depth = 0
    j = i
    while j < len(body):
        if body[j] == open_c:
            depth += 1
        elif body[j] == close_c:
            depth -= 1
            if depth == 0:
                return j
        j += 1
    raise ValueError("unbalanced " + open_c)


def parse_seq(body):
    """statement list of a brace-free-at-top-level body: ("if", cond, then_seq, else_seq|None) | ("stmt", text)"""
    out, i, n = [], 0, len(body)
    while i < n:
        while i < n and body[i] in " \t\r\n":
            i += 1
        if i >= n:
            break
        m = re.match(r"if\s*(?:constexpr\s*)?\(", body[i:])
        if m:
            p0 = i + m.end() - 1
            p1 = matching(body, p0, "(", ")")
            cond = body[p0 + 1:p1]
            then, i = parse_block_or_stmt(body, p1 + 1)
            els = None
            m2 = re.match(r"\s*else\b", body[i:])
            if m2:
                els, i = parse_block_or_stmt(body, i + m2.end())
            out.append(("if", cond, then, els))
            continue
        if body[i] == "{":
            j = matching(body, i, "{", "}")
            out += parse_seq(body[i + 1:j])
            i = j + 1
            continue
        # plain statement up to the ';' at depth 0 (parentheses / braces of initialisers and lambdas skipped)
        j, dp = i, 0
        while j < n:
            c = body[j]
            if c in "({[":
                dp += 1
            elif c in ")}]":
                dp -= 1
            elif c == ";" and dp == 0:
                break
            j += 1
        out.append(("stmt", body[i:j].strip()))
        i = j + 1
    return out


def parse_block_or_stmt(body, i):
    while i < len(body) and body[i] in " \t\r\n":
        i += 1
    if i < len(body) and body[i] == "{":
        j = matching(body, i, "{", "}")
        return parse_seq(body[i + 1:j]), j + 1
    seq = parse_seq_one(body, i)
    return seq


def parse_seq_one(body, i):
    """one unbraced statement starting at i (possibly an if); returns (seq, index after it)"""
    m = re.match(r"if\s*\(", body[i:])
    if m:
        p1 = matching(body, i + m.end() - 1, "(", ")")
        then, k = parse_block_or_stmt(body, p1 + 1)
        els = None
        m2 = re.match(r"\s*else\b", body[k:])
        if m2:
            els, k = parse_block_or_stmt(body, k + m2.end())
        return [("if", body[i + m.end():p1], then, els)], k
    j, dp = i, 0
    while j < len(body):
        c = body[j]
        if c in "({[":
            dp += 1
        elif c in ")}]":
            dp -= 1
        elif c == ";" and dp == 0:
            break
        j += 1
    return [("stmt", body[i:j].strip())], j + 1


def paths(seq):
    """every control path through seq: (events, conds, returned); events in order: 'W' fwrite, 'D' flag set, 'C' callback call"""
    res = [([], [], False)]
    for item in seq:
        nxt = []
        for ev, cs, ret in res:
            if ret:
                nxt.append((ev, cs, ret))
                continue
            if item[0] == "stmt":
                t = item[1]
                e = list(ev)
                if re.search(r"\bbefore_write\s*\(", t):
                    e.append("C")
                if re.search(r"\b(?:safe_fwrite|std::fwrite|fwrite)\s*\(", t):
                    e.append("W")
                if re.search(r"\b_write_occurred\s*=\s*true\b", t):
                    e.append("D")
                if re.search(r"\b_write_occurred\s*=\s*false\b", t):
                    e.append("U")
                nxt.append((e, cs, bool(re.match(r"return\b", t)) or bool(re.match(r"(?:QUILL_THROW|throw)\b", t))))
            else:
                _, cond, then, els = item
                for sub_ev, sub_cs, sub_ret in paths(then):
                    nxt.append((ev + sub_ev, cs + [(cond, True)] + sub_cs, sub_ret))
                if els is None:
                    nxt.append((ev, cs + [(cond, False)], False))
                else:
                    for sub_ev, sub_cs, sub_ret in paths(els):
                        nxt.append((ev + sub_ev, cs + [(cond, False)] + sub_cs, sub_ret))
        res = nxt
    return res


def hook_polarity(cond):
    """None if the condition is not the test of the before_write callback; else True if the condition is true when a callback is set"""
    c = re.sub(r"\s+", "", cond)
    m = re.fullmatch(r"(?:QUILL_LIKELY|QUILL_UNLIKELY)\((.*)\)", c)
    if m:
        c = m.group(1)
    if c in ("_file_event_notifier.before_write", "static_cast<bool>(_file_event_notifier.before_write)", "_file_event_notifier.before_write!=nullptr"):
        return True
    if c in ("!_file_event_notifier.before_write", "_file_event_notifier.before_write==nullptr"):
        return False
    return None


def extract(repo, failures):
    src = strip_cpp_comments(read(repo, "include/quill/sinks/StreamSink.h"))
    fsrc = strip_cpp_comments(read(repo, "include/quill/sinks/FileSink.h"))
    d = {"plainSetsDirty": False, "hookSetsDirty": False, "flushTestsFlag": False, "flushResetsFlag": False}
    wl = func_body(src, r"void\s+write_log\s*\([^{;]*\)\s*(?:override)?\s*\{")
    write_paths = []
    if wl is None:
        failures.append("StreamSink::write_log not found")
    else:
        try:
            allp = paths(parse_seq(wl))
        except Exception as ex:  # noqa: BLE001
            allp = []
            failures.append("StreamSink::write_log: control structure not understood: %r" % (ex,))
        plain, hook, unknown = [], [], []
        for ev, cs, _ in allp:
            if "W" not in ev:
                continue
            pol = [hook_polarity(c) == b for c, b in cs if hook_polarity(c) is not None]
            kind = None if not pol else ("hook" if all(pol) else ("plain" if not any(pol) else "mixed"))
            sets = "D" in ev and "U" not in ev[ev.index("D"):]
            write_paths.append({"kind": kind or "unconditional", "events": "".join(ev), "setsFlag": sets})
            if kind == "hook":
                hook.append((ev, sets))
            elif kind == "plain":
                plain.append((ev, sets))
            else:
                unknown.append((ev, sets))
        if unknown:
            # a write that does not depend on the callback test is on both kinds of path
            plain += unknown
            hook += unknown
        if not plain or not hook:
            failures.append("StreamSink::write_log: no writing path %s the before_write callback found" % ("without" if not plain else "through"))
        d["plainSetsDirty"] = bool(plain) and all(s for _, s in plain)
        d["hookSetsDirty"] = bool(hook) and all(s for _, s in hook)
        d["hookPathCallsCallbackBeforeWrite"] = bool(hook) and all("C" in ev and ev.index("C") < ev.index("W") for ev, _ in hook if (ev, _) not in unknown) \
            and all("C" not in ev for ev, _ in plain if (ev, _) not in unknown)
        d["oneWritePerPath"] = all(p["events"].count("W") == 1 for p in write_paths)
    d["writePaths"] = write_paths
    fl = func_body(src, r"void\s+flush_sink\s*\(\s*\)\s*(?:override)?\s*\{")
    fb = func_body(src, r"void\s+flush\s*\(\s*\)\s*\{")
    if fl is None or fb is None:
        failures.append("StreamSink::flush_sink / flush not found")
    else:
        d["flushTestsFlag"] = bool(re.search(r"if\s*\(\s*!\s*_write_occurred\b[^)]*\)\s*\{?\s*return\s*;", fl))
        d["flushCallsFlush"] = bool(re.search(r"\bflush\s*\(\s*\)\s*;\s*$", fl.strip())) and "_write_occurred = true" not in fl
        d["flushResetsFlag"] = bool(re.search(r"_write_occurred\s*=\s*false\s*;", fb))
        d["flushFflushes"] = bool(re.search(r"\bfflush\s*\(\s*_file\s*\)\s*;", fb))
    ffl = func_body(fsrc, r"void\s+flush_sink\s*\(\s*\)\s*(?:override)?\s*\{")
    if ffl is None:
        failures.append("FileSink::flush_sink not found")
    else:
        m = re.search(r"StreamSink::flush_sink\s*\(\s*\)\s*;", ffl)
        t = re.search(r"if\s*\(\s*!\s*_write_occurred\b[^)]*\)\s*\{?\s*return\s*;", ffl)
        d["fileFlushDelegates"] = bool(m) and (t is None or t.start() < m.start()) and not re.search(r"_write_occurred\s*=", ffl) \
            and not re.search(r"\breturn\s*;", ffl[(t.end() if t else 0):m.start()] if m else "")
    d["flagStartsFalse"] = bool(re.search(r"bool\s+_write_occurred\s*\{\s*false\s*\}\s*;", src))
    struct = ["hookPathCallsCallbackBeforeWrite", "oneWritePerPath", "flushCallsFlush", "flushFflushes", "fileFlushDelegates", "flagStartsFalse"]
    for k in struct:
        if not d.get(k):
            failures.append("stream sinks: structural fact %s no longer recognised" % k)
    L = ["/-- `StreamSink::write_log`: does every writing path without / through the `before_write` callback set `_write_occurred`;",
         "    `flush_sink` tests the flag; `flush()` resets it -/",
         "def fileSinkParams : FileSink.Params := { plainSetsDirty := %s, hookSetsDirty := %s, flushTestsFlag := %s, flushResetsFlag := %s }" % (
             lean_bool(d["plainSetsDirty"]), lean_bool(d["hookSetsDirty"]), lean_bool(d["flushTestsFlag"]), lean_bool(d["flushResetsFlag"])),
         "/-- the callback's result is what is written, one fwrite per path; flush_sink ends in flush() = reset + fflush(_file);",
         "    FileSink::flush_sink tests the same flag first and delegates to StreamSink::flush_sink; the flag starts false -/",
         "def fileSinkStructure : List (String × Bool) := [%s]" % ", ".join('("%s", %s)' % (k, lean_bool(bool(d.get(k)))) for k in struct)]
    return d, "\n".join(L)


FALLBACK = ({"plainSetsDirty": False, "hookSetsDirty": False, "flushTestsFlag": True, "flushResetsFlag": True},
            "def fileSinkParams : FileSink.Params := { plainSetsDirty := false, hookSetsDirty := false, flushTestsFlag := true, flushResetsFlag := true }\n"
            "def fileSinkStructure : List (String × Bool) := []")
