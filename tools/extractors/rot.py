"""Rotation section of the extraction (C14, C15): what the `Rot` model is parametric in or silently assumes about
include/quill/sinks/RotatingSink.h — enums, defaults, setter validation, the shape of `write_log`, `_time_rotation`,
`_size_rotation`, `_rotate_files`, `_clean_and_recover_files`, the rotation-point arithmetic and the constructor order."""
import re

from extract import read, strip_cpp_comments, func_body, lean_bool, lean_str

IMPORTS = ["QuillModel.Rot.Model"]

H = "include/quill/sinks/RotatingSink.h"


def enum_members(src, name, failures):
    m = re.search(r"enum\s+class\s+" + name + r"\s*(?::\s*\w+)?\s*\{([^}]*)\}", src)
    if not m:
        failures.append("rot: enum %s not found" % name)
        return []
    return [x.strip().split("=")[0].strip() for x in m.group(1).split(",") if x.strip()]


def default_of(src, member, failures):
    m = re.search(re.escape(member) + r"\s*\{([^;]*)\}\s*;", src)
    if not m:
        failures.append("rot: default of %s not found" % member)
        return None
    return m.group(1).strip()


def norm(s):
    return re.sub(r"\s+", "", s or "")


def split_top(s):
    """split at the commas that are not inside (), <>, {} or []"""
    out, depth, cur = [], 0, ""
    for ch in s:
        if ch in "([{<":
            depth += 1
        elif ch in ")]}>":
            depth -= 1
        if ch == "," and depth == 0:
            out.append(cur.strip())
            cur = ""
        else:
            cur += ch
    if cur.strip():
        out.append(cur.strip())
    return out


def inline_void_helper(src, body, name):
    """`body` with every statement `name(args);` replaced by the body of the member function `void name(params)` with the
    parameters substituted by the arguments. A one-use private helper is an implementation detail: what the model
    describes is the statement sequence of the caller, whether written through the helper or inline. Unchanged when the
    helper (or a call of it as a statement) does not exist."""
    if body is None:
        return body
    sig = re.search(r"\bvoid\s+" + re.escape(name) + r"\s*\(([^)]*)\)\s*(?:const\s*)?(?:noexcept\s*)?\{", src)
    if not sig:
        return body
    hb = func_body(src, r"\bvoid\s+" + re.escape(name) + r"\s*\([^)]*\)\s*(?:const\s*)?(?:noexcept\s*)?\{")
    if hb is None:
        return body
    params = [re.findall(r"[A-Za-z_]\w*", x)[-1] for x in split_top(sig.group(1)) if re.findall(r"[A-Za-z_]\w*", x)]
    out, pos = "", 0
    for m in re.finditer(r"(?<![\w.>:])" + re.escape(name) + r"\s*\(", body):
        if m.start() < pos:
            continue
        depth, j = 0, m.end() - 1
        while j < len(body):
            if body[j] == "(":
                depth += 1
            elif body[j] == ")":
                depth -= 1
                if depth == 0:
                    break
            j += 1
        tail = re.match(r"\s*;", body[j + 1:])
        args = split_top(body[m.end():j])
        if not tail or len(args) != len(params):
            continue
        inl = hb
        # simultaneous substitution of the parameters
        def sub(mm, table=dict(zip(params, args))):
            return table[mm.group(0)]
        if params:
            inl = re.sub(r"(?<![\w.>])(?:" + "|".join(re.escape(x) for x in params) + r")\b", sub, inl)
        out += body[pos:m.start()] + inl
        pos = j + 1 + tail.end()
    return out + body[pos:]


def extract(repo, failures):
    raw = read(repo, H)
    src = strip_cpp_comments(raw)
    out = {}
    facts = {}

    # ---- enums and defaults ------------------------------------------------------------------
    out["schemes"] = enum_members(src, "RotationNamingScheme", failures)
    out["freqs"] = enum_members(src, "RotationFrequency", failures)
    d = {}
    v = default_of(src, "_rotation_max_file_size", failures)
    d["limit"] = int(v) if v and v.isdigit() else -1
    v = default_of(src, "_max_backup_files", failures)
    d["maxBackup"] = 4294967295 if v and "numeric_limits<uint32_t>::max()" in norm(v) else (int(v) if v and v.isdigit() else -1)
    v = default_of(src, "_rotation_interval", failures)
    d["interval"] = int(v) if v and v.isdigit() else -1
    v = default_of(src, "_rotation_frequency", failures) or ""
    d["freq"] = v.split("::")[-1]
    v = default_of(src, "_rotation_naming_scheme", failures) or ""
    d["scheme"] = v.split("::")[-1]
    d["overwrite"] = (default_of(src, "_overwrite_rolled_files", failures) == "true")
    d["removeOld"] = (default_of(src, "_remove_old_files", failures) == "true")
    fsrc = strip_cpp_comments(read(repo, "include/quill/sinks/FileSink.h"))
    m = re.search(r"_open_mode\s*\{\s*'(.)'\s*\}", fsrc)
    if not m:
        failures.append("rot: default open mode not found")
    d["append"] = bool(m and m.group(1) == "a")
    out["defaults"] = d

    # ---- setters ---------------------------------------------------------------------------------
    b = func_body(src, r"void\s+set_rotation_max_file_size\s*\([^)]*\)\s*\{")
    m = re.search(r"if\s*\(\s*value\s*<\s*(\d+)\s*\)\s*\{\s*QUILL_THROW", b or "")
    if not m:
        failures.append("rot: set_rotation_max_file_size: `if (value < N) throw` not found")
    out["minLimit"] = int(m.group(1)) if m else 512
    b = norm(func_body(src, r"void\s+set_rotation_frequency_and_interval\s*\([^)]*\)\s*\{"))
    facts["freqCharsMmHh"] = ("frequency=='M'||frequency=='m'" in b and "frequency=='H'||frequency=='h'" in b
                              and b.index("Minutely") < b.index("Hourly"))
    facts["intervalZeroThrows"] = bool(re.search(r"if\(interval==0\)\{QUILL_THROW", b))
    b = norm(func_body(src, r"_parse_daily_rotation_time\s*\([^)]*\)\s*\{"))
    facts["dailyTwoTokensOfTwoChars"] = ("tokens.size()!=2" in b and "parsed_token.size()!=2" in b)
    facts["dailyBounds23_59"] = ("first>std::chrono::hours{23}" in b and "second>std::chrono::minutes{59}" in b)

    # ---- write_log -------------------------------------------------------------------------------
    # The size step may be written through the one-use helper `_size_rotation(size, ts)` or inline: the helper is inlined
    # (parameters substituted) before anything is matched, so both spellings give the same text.
    wl_raw = func_body(src, r"void\s+write_log\s*\([^{;]*\)\s*override\s*\{")
    wl = norm(inline_void_helper(src, wl_raw, "_size_rotation"))
    i_t = wl.find("time_rotation=_time_rotation(log_timestamp)")
    # where the size step starts, whatever its comparison operator (the operator is `sizeTriggerStrictlyGreater`'s subject)
    ms = re.search(r"if\(_file_size\+log_statement\.size\(\)", wl)
    i_s = ms.start() if ms else -1
    i_w = wl.rfind("base_type::write_log(")
    i_a = wl.find("_file_size+=log_statement.size()")
    facts["timeThenSizeThenWrite"] = (0 <= i_t < i_s < i_w < i_a)
    # the size step is the (whole) body of the block guarded by "no time rotation happened and a limit is configured"
    size_guard = "if(!time_rotation&&_config.rotation_max_file_size()!=0){"
    i_g = wl.find(size_guard)
    facts["sizeCheckGuard"] = bool(i_g >= 0 and i_s == i_g + len(size_guard) and re.match(
        r"if\(_file_size\+log_statement\.size\(\)[<>=!]+_config\.rotation_max_file_size\(\)\)\{_rotate_files\(log_timestamp\);\}\}", wl[i_s:]))
    facts["timeCheckGuard"] = "if(_config.rotation_frequency()!=RotatingFileSinkConfig::RotationFrequency::Disabled)" in wl

    # ---- _time_rotation --------------------------------------------------------------------------
    tr = norm(func_body(src, r"bool\s+_time_rotation\s*\([^)]*\)\s*\{"))
    facts["timeTriggerGe"] = tr.startswith("if(record_timestamp_ns>=_next_rotation_time)")
    adv_sched = bool(re.search(r"do\{_next_rotation_time=_calculate_rotation_tp\(_next_rotation_time,_config\);\}"
                               r"while\(record_timestamp_ns>=_next_rotation_time\);", tr))
    adv_record = "_next_rotation_time=_calculate_rotation_tp(record_timestamp_ns,_config);" in tr
    time_problems = []
    if adv_sched == adv_record:
        time_problems.append("rot: _time_rotation: neither the scheduled-point loop nor the record-anchored advance recognised")
    out["advancesFromSchedule"] = adv_sched
    facts["rotateThenAdvance"] = (tr.find("_rotate_files(record_timestamp_ns)") >= 0 and
                                  tr.find("_rotate_files(record_timestamp_ns)") < tr.find("_calculate_rotation_tp("))
    facts["timeRotationReturnsTrueWhenDue"] = tr.endswith("returntrue;}returnfalse;")

    # ---- _size_rotation --------------------------------------------------------------------------
    # (inlined into write_log above when it is a helper): rotate iff the file would grow beyond the limit, the record's
    # timestamp goes to _rotate_files, and this is the only rotation write_log performs itself
    facts["sizeTriggerStrictlyGreater"] = (
        "if(_file_size+log_statement.size()>_config.rotation_max_file_size()){_rotate_files(log_timestamp);}" in wl
        and wl.count("_rotate_files(") == 1)

    # ---- _rotate_files ---------------------------------------------------------------------------
    rf = norm(func_body(src, r"void\s+_rotate_files\s*\([^)]*\)\s*\{"))
    facts["stopTest"] = rf.startswith("if((_created_files.size()>_config.max_backup_files())&&!_config.overwrite_rolled_files()){return;}")
    facts["emptyFileNotRotated"] = "if(_get_file_size(this->_filename)<=0){return;}" in rf
    facts["suffixFromOpenInstant"] = (rf.count("format_datetime_string(_open_file_timestamp,_config.timezone(),") == 2
                                      and '"%Y%m%d")' in rf and '"%Y%m%d_%H%M%S")' in rf)
    facts["oldestFirst"] = "for(autoit=_created_files.rbegin();it!=_created_files.rend();++it)" in rf
    facts["bumpRule"] = ("if(_config.rotation_naming_scheme()==RotatingFileSinkConfig::RotationNamingScheme::Index||"
                         "it->date_time==datetime_suffix){index_to_use+=1;" in rf and "elseif(it->date_time.empty()){index_to_use=it->index;" in rf)
    i_close, i_ren, i_open = rf.find("this->close_file()"), rf.find("_rename_file(existing_file,renamed_file)"), rf.find('this->open_file(this->_filename,"w")')
    facts["closeRenameOpen"] = (0 <= i_close < i_ren < i_open)
    mdel = re.search(
        r"(while|if)\(_created_files\.size\(\)>_config\.max_backup_files\(\)\)\{fs::pathconstremoved_file=_get_filename\("
        r"_created_files\.back\(\)\.base_filename,_created_files\.back\(\)\.index,_created_files\.back\(\)\.date_time\);"
        r"_remove_file\(removed_file\);_created_files\.pop_back\(\);\}", rf)
    facts["deleteOldestFromBack"] = bool(mdel)
    if not mdel:
        failures.append("rot: _rotate_files: deletion step (if/while size() > max_backup_files: remove back, pop_back) not recognised")
    out["deletesAllExcess"] = bool(mdel and mdel.group(1) == "while")
    i_del, i_push = rf.find("_created_files.pop_back()"), rf.find("_created_files.emplace_front(this->_filename,0,std::string{})")
    facts["renameDeletePushOpen"] = (0 <= i_ren < i_del < i_push < i_open)
    facts["openStampAndSizeReset"] = rf.endswith("_open_file_timestamp=record_timestamp_ns;_file_size=0;")

    # ---- naming ------------------------------------------------------------------------------------
    gf = norm(func_body(src, r"fs::path\s+_get_filename\s*\([^)]*\)\s*\{"))
    facts["nameSuffixThenIndex"] = (gf.find("_append_string_to_filename(filename,date_time)") >= 0 and
                                    gf.find("_append_string_to_filename(filename,date_time)") < gf.find("_append_index_to_filename(filename,index)")
                                    and "if(index>0)" in gf and "if(!date_time.empty())" in gf)

    # ---- rotation points ---------------------------------------------------------------------------
    cp = norm(func_body(src, r"uint64_t\s+_calculate_rotation_tp\s*\([^)]*\)\s*\{"))
    facts["periods"] = ("std::chrono::minutes{config.rotation_interval()}" in cp and "std::chrono::hours{config.rotation_interval()}" in cp
                        and "std::chrono::hours{24}" in cp)
    ip = norm(func_body(src, r"uint64_t\s+_calculate_initial_rotation_tp\s*\([^)]*\)\s*\{"))
    facts["initialPoint"] = ("date.tm_min+=1;date.tm_sec=0;" in ip and "date.tm_hour+=1;date.tm_min=0;date.tm_sec=0;" in ip
                             and "(rotation_time>time_now)" in ip and "std::chrono::hours{24}" in ip
                             and "config.daily_rotation_time().first.count()" in ip)

    # ---- start-up ----------------------------------------------------------------------------------
    cr = norm(func_body(src, r"void\s+_clean_and_recover_files\s*\([^)]*\)\s*\{"))
    facts["recoverOnlyIndexAndDate"] = cr.startswith(
        "if((_config.rotation_naming_scheme()!=RotatingFileSinkConfig::RotationNamingScheme::Index)&&"
        "(_config.rotation_naming_scheme()!=RotatingFileSinkConfig::RotationNamingScheme::Date)){return;}")
    facts["cleanIffWAndRemoveOld"] = ('if(_config.remove_old_files()&&(open_mode=="w"))' in cr and 'elseif(open_mode=="a")' in cr)
    facts["recoverSortsByIndex"] = "std::sort(_created_files.begin(),_created_files.end(),[](FileInfoconst&a,FileInfoconst&b){returna.index<b.index;});" in cr
    facts["dateRecoveryTodayOnly"] = cr.count("index_or_date==today_date") >= 3 and cr.count("date_part==today_date") == 2
    i0, i1 = src.find(": base_type(filename"), src.find("~RotatingSink()")
    ctor = norm(src[i0:i1]) if 0 <= i0 < i1 else ""
    order = [ctor.find("_clean_and_recover_files("), ctor.find("_calculate_initial_rotation_tp("),
             ctor.find("this->open_file(this->_filename,_config.open_mode())"), ctor.find("_open_file_timestamp="),
             ctor.find("_created_files.emplace_front(this->_filename,0,std::string{})"), ctor.find("_file_size=_get_file_size(this->_filename)")]
    facts["constructorOrder"] = all(x >= 0 for x in order) and order == sorted(order)

    # a fact that no longer holds is not a failure of the extraction: it is extracted as `false` and the obligation breaks.
    # Facts are split by the property whose model relies on them, so that an edit to the time trigger does not alarm C14
    # and an edit to the size trigger does not alarm C15.
    TIME = ("freqCharsMmHh", "intervalZeroThrows", "dailyTwoTokensOfTwoChars", "dailyBounds23_59", "timeCheckGuard",
            "timeTriggerGe", "rotateThenAdvance", "timeRotationReturnsTrueWhenDue", "suffixFromOpenInstant", "periods",
            "initialPoint", "timeThenSizeThenWrite", "openStampAndSizeReset")
    SIZE_ALSO = ("timeThenSizeThenWrite", "openStampAndSizeReset")
    out["facts"] = facts
    out["timeFacts"] = {k: v for k, v in facts.items() if k in TIME}
    out["sizeFacts"] = {k: v for k, v in facts.items() if k not in TIME or k in SIZE_ALSO}
    out["timeProblems"] = time_problems

    fr = {"Disabled": ".disabled", "Daily": ".daily", "Hourly": ".hourly", "Minutely": ".minutely"}
    sc = {"Index": ".index", "Date": ".date", "DateAndTime": ".dateTime"}
    L = []
    L.append("/-- `_time_rotation` advances `_next_rotation_time` from the scheduled point in a loop (repair of F9);")
    L.append("    `_rotate_files` removes every file in excess of `max_backup_files` in a `while` loop (repair of F18) -/")
    L.append("def rotParams : Rot.Params := { advancesFromSchedule := %s, deletesAllExcess := %s }" % (
        lean_bool(out["advancesFromSchedule"]), lean_bool(out["deletesAllExcess"])))
    L.append("def rotMinLimit : Nat := %d" % out["minLimit"])
    L.append("def rotSchemes : List String := [%s]" % ", ".join(lean_str(x) for x in out["schemes"]))
    L.append("def rotFreqs : List String := [%s]" % ", ".join(lean_str(x) for x in out["freqs"]))
    if d["freq"] in fr and d["scheme"] in sc and d["limit"] >= 0 and d["maxBackup"] >= 0 and d["interval"] >= 0:
        L.append("/-- member initialisers of `RotatingFileSinkConfig` / `FileSinkConfig` -/")
        L.append("def rotDefaults : Rot.Cfg :=")
        L.append("  { scheme := %s, limit := %d, maxBackup := %d, overwrite := %s, append := %s, removeOld := %s, freq := %s, interval := %d, dailyH := 0, dailyM := 0 }" % (
            sc[d["scheme"]], d["limit"], d["maxBackup"], lean_bool(d["overwrite"]), lean_bool(d["append"]), lean_bool(d["removeOld"]),
            fr[d["freq"]], d["interval"]))
    else:
        failures.append("rot: defaults not recognised: %r" % d)
        L.append("def rotDefaults : Rot.Cfg := { maxBackup := 0 }")
    for nm, doc, fx in (("rotSizeFacts", "structural facts of RotatingSink.h the size-rotation / naming / start-up part of the model assumes", out["sizeFacts"]),
                        ("rotTimeFacts", "structural facts of RotatingSink.h the time-rotation part of the model assumes", out["timeFacts"])):
        L.append("/-- %s (name, holds in the current header) -/" % doc)
        L.append("def %s : List (String × Bool) := [" % nm)
        L.append(",\n".join("  (%s, %s)" % (lean_str(k), lean_bool(v)) for k, v in fx.items()))
        L.append("]")
    L.append("def rotTimeProblems : List String := [%s]" % ", ".join(lean_str(x) for x in time_problems))
    return out, "\n".join(L)


FALLBACK = ({"advancesFromSchedule": False, "deletesAllExcess": False, "minLimit": 512, "facts": {}},
            "def rotParams : Rot.Params := { advancesFromSchedule := false, deletesAllExcess := false }\ndef rotMinLimit : Nat := 512\n"
            "def rotSchemes : List String := []\ndef rotFreqs : List String := []\n"
            "def rotDefaults : Rot.Cfg := { maxBackup := 0 }\ndef rotSizeFacts : List (String × Bool) := [(\"extraction\", false)]\n"
            "def rotTimeFacts : List (String × Bool) := [(\"extraction\", false)]\ndef rotTimeProblems : List String := []")
