"""LoggerManager section of the extraction (C17, by-name logger registry): which bound `_find_logger` and
`_insert_logger` search for and with which comparator, the end + name test of `_find_logger`, the create-only-when-null
shape of `create_or_get_logger`, the validity test of `get_logger`, what `remove_logger` does, and the shape of the
clean-up loop: flag protocol, one `check_queues_empty()` per invalid entry, erase IN PLACE inside a forward loop
(`it = _loggers.erase(it)` — nothing that reorders the vector)."""
import re

from extract import read, strip_cpp_comments, func_body, lean_bool

IMPORTS = ["QuillModel.LogReg.Model"]

S = r"\s*"
FACTS = ("findTestsEndThenName", "insertsAtBound", "createOnlyWhenNotFound", "getChecksValid", "removeMarksInvalidRaisesFlag",
         "cleanupFlagProtocol", "cleanupChecksQueuesPerInvalid", "cleanupErasesInPlace", "allFiltersValid", "countIsSize",
         "publicOpsLocked", "sortedVectorOfOwners")


def bound_call(body, failures, what):
    """(bound, comparator_ok) of the single std::lower_bound / std::upper_bound call over _loggers in `body`.
      lower_bound: [](std::unique_ptr<LoggerBase> const& a, std::string const& b) { return a->get_logger_name() < b; }
      upper_bound: [](std::string const& b, std::unique_ptr<LoggerBase> const& a) { return b < a->get_logger_name(); }"""
    if body is None:
        failures.append(what + ": function not found")
        return "lower", False
    calls = re.findall(r"std::(lower_bound|upper_bound)\s*\(\s*_loggers\.begin\s*\(\s*\)\s*,\s*_loggers\.end\s*\(\s*\)\s*,\s*([^,]+?)\s*,\s*"
                       r"\[\s*\]\s*\(([^)]*)\)\s*\{\s*return\s+([^;]*);\s*\}\s*\)", body)
    if len(calls) != 1:
        failures.append(what + ": expected exactly one std::lower_bound/upper_bound over _loggers with a lambda comparator, found %d" % len(calls))
        return "lower", False
    which, key, params, ret = calls[0]
    ps = [p.strip() for p in params.split(",")]
    if len(ps) != 2:
        failures.append(what + ": comparator does not take two parameters")
        return which.split("_")[0], False
    names = [re.sub(r".*[\s&*]", "", p) for p in ps]
    is_entry = ["LoggerBase" in p for p in ps]
    ret = re.sub(r"\s+", "", ret)
    if which == "lower_bound":
        ok = is_entry == [True, False] and ret == "%s->get_logger_name()<%s" % (names[0], names[1])
    else:
        ok = is_entry == [False, True] and ret == "%s<%s->get_logger_name()" % (names[0], names[1])
    return which.split("_")[0], ok


def cleanup_facts(cln):
    """(flag protocol, one queue check per invalid entry, erase in place) of cleanup_invalidated_loggers"""
    if not cln:
        return False, False, False
    c = re.sub(r"\s+", " ", cln)
    flag = bool(re.search(r"if \( ?_has_invalidated_loggers\.load\([^)]*\) ?\) \{ _has_invalidated_loggers\.store\(false[^)]*\); "
                          r"LockGuard const lock ?\{_spinlock\}; for \(", c)) and len(re.findall(r"_has_invalidated_loggers\.store\(", c)) == 2
    loop = re.search(r"for \(auto it = _loggers\.begin\(\); it != _loggers\.end\(\); ?\) \{ "
                     r"if \(!it->get\(\)->is_valid_logger\(\)\) \{ "
                     r"if \(!check_queues_empty\(\)\) \{ \+\+it; _has_invalidated_loggers\.store\(true[^)]*\); \} "
                     r"else \{ removed_loggers\.push_back\(it->get\(\)->get_logger_name\(\)\); it = _loggers\.erase\(it\); \} \} "
                     r"else \{ \+\+it; \} \} \} return removed_loggers;", c)
    per_invalid = bool(loop) and len(re.findall(r"check_queues_empty\s*\(\s*\)", c)) == 1
    # in place: the only things that modify the vector are `it = _loggers.erase(it)` (single-element erase at the cursor);
    # no algorithm that moves the remaining elements around
    reorders = re.search(r"\b(?:std::)?(?:partition|stable_partition|remove_if|remove|swap|iter_swap|sort|stable_sort|rotate|reverse|unique|"
                         r"nth_element|partial_sort|shuffle|swap_ranges|move_backward)\s*\(", c)
    mods = re.findall(r"(?<!\w)_loggers\s*(?:\.|->)\s*(\w+)\s*\(([^()]*)\)", c)
    in_place = (bool(loop) and not reorders and all(m in ("begin", "end", "erase") for m, _ in mods)
                and [a.strip() for m, a in mods if m == "erase"] == ["it"] and not re.search(r"(?<!\w)_loggers\s*(?:=[^=]|\[)", c))
    return flag, per_invalid, in_place


def extract(repo, failures):
    src = strip_cpp_comments(read(repo, "include/quill/core/LoggerManager.h"))
    fnd = func_body(src, r"_find_logger\s*\(\s*std::string\s+const&\s*\w+\s*\)\s*const\s*(?:noexcept)?\s*\{")
    ins = func_body(src, r"void\s+_insert_logger\s*\([^)]*\)\s*\{")
    cog = func_body(src, r"create_or_get_logger\s*\(\s*std::string\s+const&\s*logger_name\s*,\s*std::vector[^{;]*\)\s*\{")
    get = func_body(src, r"LoggerBase\s*\*\s*get_logger\s*\(\s*std::string\s+const&\s*\w+\s*\)\s*const\s*\{")
    rem = func_body(src, r"void\s+remove_logger\s*\(\s*LoggerBase\s*\*\s*\w+\s*\)\s*\{")
    cln = func_body(src, r"cleanup_invalidated_loggers\s*\([^)]*\)\s*\{")
    gal = func_body(src, r"get_all_loggers\s*\(\s*\)\s*const\s*\{")
    cnt = func_body(src, r"get_number_of_loggers\s*\(\s*\)\s*const\s*(?:noexcept)?\s*\{")
    d = {}
    d["findAt"], d["findCmpOK"] = bound_call(fnd, failures, "_find_logger")
    d["insertAt"], d["insertCmpOK"] = bound_call(ins, failures, "_insert_logger")
    f1 = re.sub(r"\[\s*\]\s*\([^)]*\)\s*\{[^{}]*\}", "<cmp>", fnd or "")
    end = r"(?:std::end\s*\(\s*_loggers\s*\)|_loggers\.end\s*\(\s*\))"
    d["findTestsEndThenName"] = bool(re.search(
        r"auto\s+search_it\s*=\s*std::(?:lower|upper)_bound\s*\([^;]*;\s*return\s*\(?\s*search_it\s*!=\s*" + end +
        r"\s*&&\s*search_it->get\s*\(\s*\)->get_logger_name\s*\(\s*\)\s*==\s*target\s*\)?\s*\?\s*search_it->get\s*\(\s*\)\s*:\s*nullptr\s*;\s*$",
        f1.strip())) and len(re.findall(r"\breturn\b", f1)) == 1
    i1 = re.sub(r"\[\s*\]\s*\([^)]*\)\s*\{[^{}]*\}", "<cmp>", ins or "")
    d["insertsAtBound"] = bool(re.search(
        r"auto\s+search_it\s*=\s*std::(?:lower|upper)_bound\s*\([^;]*;\s*_loggers\.insert\s*\(\s*search_it\s*,\s*"
        r"(?:static_cast\s*<\s*std::unique_ptr\s*<\s*LoggerBase\s*>\s*&&\s*>\s*\(\s*logger\s*\)|std::move\s*\(\s*logger\s*\))\s*\)\s*;\s*$",
        i1.strip())) and len(re.findall(r"(?<!\w)_loggers\s*\.", i1)) == 3
    ok = False
    if cog:
        m = re.search(r"LoggerBase\s*\*\s*logger_ptr\s*=\s*_find_logger\s*\(\s*logger_name\s*\)\s*;\s*if\s*\(\s*!\s*logger_ptr\s*\)\s*\{", cog)
        if m:
            depth, j = 0, m.end() - 1
            while j < len(cog):
                if cog[j] == "{":
                    depth += 1
                elif cog[j] == "}":
                    depth -= 1
                    if depth == 0:
                        break
                j += 1
            inner, after, before = cog[m.end():j], cog[j + 1:], cog[:m.start()]
            ok = (len(re.findall(r"\bnew\s+TLogger\b", inner)) == 1 and len(re.findall(r"_insert_logger\s*\(", inner)) == 1
                  and bool(re.search(r"logger_ptr\s*=\s*_find_logger\s*\(\s*logger_name\s*\)\s*;", inner))
                  and inner.find("new TLogger") < inner.find("_insert_logger") < inner.rfind("_find_logger")
                  and "_insert_logger" not in after and "new " not in after and "_insert_logger" not in before and "new " not in before
                  and not re.match(r"\s*else\b", after) and bool(re.search(r"return\s+logger_ptr\s*;\s*$", after.strip()))
                  and len(re.findall(r"\breturn\b", cog)) == 1 and not re.search(r"(?<!\w)_loggers\b", cog))
    d["createOnlyWhenNotFound"] = ok
    d["getChecksValid"] = bool(get and re.search(
        r"LoggerBase\s*\*\s*logger\s*=\s*_find_logger\s*\(\s*logger_name\s*\)\s*;\s*return\s+logger\s*&&\s*logger->is_valid_logger\s*\(\s*\)\s*\?\s*logger\s*:\s*nullptr\s*;\s*$",
        get.strip()))
    d["removeMarksInvalidRaisesFlag"] = bool(rem and re.fullmatch(
        r"\s*logger->mark_invalid\s*\(\s*\)\s*;\s*_has_invalidated_loggers\.store\s*\(\s*true\s*(?:,[^)]*)?\)\s*;\s*", rem))
    d["cleanupFlagProtocol"], d["cleanupChecksQueuesPerInvalid"], d["cleanupErasesInPlace"] = cleanup_facts(cln)
    d["allFiltersValid"] = bool(gal and re.search(
        r"std::vector\s*<\s*LoggerBase\s*\*\s*>\s+loggers\s*;\s*for\s*\(\s*auto\s+const&\s*elem\s*:\s*_loggers\s*\)\s*\{\s*if\s*\(\s*elem->is_valid_logger\s*\(\s*\)\s*\)\s*"
        r"\{\s*loggers\.push_back\s*\(\s*elem\.get\s*\(\s*\)\s*\)\s*;\s*\}\s*\}\s*return\s+loggers\s*;\s*$", gal.strip()))
    d["countIsSize"] = bool(cnt and re.search(r"return\s+_loggers\.size\s*\(\s*\)\s*;\s*$", cnt.strip()))
    locked = all(b is not None and re.search(r"LockGuard\s+const\s+lock\s*\{\s*_spinlock\s*\}\s*;", b) for b in (cog, get, cln, gal, cnt))
    d["publicOpsLocked"] = bool(locked)
    # nothing else in the class touches the vector's order: the only writers are _insert_logger and the clean-up
    writers = re.findall(r"(?<!\w)_loggers\s*\.\s*(insert|erase|push_back|emplace_back|emplace|clear|pop_back|resize|assign|swap)\s*\(", src)
    d["sortedVectorOfOwners"] = (bool(re.search(r"std::vector\s*<\s*std::unique_ptr\s*<\s*LoggerBase\s*>\s*>\s+_loggers\s*;", src))
                                 and sorted(writers) == ["erase", "insert"])
    for k in ("findCmpOK", "insertCmpOK") + FACTS:
        if not d[k]:
            failures.append("LoggerManager: structural fact %s no longer recognised" % k)
    L = ["/-- which bound `_find_logger` / `_insert_logger` search for in the sorted `_loggers` vector -/",
         "def logRegParams : LogReg.Params := { findAt := .%s, insertAt := .%s }" % (d["findAt"], d["insertAt"]),
         "/-- the comparators order by `get_logger_name()` ascending, in the argument order their bound function requires -/",
         "def logRegComparatorsAscending : Bool := %s" % lean_bool(d["findCmpOK"] and d["insertCmpOK"]),
         "/-- `_find_logger` tests `!= end && name == target` and returns the entry; `_insert_logger` inserts at the bound;",
         "    `create_or_get_logger` constructs and inserts only when `_find_logger` returned null; `get_logger` returns the entry only when",
         "    `is_valid_logger()`; `remove_logger` marks invalid and raises the flag; the clean-up returns early on a lowered flag, lowers it,",
         "    calls `check_queues_empty()` once per invalid entry, re-arms the flag when one stays, and erases IN PLACE inside a forward loop",
         "    (`it = _loggers.erase(it)`, no reordering algorithm); `get_all_loggers` filters by validity, `get_number_of_loggers` is the size;",
         "    all under the lock; `_insert_logger` and the clean-up are the only writers of the vector -/",
         "def logRegStructure : List (String × Bool) := [%s]" % ", ".join('("%s", %s)' % (k, lean_bool(d[k])) for k in FACTS)]
    return d, "\n".join(L)


FALLBACK = ({"findAt": "lower", "insertAt": "lower"},
            "def logRegParams : LogReg.Params := { findAt := .upper, insertAt := .upper }\n"
            "def logRegComparatorsAscending : Bool := false\n"
            "def logRegStructure : List (String × Bool) := []")
