"""Pattern section of the extraction (property C12): the attribute tables of PatternFormatter (enum order, the
`"name"_a` list that fixes the slot ids, `_attribute_from_string`, the `_set_arg` sequence, the order and source of the
`_set_arg_val` statements of `format()`), structural facts of `_generate_fmt_format_string`, the default pattern, the
MacroMetadata accessors, the multi-line guard of the backend and the magic separator."""
import re

from extract import read, strip_cpp_comments, func_body, lean_bool, lean_str

IMPORTS = []

ATTR_SOURCES = [
    # (regex on the argument of _set_arg_val, canonical source name)
    (r"_timestamp_formatter\s*\.\s*format_timestamp", "time"),
    (r"log_statement_metadata\s*\.\s*file_name\s*\(\s*\)", "file_name"),
    (r"log_statement_metadata\s*\.\s*caller_function\s*\(\s*\)", "caller_function"),
    (r"^log_level_description$", "log_level"),
    (r"^log_level_short_code$", "log_level_short_code"),
    (r"log_statement_metadata\s*\.\s*line\s*\(\s*\)", "line_number"),
    (r"^logger$", "logger"),
    (r"log_statement_metadata\s*\.\s*full_path\s*\(\s*\)", "full_path"),
    (r"^thread_id$", "thread_id"),
    (r"^thread_name$", "thread_name"),
    (r"^process_id$", "process_id"),
    (r"log_statement_metadata\s*\.\s*short_source_location\s*\(\s*\)", "short_source_location"),
    (r"log_statement_metadata\s*\.\s*source_location\s*\(\s*\)", "source_location"),
    (r"_formatted_named_args_buffer", "named_args"),
    (r"log_statement_metadata\s*\.\s*tags\s*\(\s*\)|^std::string_view\s*\{\s*\}$", "tags"),
    (r"^log_msg$", "message"),
]


def c_unescape(lit):
    """bytes of a C string literal body (only the escapes that occur here)"""
    out = []
    i = 0
    while i < len(lit):
        c = lit[i]
        if c == "\\" and i + 1 < len(lit):
            n = lit[i + 1]
            if n == "x":
                j = i + 2
                h = ""
                while j < len(lit) and lit[j] in "0123456789abcdefABCDEF":
                    h += lit[j]
                    j += 1
                out.append(int(h, 16) & 0xFF)
                i = j
                continue
            if n in "01234567":
                j = i + 1
                o = ""
                while j < len(lit) and len(o) < 3 and lit[j] in "01234567":
                    o += lit[j]
                    j += 1
                out.append(int(o, 8) & 0xFF)
                i = j
                continue
            table = {"n": 10, "t": 9, "r": 13, "\\": 92, '"': 34, "'": 39, "0": 0}
            out.append(table.get(n, ord(n)))
            i += 2
            continue
        out.append(ord(c))
        i += 1
    return out


def matching_paren(s, i):
    """index of the ')' matching the '(' at s[i]"""
    depth = 0
    j = i
    while j < len(s):
        if s[j] == "(":
            depth += 1
        elif s[j] == ")":
            depth -= 1
            if depth == 0:
                return j
        j += 1
    return -1


def norm(e):
    return re.sub(r"\s+", "", e)


def local_aliases(body):
    """`T name = expr;` declarations of a function body -> [(name, expr, position of the declaration)]; a name that is
    declared twice or assigned again is not an alias"""
    found = {}
    for m in re.finditer(r"(?:^|[;{}])\s*(?:[A-Za-z_][\w:]*(?:\s*<[^;{}=]*>)?[\s\*&]+)+?([A-Za-z_]\w*)\s*=(?!=)\s*([^;{}]+);", body):
        name, expr = m.group(1), m.group(2).strip()
        found.setdefault(name, []).append((expr, m.start(1)))
    out = []
    for name, lst in found.items():
        reassigned = re.search(r"(?<![\w.>])" + re.escape(name) + r"\s*(?:[-+*/|&^]?=(?!=)|\+\+|--)", body[lst[0][1] + len(name):].split(";", 1)[1] if ";" in body[lst[0][1]:] else "")
        if len(lst) == 1 and not reassigned:
            out.append((name, lst[0][0], lst[0][1]))
    return out


def resolve_aliases(arg, aliases, body, use_pos):
    """substitute (repeatedly, bounded) the locals declared before `use_pos` into `arg`"""
    for _ in range(4):
        changed = False
        for name, expr, pos in aliases:
            if pos >= use_pos:
                continue
            new = re.sub(r"(?<![\w.>:])" + re.escape(name) + r"\b(?!\s*\()", lambda _m, e=expr: e, arg)
            if new != arg:
                arg, changed = new, True
        if not changed:
            break
    return arg


def extract(repo, failures):
    d = {}
    src = strip_cpp_comments(read(repo, "include/quill/backend/PatternFormatter.h"))

    # 1. enum order
    m = re.search(r"enum\s+Attribute\s*:\s*uint8_t\s*\{(.*?)\}", src, re.S)
    enum = []
    if m:
        for part in m.group(1).split(","):
            nm = part.split("=")[0].strip()
            if nm:
                enum.append(nm)
        if enum and enum[-1] == "ATTR_NR_ITEMS":
            enum = enum[:-1]
        else:
            failures.append("pattern: enum Attribute does not end with ATTR_NR_ITEMS")
    else:
        failures.append("pattern: enum Attribute not found")
    d["attrEnum"] = enum

    # 2./4. _set_pattern
    sp = func_body(src, r"void\s+_set_pattern\s*\(\s*\)\s*\{")
    arg_names, set_arg = [], []
    if sp is None:
        failures.append("pattern: _set_pattern not found")
    else:
        arg_names = re.findall(r'"([^"]*)"\s*_a\s*=', sp)
        for mm in re.finditer(r"_set_arg\s*<\s*Attribute::(\w+)\s*>\s*\(([^;]*?)\)\s*;", sp):
            lit = re.search(r'"([^"]*)"', mm.group(2))
            set_arg.append((mm.group(1), lit.group(1) if lit else "?"))
        if not re.search(r"_generate_fmt_format_string\s*\(\s*_is_set_in_pattern\s*,\s*_options\.format_pattern", sp):
            failures.append("pattern: _set_pattern no longer passes _options.format_pattern to _generate_fmt_format_string")
    d["argNames"] = arg_names
    d["setArgSeq"] = set_arg

    # 3. _attribute_from_string
    afs = func_body(src, r"_attribute_from_string\s*\([^)]*\)\s*\{")
    attr_map = []
    if afs is None:
        failures.append("pattern: _attribute_from_string not found")
    else:
        attr_map = re.findall(r'\{\s*"([^"]*)"\s*,\s*PatternFormatter::Attribute::(\w+)\s*\}', afs)
    d["attrMap"] = [list(x) for x in attr_map]

    # 5. format(): order, guard and source of every _set_arg_val
    fm = re.search(r"std::string_view\s+format\s*\(", src)
    fmt_seq = []
    empty_returns_empty = False
    vformat_on_fmt = False
    if not fm:
        failures.append("pattern: format() not found")
    else:
        close = matching_paren(src, fm.end() - 1)
        fb = func_body(src[close:], r"\)\s*\{") if close > 0 else None
        if fb is None:
            failures.append("pattern: body of format() not found")
        else:
            empty_returns_empty = bool(re.search(
                r"if\s*\(\s*_options\.format_pattern\.empty\s*\(\s*\)\s*\)\s*\{\s*return\s+std::string_view\s*\{\s*\}\s*;", fb))
            vformat_on_fmt = bool(re.search(r"vformat_to\s*\(\s*std::back_inserter\s*\(\s*_formatted_log_message_buffer\s*\)\s*,\s*_fmt_format\s*,", fb))
            # guards: positions of `if (_is_set_in_pattern[Attribute::X])` and the extent of their blocks
            guards = []
            for g in re.finditer(r"if\s*\(\s*_is_set_in_pattern\s*\[\s*Attribute::(\w+)\s*\]\s*\)\s*\{", fb):
                depth, j = 0, g.end() - 1
                while j < len(fb):
                    if fb[j] == "{":
                        depth += 1
                    elif fb[j] == "}":
                        depth -= 1
                        if depth == 0:
                            break
                    j += 1
                guards.append((g.group(1), g.end(), j))
            # locals that merely name an expression (`char const* const tags = log_statement_metadata.tags();`) are
            # resolved before the argument is classified: what the model fixes is which attribute is set, in which
            # order, under which guard, from which source — not the shape of the statement that does it
            aliases = local_aliases(fb)
            for mm in re.finditer(r"_set_arg_val\s*<\s*Attribute::(\w+)\s*>\s*\(", fb):
                end = matching_paren(fb, mm.end() - 1)
                arg = resolve_aliases(fb[mm.end():end].strip(), aliases, fb, mm.start())
                canon = "?"
                for rx, nm in ATTR_SOURCES:
                    if re.search(rx, arg):
                        canon = nm
                        break
                guarded_by = [g[0] for g in guards if g[1] <= mm.start() <= g[2]]
                guard = guarded_by[-1] if guarded_by else ""
                entry = (mm.group(1), canon, guard)
                # the two branches of the tags block are one logical statement
                if fmt_seq and fmt_seq[-1] == entry:
                    continue
                fmt_seq.append(entry)
            if not re.search(r"_formatted_log_message_buffer\s*\.\s*clear\s*\(\s*\)", fb):
                failures.append("pattern: format() no longer clears its buffer")
    d["formatSeq"] = [list(x) for x in fmt_seq]
    d["emptyPatternReturnsEmpty"] = empty_returns_empty
    d["vformatOnRewrittenString"] = vformat_on_fmt

    # named args joiner
    d["namedArgsKeyValueSep"] = ""
    d["namedArgsPairSep"] = ""
    if fm:
        mkv = re.search(r'append\s*\(\s*\(\*named_args\)\[i\]\.first\s*\)\s*;\s*_formatted_named_args_buffer\.append\s*\(\s*std::string_view\s*\{\s*"([^"]*)"\s*\}\s*\)', src)
        mps = re.search(r'if\s*\(\s*i\s*!=\s*named_args->size\(\)\s*-\s*1\s*\)\s*\{\s*_formatted_named_args_buffer\.append\s*\(\s*std::string_view\s*\{\s*"([^"]*)"\s*\}\s*\)', src)
        if mkv and mps:
            d["namedArgsKeyValueSep"] = mkv.group(1)
            d["namedArgsPairSep"] = mps.group(1)
        else:
            failures.append("pattern: named-args joiner of format() not recognised")

    # 6. _generate_fmt_format_string
    gm = re.search(r"_generate_fmt_format_string\s*\(\s*std::bitset", src)
    gen = None
    if gm:
        close = matching_paren(src, src.index("(", gm.start()))
        gen = func_body(src[close:], r"\)\s*\{") if close > 0 else None
    if gen is None:
        failures.append("pattern: _generate_fmt_format_string not found")
        gen = ""
    d["appendsNewline"] = bool(re.search(r'pattern\s*\+=\s*"\\n"\s*;', gen))
    d["orderFillIsLast"] = bool(re.search(r"order_index\s*\.\s*fill\s*\(\s*PatternFormatter::Attribute::ATTR_NR_ITEMS\s*-\s*1\s*\)", gen))
    d["argIdxIsUint8"] = bool(re.search(r"uint8_t\s+arg_idx\s*=\s*0\s*;", gen))
    d["fieldStartIsPercentParen"] = bool(
        re.search(r"pattern\.find_first_of\s*\(\s*'%'\s*\)", gen) and
        re.search(r"pattern\.find_first_of\s*\(\s*'\('\s*,\s*arg_identifier_pos\s*\)", gen) and
        re.search(r"\(\s*open_paren_pos\s*-\s*arg_identifier_pos\s*\)\s*==\s*1", gen))
    d["fieldEndIsFirstCloseParen"] = bool(re.search(r"pattern\.find_first_of\s*\(\s*'\)'\s*,\s*open_paren_pos\s*\)", gen))
    d["specStartsAtFirstColon"] = bool(re.search(r"attr\.find\s*\(\s*':'\s*\)", gen))
    d["unterminatedThrows"] = bool(re.search(r'closed_paren_pos\s*==\s*std::string::npos\s*\)\s*\{\s*QUILL_THROW\s*\(\s*QuillError\s*\{\s*"Invalid format pattern"\s*\}', gen))
    d["unknownThrows"] = bool(re.search(r'if\s*\(\s*id\s*<\s*0\s*\)\s*\{\s*QUILL_THROW', gen))
    d["rescansFromStart"] = bool(re.search(r"is_set_in_pattern\.set\s*\(\s*attr_enum_value\s*\)\s*;\s*arg_identifier_pos\s*=\s*pattern\.find_first_of\s*\(\s*'%'\s*\)\s*;", gen))
    d["slotIsArgIdxPostIncrement"] = bool(re.search(r"order_index\s*\[\s*static_cast<size_t>\s*\(\s*id\s*\)\s*\]\s*=\s*arg_idx\+\+\s*;", gen))
    d["replacementPlain"] = (re.search(r'pattern\.replace\s*\(\s*arg_identifier_pos\s*,\s*attr\.length\s*\(\s*\)\s*,\s*"([^"]*)"\s*\)', gen) or [None, "?"])[1]
    mv = re.search(r'value\s*\+=\s*"([^"]*)"\s*;\s*value\s*\+=\s*custom_format_specifier\s*;\s*value\s*\+=\s*"([^"]*)"\s*;', gen)
    d["replacementSpecOpen"] = mv.group(1) if mv else "?"
    d["replacementSpecClose"] = mv.group(2) if mv else "?"

    # 7. PatternFormatterOptions defaults
    osrc = strip_cpp_comments(read(repo, "include/quill/core/PatternFormatterOptions.h"))
    mo = re.search(r"explicit\s+PatternFormatterOptions\s*\(\s*std::string\s+format_pattern\s*=\s*((?:\"(?:[^\"\\]|\\.)*\"\s*)+),", osrc)
    if mo:
        d["defaultPattern"] = "".join(re.findall(r'"((?:[^"\\]|\\.)*)"', mo.group(1)))
    else:
        failures.append("pattern: default format pattern not found")
        d["defaultPattern"] = ""
    mo2 = re.search(r"bool\s+add_metadata_to_multi_line_logs\s*=\s*(true|false)\s*\)", osrc)
    if mo2:
        d["defaultAddMetadata"] = mo2.group(1) == "true"
    else:
        failures.append("pattern: default of add_metadata_to_multi_line_logs not found")
        d["defaultAddMetadata"] = True

    # 8. magic separator
    csrc = read(repo, "include/quill/core/Common.h")
    ms = re.search(r'#\s*define\s+QUILL_MAGIC_SEPARATOR\s+"((?:[^"\\]|\\.)*)"', csrc)
    if ms:
        d["magicSeparator"] = c_unescape(ms.group(1))
    else:
        failures.append("pattern: QUILL_MAGIC_SEPARATOR not found")
        d["magicSeparator"] = []

    # 9. MacroMetadata accessors
    msrc = strip_cpp_comments(read(repo, "include/quill/core/MacroMetadata.h"))

    def ret_of(name):
        b = func_body(msrc, r"\b" + name + r"\s*\(\s*\)\s*const\s*noexcept\s*\{")
        if b is None:
            failures.append("pattern: MacroMetadata::%s not found" % name)
            return "?"
        r = re.search(r"return\s+(.*?);", b, re.S)
        return norm(r.group(1)) if r else "?"

    d["metaSourceLocation"] = ret_of("source_location")
    d["metaLine"] = ret_of("line")
    d["metaFullPath"] = ret_of("full_path")
    d["metaFileName"] = ret_of("file_name")
    d["metaShort"] = ret_of("short_source_location")
    cb = func_body(msrc, r"_calc_colon_separator_pos\s*\(\s*\)\s*const\s*noexcept\s*\{") or ""
    d["colonIsLastColon"] = bool(re.search(r"source_loc\s*\.\s*rfind\s*\(\s*':'\s*\)", cb) and re.search(r"static_cast<uint16_t>\s*\(\s*separator_index\s*\)", cb))
    fb2 = func_body(msrc, r"_calc_file_name_pos\s*\(\s*\)\s*const\s*noexcept\s*\{") or ""
    d["fileNameAfterLastSlash"] = bool(
        re.search(r"char\s+cur\s*=\s*\*source_location\+\+\s*;", fb2) and
        re.search(r"if\s*\(\s*cur\s*==\s*'/'\s*\|\|\s*cur\s*==\s*PATH_PREFERRED_SEPARATOR\s*\)\s*\{\s*file\s*=\s*source_location\s*;", fb2) and
        re.search(r"return\s+static_cast<uint16_t>\s*\(\s*file\s*-\s*_source_location\s*\)", fb2))

    # 10. backend: multi-line guard, strip rule, split loop, runtime metadata
    bsrc = strip_cpp_comments(read(repo, "include/quill/backend/BackendWorker.h"))
    disp = func_body(bsrc, r"void\s+_dispatch_transit_event_to_sinks\s*\([^)]*\)\s*\{") or ""
    d["multiLineGuard"] = bool(re.search(
        r"if\s*\(\s*transit_event\.logger_base->pattern_formatter->get_options\(\)\.add_metadata_to_multi_line_logs\s*&&\s*"
        r"\(\s*!transit_event\.named_args\s*\|\|\s*transit_event\.named_args->empty\(\)\s*\)\s*\)\s*\{[^}]*_process_multi_line_message", disp, re.S))
    d["stripsOneTrailingNewline"] = bool(re.search(
        r"\(\s*transit_event\.formatted_msg->size\(\)\s*>\s*0\s*\)\s*&&\s*\(\s*transit_event\.formatted_msg->data\(\)\s*\[\s*transit_event\.formatted_msg->size\(\)\s*-\s*1\s*\]\s*==\s*'\\n'\s*\)\s*\)\s*"
        r"\?\s*transit_event\.formatted_msg->size\(\)\s*-\s*1\s*:\s*transit_event\.formatted_msg->size\(\)", disp, re.S))
    ml = func_body(bsrc, r"void\s+_process_multi_line_message\s*\([^)]*\)\s*const\s*\{") or ""
    d["splitLoop"] = bool(
        re.search(r"if\s*\(\s*QUILL_UNLIKELY\s*\(\s*msg\.empty\(\)\s*\)\s*\)", ml) and
        re.search(r"size_t\s+start\s*=\s*0\s*;\s*while\s*\(\s*start\s*<\s*msg\.size\(\)\s*\)", ml) and
        re.search(r"msg\.find_first_of\s*\(\s*'\\n'\s*,\s*start\s*\)", ml) and
        re.search(r"std::string_view\s*\(\s*msg\.data\(\)\s*\+\s*start\s*,\s*msg\.size\(\)\s*-\s*start\s*\)\s*\)\s*;\s*break\s*;", ml) and
        re.search(r"std::string_view\s*\(\s*msg\.data\(\)\s*\+\s*start\s*,\s*end\s*-\s*start\s*\)\s*\)\s*;\s*start\s*=\s*end\s*\+\s*1\s*;", ml))
    # sink override pattern: chosen per sink on the write path by the sink's *options*, its formatter created there on
    # first use — and nowhere on the path that sets up / shares the logger's formatter
    wls = norm(func_body(bsrc, r"void\s+_write_log_statement\s*\([^)]*\)\s*const\s*\{") or "")
    i_for = wls.find("for(auto&sink:transit_event.logger_base->sinks)")
    m_sel = re.search(r"if\(sink->_override_pattern_formatter_options(?:\.has_value\(\))?\)\{", wls)
    m_new = re.search(r"if\(!sink->_override_pattern_formatter\)\{sink->_override_pattern_formatter=std::make_shared<PatternFormatter>\("
                      r"\*sink->_override_pattern_formatter_options\);\}", wls)
    i_use = wls.find("log_to_write=sink->_override_pattern_formatter->format(")
    i_out = wls.find("sink->write_log(")
    d["overrideChosenOnWritePath"] = bool(m_sel and m_new and 0 <= i_for < m_sel.start() < m_new.start() < i_use < i_out
                                          and wls.count("_override_pattern_formatter->format(") == 1
                                          and "_override_pattern_formatter" not in norm(disp))
    rt = func_body(bsrc, r"void\s+_apply_runtime_metadata\s*\([^)]*\)\s*\{") or ""
    d["runtimeSplitsOnSeparator"] = bool(
        re.search(r"delimiter\s*\{\s*QUILL_MAGIC_SEPARATOR\s*\}", rt) and
        re.search(r"formatted_view\.find\s*\(\s*delimiter\s*\)", rt) and
        re.search(r"formatted_view\.find\s*\(\s*delimiter\s*,\s*pos_first_delim\s*\+\s*delimiter\.size\(\)\s*\)", rt) and
        re.search(r"formatted_view\.find\s*\(\s*delimiter\s*,\s*pos_second_delim\s*\+\s*delimiter\.size\(\)\s*\)", rt) and
        re.search(r"message\s*=\s*formatted_view\.substr\s*\(\s*0\s*,\s*pos_first_delim\s*\)", rt) and
        re.search(r"try_resize\s*\(\s*message\.size\(\)\s*\)", rt))
    mj = re.search(r'fileline\s*=\s*std::string\s*\{\s*file\s*\}\s*\+\s*"([^"]*)"\s*\+\s*std::string\s*\{\s*line\s*\}', rt)
    d["runtimeFileLineJoin"] = mj.group(1) if mj else "?"
    d["runtimeMetadataArgs"] = bool(re.search(
        r"make_unique<MacroMetadata>\s*\(\s*it->first\.first\.data\(\)\s*,\s*it->first\.second\.data\(\)", rt, re.S))
    lm = read(repo, "include/quill/LogMacros.h")
    d["runtimeMacroOrder"] = bool(re.search(
        r'fmt\s+QUILL_MAGIC_SEPARATOR\s*"\{\}"\s*QUILL_MAGIC_SEPARATOR\s*"\{\}"\s*QUILL_MAGIC_SEPARATOR\s*"\{\}"\s*;', lm) and
        re.search(r"##__VA_ARGS__\s*,\s*file\s*,\s*line_number\s*,\s*function\s*\)", lm))

    # ---- Lean text ---------------------------------------------------------------------------------
    def lst(xs):
        return "[" + ", ".join(xs) + "]"

    L = []
    L.append("/-- enum `PatternFormatter::Attribute`, in order, without `ATTR_NR_ITEMS` -/")
    L.append("def attrEnum : List String := " + lst(lean_str(x) for x in enum))
    L.append("/-- the `\"name\"_a = \"\"` list of `_set_pattern` (position = slot id) -/")
    L.append("def argNames : List String := " + lst(lean_str(x) for x in arg_names))
    L.append("/-- `_attribute_from_string` -/")
    L.append("def attrMap : List (String × String) := " + lst("(%s, %s)" % (lean_str(a), lean_str(b)) for a, b in attr_map))
    L.append("/-- the `_set_arg<Attribute::X>(\"name\")` statements of `_set_pattern`, in order -/")
    L.append("def setArgSeq : List (String × String) := " + lst("(%s, %s)" % (lean_str(a), lean_str(b)) for a, b in set_arg))
    L.append("/-- the `_set_arg_val<Attribute::X>(source)` statements of `format()`, in order: attribute, canonical source, guarding `_is_set_in_pattern[...]` (empty = unconditional) -/")
    L.append("def formatSeq : List (String × String × String) := " + lst("(%s, %s, %s)" % (lean_str(a), lean_str(b), lean_str(c)) for a, b, c in fmt_seq))
    for k in ("emptyPatternReturnsEmpty", "vformatOnRewrittenString", "appendsNewline", "orderFillIsLast", "argIdxIsUint8",
              "fieldStartIsPercentParen", "fieldEndIsFirstCloseParen", "specStartsAtFirstColon", "unterminatedThrows",
              "unknownThrows", "rescansFromStart", "slotIsArgIdxPostIncrement", "defaultAddMetadata", "colonIsLastColon",
              "fileNameAfterLastSlash", "multiLineGuard", "stripsOneTrailingNewline", "splitLoop", "runtimeSplitsOnSeparator",
              "runtimeMetadataArgs", "runtimeMacroOrder", "overrideChosenOnWritePath"):
        L.append("def %s : Bool := %s" % (k, lean_bool(d[k])))
    for k in ("replacementPlain", "replacementSpecOpen", "replacementSpecClose", "namedArgsKeyValueSep", "namedArgsPairSep",
              "defaultPattern", "metaSourceLocation", "metaLine", "metaFullPath", "metaFileName", "metaShort", "runtimeFileLineJoin"):
        L.append("def %s : String := %s" % (k, lean_str(d[k])))
    L.append("/-- bytes of `QUILL_MAGIC_SEPARATOR` -/")
    L.append("def magicSeparator : List Nat := " + lst(str(x) for x in d["magicSeparator"]))
    return d, "\n".join(L)


FALLBACK = ({}, "\n".join([
    "def attrEnum : List String := []", "def argNames : List String := []", "def attrMap : List (String × String) := []",
    "def setArgSeq : List (String × String) := []", "def formatSeq : List (String × String × String) := []"] +
    ["def %s : Bool := false" % k for k in (
        "emptyPatternReturnsEmpty", "vformatOnRewrittenString", "appendsNewline", "orderFillIsLast", "argIdxIsUint8",
        "fieldStartIsPercentParen", "fieldEndIsFirstCloseParen", "specStartsAtFirstColon", "unterminatedThrows",
        "unknownThrows", "rescansFromStart", "slotIsArgIdxPostIncrement", "defaultAddMetadata", "colonIsLastColon",
        "fileNameAfterLastSlash", "multiLineGuard", "stripsOneTrailingNewline", "splitLoop", "runtimeSplitsOnSeparator",
        "runtimeMetadataArgs", "runtimeMacroOrder", "overrideChosenOnWritePath")] +
    ["def %s : String := \"\"" % k for k in (
        "replacementPlain", "replacementSpecOpen", "replacementSpecClose", "namedArgsKeyValueSep", "namedArgsPairSep",
        "defaultPattern", "metaSourceLocation", "metaLine", "metaFullPath", "metaFileName", "metaShort", "runtimeFileLineJoin")] +
    ["def magicSeparator : List Nat := []"]))
