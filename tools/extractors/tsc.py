"""RdtscClock section of the extraction (C05/C06 with ClockSourceType::Tsc): the constants and comparison operators of
`resync` / `time_since_epoch` / the constructor, the slot/version protocol (store the new base in slot (version+1)&1, THEN
bump the version with release; readers: relaxed on the backend thread, acquire twice in `time_since_epoch_safe`), where the
backend converts (`_populate_transit_event_from_frontend_queue`: before the `ts_now` gate, on the converted value), which
value `_process_lowest_timestamp_transit_event` compares, the idle-path resync and the default `rdtsc_resync_interval`."""
import re

from extract import read, strip_cpp_comments, func_body, lean_bool

IMPORTS = ["QuillModel.Tsc.Model"]


def _int(pat, src, failures, what, default):
    m = re.search(pat, src, re.S) if src else None
    if not m:
        failures.append("RdtscClock: %s not found" % what)
        return default
    return int(m.group(1))


def extract(repo, failures):
    src = strip_cpp_comments(read(repo, "include/quill/backend/RdtscClock.h"))
    bw = strip_cpp_comments(read(repo, "include/quill/backend/BackendWorker.h"))
    bo = strip_cpp_comments(read(repo, "include/quill/backend/BackendOptions.h"))
    rdt = strip_cpp_comments(read(repo, "include/quill/core/Rdtsc.h"))
    d = {}
    rs = func_body(src, r"bool\s+resync\s*\(\s*uint32_t\s+lag\s*\)\s*const\s+noexcept\s*\{")
    tse = func_body(src, r"uint64_t\s+time_since_epoch\s*\(\s*uint64_t\s+rdtsc_value\s*\)\s*const\s+noexcept\s*\{")
    safe = func_body(src, r"uint64_t\s+time_since_epoch_safe\s*\(\s*uint64_t\s+rdtsc_value\s*\)\s*const\s+noexcept\s*\{")
    ctor = None
    m = re.search(r"explicit\s+RdtscClock\s*\(\s*std::chrono::nanoseconds\s+resync_interval\s*\)\s*:(.*?)\{", src, re.S)
    if m:
        d["_ctor_init"] = re.sub(r"\s+", "", m.group(1))
        ctor = func_body(src[m.end() - 1:], r"\{")
    for nm, b in (("resync", rs), ("time_since_epoch", tse), ("time_since_epoch_safe", safe), ("constructor", ctor)):
        if b is None:
            failures.append("RdtscClock: %s not found" % nm)
    rs, tse, safe, ctor = rs or "", tse or "", safe or "", ctor or ""
    d["maxAttempts"] = _int(r"constexpr\s+uint8_t\s+max_attempts\s*\{\s*(\d+)\s*\}", rs, failures, "max_attempts", 4)
    loop = re.search(r"for\s*\(\s*uint8_t\s+attempt\s*=\s*0\s*;\s*attempt\s*<\s*max_attempts\s*;\s*\+\+\s*attempt\s*\)", rs)
    d["attemptLoop"] = bool(loop)
    d["convLag"] = _int(r"resync\s*\(\s*(\d+)\s*\)", tse, failures, "lag of the resync inside time_since_epoch", 2500)
    lags = re.findall(r"resync\s*\(\s*(\d+)\s*\)", ctor)
    d["ctorShape"] = bool(re.search(r"if\s*\(\s*!\s*resync\s*\(\s*\d+\s*\)\s*\)\s*\{\s*if\s*\(\s*!\s*resync\s*\(\s*\d+\s*\)\s*\)", ctor)) and len(lags) == 2
    d["ctorLag1"], d["ctorLag2"] = (int(lags[0]), int(lags[1])) if len(lags) == 2 else (2500, 10000)
    idle = func_body(bw, r"void\s+_resync_rdtsc_clock\s*\(\s*\)\s*\{") or ""
    d["idleLag"] = _int(r"->\s*resync\s*\(\s*(\d+)\s*\)", idle, failures, "lag of _resync_rdtsc_clock", 2500)
    # trigger: `if (diff > _resync_interval_ticks)`
    m = re.search(r"if\s*\(\s*diff\s*(>=|>)\s*_resync_interval_ticks\s*\)", tse)
    if not m:
        failures.append("RdtscClock: resync trigger comparison not recognised")
    d["triggerStrict"] = bool(m and m.group(1) == ">")
    # lag test: `if (QUILL_LIKELY(end - beg <= lag))`
    m = re.search(r"if\s*\(\s*(?:QUILL_LIKELY\s*\(\s*)?end\s*-\s*beg\s*(<=|<|>=|>)\s*lag\s*\)?\s*\)", rs)
    if not m:
        failures.append("RdtscClock: lag comparison not recognised")
    d["lagInclusive"] = bool(m and m.group(1) == "<=")
    d["lagInverted"] = bool(m and m.group(1) in (">", ">="))
    # reads of one attempt, in order: rdtsc, system_clock, rdtsc
    d["readOrder"] = bool(re.search(r"uint64_t\s+const\s+beg\s*=\s*rdtsc\s*\(\s*\)\s*;\s*auto\s+const\s+wall_time\s*=\s*static_cast<int64_t>\s*\(\s*"
                                    r"detail::get_timestamp_ns<std::chrono::system_clock>\s*\(\s*\)\s*\)\s*;\s*uint64_t\s+const\s+end\s*=\s*rdtsc\s*\(\s*\)\s*;", rs))
    # protocol: index = (version.load(relaxed) + 1) & (size-1); base_time = wall; base_tsc = avg; version.fetch_add(1, release); interval = original
    proto = re.search(r"auto\s+const\s+index\s*=\s*\(\s*_version\.load\s*\(\s*std::memory_order_(\w+)\s*\)\s*(\+\s*1)?\s*\)\s*&\s*\(\s*_base\.size\s*\(\s*\)\s*-\s*1\s*\)\s*;\s*"
                      r"(.*?)_resync_interval_ticks\s*=\s*_resync_interval_original\s*;\s*return\s+true\s*;", rs, re.S)
    d["writeNext"] = bool(proto and proto.group(2))
    steps = re.sub(r"\s+", "", proto.group(3)) if proto else ""
    d["storeThenFlip"] = steps == "_base[index].base_time=wall_time;_base[index].base_tsc=_fast_average(beg,end);_version.fetch_add(1,std::memory_order_release);"
    d["resyncVersionLoad"] = proto.group(1) if proto else "?"
    d["flipOrder"] = (re.search(r"_version\.fetch_add\s*\(\s*1\s*,\s*std::memory_order_(\w+)\s*\)", rs) or [None, "?"])[1]
    d["failureDoubles"] = bool(re.search(r"_resync_interval_ticks\s*=\s*_resync_interval_ticks\s*\*\s*2\s*;\s*return\s+false\s*;\s*$", rs.strip()))
    # time_since_epoch: index captured before the resync, diff recomputed from the same index, result formula
    d["tseShape"] = bool(re.search(
        r"auto\s+const\s+index\s*=\s*_version\.load\s*\(\s*std::memory_order_relaxed\s*\)\s*&\s*\(\s*_base\.size\s*\(\s*\)\s*-\s*1\s*\)\s*;\s*"
        r"auto\s+diff\s*=\s*static_cast<int64_t>\s*\(\s*rdtsc_value\s*-\s*_base\[index\]\.base_tsc\s*\)\s*;\s*"
        r"if\s*\(\s*diff\s*>=?\s*_resync_interval_ticks\s*\)\s*\{\s*resync\s*\(\s*\d+\s*\)\s*;\s*"
        r"diff\s*=\s*static_cast<int64_t>\s*\(\s*rdtsc_value\s*-\s*_base\[index\]\.base_tsc\s*\)\s*;\s*\}\s*"
        r"return\s+static_cast<uint64_t>\s*\(\s*_base\[index\]\.base_time\s*\+\s*static_cast<int64_t>\s*\(\s*static_cast<double>\s*\(\s*diff\s*\)\s*\*\s*_ns_per_tick\s*\)\s*\)\s*;\s*$",
        tse.strip()))
    d["safeShape"] = bool(re.search(r"version\s*=\s*_version\.load\s*\(\s*std::memory_order_acquire\s*\)\s*;", safe)
                          and re.search(r"while\s*\(\s*version\s*!=\s*_version\.load\s*\(\s*std::memory_order_acquire\s*\)\s*\)\s*;", safe)
                          and re.search(r"base_tsc\s*\)\s*==\s*0\s*&&\s*\(\s*_base\[index\]\.base_time\s*==\s*0", safe)
                          and "resync" not in safe)
    d["fastAverage"] = bool(re.search(r"_fast_average\s*\(\s*uint64_t\s+x\s*,\s*uint64_t\s+y\s*\)\s*noexcept\s*\{\s*return\s*\(\s*x\s*&\s*y\s*\)\s*\+\s*\(\s*\(\s*x\s*\^\s*y\s*\)\s*>>\s*1\s*\)\s*;", src))
    d["intervalInit"] = d.get("_ctor_init", "").startswith(
        "_resync_interval_ticks(static_cast<std::int64_t>(static_cast<double>(resync_interval.count())*RdtscTicks::instance().ns_per_tick())),"
        "_resync_interval_original(_resync_interval_ticks),_ns_per_tick(RdtscTicks::instance().ns_per_tick())")
    d.pop("_ctor_init", None)
    d["twoSlots"] = bool(re.search(r"std::array<BaseTimeTsc,\s*2>\s+_base", src)) and bool(re.search(r"std::atomic<uint32_t>\s+_version", src))
    d["nsPerTickConst"] = len(re.findall(r"_ns_per_tick\s*=[^=]", src.split("explicit RdtscClock")[-1])) == 0   # never reassigned after construction
    # the backend: conversion at decode, before the gate; gate and pop rule on transit_event->timestamp
    pop_ = func_body(bw, r"bool\s+_populate_transit_event_from_frontend_queue\s*\([^)]*\)\s*\{") or ""
    i_conv = pop_.find("->time_since_epoch(transit_event->timestamp)")
    i_gate = pop_.find("transit_event->timestamp > ts_now")
    d["convertBeforeGate"] = 0 <= i_conv < i_gate and bool(re.search(
        r"if\s*\(\s*transit_event->logger_base->clock_source\s*==\s*ClockSourceType::Tsc\s*\)", pop_[:i_conv])) and bool(re.search(
        r"transit_event->timestamp\s*=\s*_rdtsc_clock\.load\s*\(\s*std::memory_order_relaxed\s*\)\s*->\s*time_since_epoch\s*\(\s*transit_event->timestamp\s*\)\s*;", pop_))
    # the gate is a separate `if` after the TSC block (not `else if`), for every clock source but User, only when the grace period is on
    mg = re.search(r"(else\s+)?if\s*\(\s*\(\s*transit_event->logger_base->clock_source\s*!=\s*ClockSourceType::User\s*\)\s*&&\s*"
                   r"\(\s*ts_now\s*!=\s*std::numeric_limits<uint64_t>::max\s*\(\s*\)\s*\)\s*\)\s*\{", pop_)
    d["gateForNonUser"] = bool(mg)
    d["gateAfterConv"] = bool(mg and not mg.group(1) and 0 <= i_conv < mg.start() and i_gate > mg.end() - 1
                              and len(re.findall(r"transit_event->timestamp\s*>\s*ts_now", pop_)) == 1)
    d["gateReturnsFalse"] = bool(re.search(r"if\s*\(\s*(?:QUILL_UNLIKELY\s*\(\s*)?transit_event->timestamp\s*>\s*ts_now\s*\)?\s*\)\s*\{\s*return\s+false\s*;", pop_))
    d["lazyClock"] = bool(re.search(r"_rdtsc_clock\.store\s*\(\s*new\s+RdtscClock\s*\{\s*_options\.rdtsc_resync_interval\s*\}\s*,\s*std::memory_order_release\s*\)", pop_))
    low = func_body(bw, r"bool\s+_process_lowest_timestamp_transit_event\s*\(\s*\)\s*\{") or ""
    d["popComparesStored"] = bool(re.search(r"if\s*\(\s*te\s*&&\s*\(\s*min_ts\s*>\s*te->timestamp\s*\)\s*\)\s*\{\s*min_ts\s*=\s*te->timestamp\s*;\s*thread_context\s*=\s*tc\s*;", low))
    d["idleShape"] = bool(re.search(r"\(\s*now\s*-\s*_last_rdtsc_resync_time\s*\)\s*>\s*_options\.rdtsc_resync_interval", idle))
    d["frontendReadsRdtsc"] = bool(re.search(r"if\s*\(\s*clock_source\s*==\s*ClockSourceType::Tsc\s*\)\s*\{\s*current_timestamp\s*=\s*detail::rdtsc\s*\(\s*\)\s*;",
                                             strip_cpp_comments(read(repo, "include/quill/Logger.h"))))
    d["rdtscIsIntrinsic"] = bool(re.search(r"inline\s+uint64_t\s+rdtsc\s*\(\s*\)\s*noexcept\s*\{\s*return\s+__rdtsc\s*\(\s*\)\s*;\s*\}", rdt))
    d["defaultResyncMs"] = _int(r"std::chrono::milliseconds\s+rdtsc_resync_interval\s*=\s*std::chrono::milliseconds\s*\{\s*(\d+)\s*\}", bo, failures,
                                "default rdtsc_resync_interval", 500)
    facts = ("attemptLoop", "ctorShape", "readOrder", "storeThenFlip", "failureDoubles", "tseShape", "safeShape", "fastAverage", "intervalInit",
             "twoSlots", "nsPerTickConst", "convertBeforeGate", "gateForNonUser", "gateReturnsFalse", "lazyClock", "popComparesStored", "idleShape",
             "frontendReadsRdtsc", "rdtscIsIntrinsic")
    for k in facts:
        if not d[k]:
            failures.append("RdtscClock: structural fact %s no longer recognised" % k)
    L = ["/-- constants and comparison operators of `RdtscClock::resync` / `time_since_epoch` / the constructor and of",
         "    `BackendWorker::_resync_rdtsc_clock` -/",
         "def tscParams : Tsc.Params :=",
         "  { maxAttempts := %d, convLag := %d, ctorLag1 := %d, ctorLag2 := %d, idleLag := %d," % (
             d["maxAttempts"], d["convLag"], d["ctorLag1"], d["ctorLag2"], d["idleLag"]),
         "    triggerStrict := %s, lagInclusive := %s, lagInverted := %s, writeNext := %s }" % (
             lean_bool(d["triggerStrict"]), lean_bool(d["lagInclusive"]), lean_bool(d["lagInverted"]), lean_bool(d["writeNext"]) + ", gateAfterConv := " + lean_bool(d["gateAfterConv"])),
         "/-- memory orders of the slot/version protocol: (version load in resync, version fetch_add in resync) -/",
         'def tscOrders : String × String := ("%s", "%s")' % (d["resyncVersionLoad"], d["flipOrder"]),
         "/-- `BackendOptions::rdtsc_resync_interval` default, milliseconds -/",
         "def tscDefaultResyncMs : Nat := %d" % d["defaultResyncMs"],
         "/-- structural facts the model transcribes (see tools/extractors/tsc.py for the exact shapes) -/",
         "def tscStructure : List (String × Bool) := [%s]" % ", ".join('("%s", %s)' % (k, lean_bool(d[k])) for k in facts)]
    return d, "\n".join(L)


FALLBACK = ({}, "def tscParams : Tsc.Params := Tsc.Params.code\ndef tscOrders : String × String := (\"?\", \"?\")\n"
                "def tscDefaultResyncMs : Nat := 0\ndef tscStructure : List (String × Bool) := []")
