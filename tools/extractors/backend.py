"""Backend section of the extraction: structural facts of BackendWorker.h / ThreadContextManager.h / Logger.h the
backend model is parametric in (each one is the subject of a repaired finding or of a proof side-condition)."""
import re

from extract import read, strip_cpp_comments, func_body, lean_bool

IMPORTS = []


def extract(repo, failures):
    d = {}
    bw = strip_cpp_comments(read(repo, "include/quill/backend/BackendWorker.h"))
    tcm = strip_cpp_comments(read(repo, "include/quill/core/ThreadContextManager.h"))
    lg = strip_cpp_comments(read(repo, "include/quill/Logger.h"))

    # width of the invalid-context counter
    m = re.search(r"std::atomic<\s*(u?int(\d+)_t|size_t|unsigned|unsigned int)\s*>\s*_invalid_thread_context_count", tcm)
    if m:
        d["invalidBits"] = int(m.group(2)) if m.group(2) else (64 if m.group(1) == "size_t" else 32)
    else:
        failures.append("backend: type of _invalid_thread_context_count not found")
        d["invalidBits"] = 0

    # order: ts_now sampled, then the context cache refreshed, inside _populate_transit_events_from_frontend_queues
    pop = func_body(bw, r"size_t\s+_populate_transit_events_from_frontend_queues\s*\(\s*\)\s*\{")
    poll = func_body(bw, r"void\s+_poll\s*\(\s*\)\s*\{")
    if pop is None or poll is None:
        failures.append("backend: _populate_transit_events_from_frontend_queues / _poll not found")
        d["refreshAfterSample"] = False
    else:
        i_ts = pop.find("ts_now")
        i_rf = pop.find("_update_active_thread_contexts_cache")
        i_loop = pop.find("for (ThreadContext")
        refresh_in_pop = i_ts >= 0 and i_rf > i_ts and (i_loop < 0 or i_rf < i_loop)
        d["refreshAfterSample"] = bool(refresh_in_pop)
        d["refreshAlsoBeforeSampleInPoll"] = poll.find("_update_active_thread_contexts_cache") >= 0 and \
            poll.find("_update_active_thread_contexts_cache") < poll.find("_populate_transit_events_from_frontend_queues")

    # catch-all next to the std::exception handler of the formatting step
    fm = func_body(bw, r"void\s+_populate_formatted_log_message\s*\([^)]*\)\s*\{")
    if fm is None:
        failures.append("backend: _populate_formatted_log_message not found")
        d["catchAllFormat"] = False
    else:
        d["catchAllFormat"] = "QUILL_CATCH_ALL" in fm

    # Flush path: failure counters reported before the clean-up of invalidated contexts
    pl = func_body(bw, r"bool\s+_process_lowest_timestamp_transit_event\s*\(\s*\)\s*\{")
    if pl is None:
        failures.append("backend: _process_lowest_timestamp_transit_event not found")
        d["reportBeforeFlushCleanup"] = False
        d["popBeforeFlag"] = False
        d["perEventCatch"] = False
    else:
        i_chk = pl.find("_check_failure_counter")
        i_cln = pl.find("_cleanup_invalidated_thread_contexts")
        d["reportBeforeFlushCleanup"] = 0 <= i_chk < i_cln
        i_pop = pl.find("pop_front")
        i_flag = pl.find("flush_flag->store")
        d["popBeforeFlag"] = 0 <= i_pop < i_flag
        d["perEventCatch"] = "QUILL_CATCH_ALL" in pl and "QUILL_CATCH(std::exception" in pl.replace(" ", "").replace("QUILL_CATCH(std::exceptionconst&e)", "QUILL_CATCH(std::exception")
        d["strictMinimum"] = bool(re.search(r"min_ts\s*>\s*te->timestamp", pl))

    # F26: every `backtrace_storage->process(callback)` replays through a function whose whole body is
    # try { _dispatch_transit_event_to_sinks(...) } catch (std::exception) -> error_notifier / catch-all -> error_notifier,
    # so a throwing sink costs one stored statement and never leaves the storage uncleared
    calls = re.findall(r"backtrace_storage->process\(\s*\[[^\]]*\]\s*\([^)]*\)\s*\{\s*(\w+)\s*\(", bw)
    if len(calls) < 2:
        failures.append("backend: the two backtrace_storage->process(callback) call sites not found")
        d["replayCatchesPerEvent"] = False
    else:
        ok = True
        for fn in set(calls):
            if fn == "_dispatch_transit_event_to_sinks":
                ok = False
                continue
            fb = func_body(bw, r"void\s+" + re.escape(fn) + r"\s*\([^)]*\)\s*\{")
            if fb is None:
                ok = False
                continue
            mt = re.search(r"QUILL_TRY\s*\{\s*_dispatch_transit_event_to_sinks\s*\([^;]*;\s*\}", fb)
            i_c1 = fb.find("QUILL_CATCH(std::exception")
            i_c2 = fb.find("QUILL_CATCH_ALL")
            ok = ok and bool(mt) and 0 <= i_c1 < i_c2 and fb.count("error_notifier") >= 2 and "throw" not in fb[i_c1:]
        d["replayCatchesPerEvent"] = ok

    # context clean-up: a bounded-queue context with an unreported failure counter is not removed (F24)
    cc = func_body(bw, r"void\s+_cleanup_invalidated_thread_contexts\s*\(\s*\)\s*\{")
    if cc is None:
        failures.append("backend: _cleanup_invalidated_thread_contexts not found")
        d["cleanupKeepsUnreported"] = False
    else:
        mb = re.search(r"if\s*\(\s*thread_context->has_bounded_queue_type\(\)\s*\)\s*\{\s*return([^;]*);", cc)
        d["cleanupKeepsUnreported"] = bool(mb and re.search(r"&&\s*\(?\s*thread_context->_failure_counter\.load\([^)]*\)\s*==\s*0", mb.group(1)))

    # the read loop: stop on ts > ts_now, do-while with capacity and hard-limit exits, commit only if something was read
    rd = func_body(bw, r"size_t\s+_read_and_decode_frontend_queue\s*\([^)]*\)\s*\{")
    pe = func_body(bw, r"bool\s+_populate_transit_event_from_frontend_queue\s*\([^)]*\)\s*\{")
    if rd is None or pe is None:
        failures.append("backend: read loop not found")
        d["readLoopShape"] = False
        d["stopsOnFutureTimestamp"] = False
    else:
        d["readLoopShape"] = bool(re.search(r"do\s*\{", rd) and re.search(r"while\s*\(\s*\(\s*total_bytes_read\s*<\s*queue_capacity\s*\)\s*&&", rd)
                                  and re.search(r"size\(\)\s*<\s*_options\.transit_events_hard_limit", rd)
                                  and re.search(r"if\s*\(\s*total_bytes_read\s*!=\s*0\s*\)\s*\{\s*frontend_queue\.commit_read\(\)", rd))
        d["stopsOnFutureTimestamp"] = bool(re.search(r"timestamp\s*>\s*ts_now\s*\)\s*\)?\s*\{\s*return\s+false", pe))

    # batch loop guarded by the pending check, in _poll and in _exit
    ex = func_body(bw, r"void\s+_exit\s*\(\s*\)\s*\{")
    guard = r"while\s*\(\s*!has_pending_events_for_caching_when_transit_event_buffer_empty\(\)\s*&&\s*_process_lowest_timestamp_transit_event\(\)\s*\)"
    d["batchGuardInPoll"] = bool(poll and re.search(guard, poll))
    d["batchGuardInExit"] = bool(ex and re.search(guard, ex))

    # context clean-up condition: invalid and queue empty and transit buffer empty
    cl = func_body(bw, r"void\s+_cleanup_invalidated_thread_contexts\s*\(\s*\)\s*\{")
    d["cleanupNeedsEmptyBuffer"] = bool(cl and len(re.findall(r"\.empty\(\)\s*&&\s*thread_context->_transit_event_buffer->empty\(\)", cl)) >= 2
                                        and "!thread_context->is_valid()" in cl)

    # per-sink try/catch in _flush_and_run_active_sinks
    fl = func_body(bw, r"void\s+_flush_and_run_active_sinks\s*\([^)]*\)\s*\{")
    if fl:
        loop = fl[fl.find("for (auto const& sink : _active_sinks_cache)"):]
        d["perSinkFlushCatch"] = loop.find("QUILL_TRY") >= 0 and loop.find("QUILL_TRY") < loop.find("flush_sink")
    else:
        d["perSinkFlushCatch"] = False

    # frontend: timestamp first, failure counter only for Event::Log, control events retried
    ls = func_body(lg, r"bool\s+log_statement\s*\([^)]*\)\s*\{")
    if ls is None:
        failures.append("backend: log_statement not found")
        d["countsOnlyLogEvents"] = False
        d["blockingRetriesSameRequest"] = False
    else:
        d["countsOnlyLogEvents"] = len(re.findall(r"event\(\)\s*==\s*MacroMetadata::Event::Log\s*\)\s*\{\s*thread_context->increment_failure_counter", ls)) >= 2
        d["timestampBeforeContext"] = 0 <= ls.find("current_timestamp") < ls.find("get_local_thread_context")
        # C09 (end to end): on a blocking queue a refused reservation is retried with the SAME size until it is granted
        # (do { [sleep]; write_buffer = _prepare_write_buffer(total_size); } while (write_buffer == nullptr);) and the call
        # then goes on to write; the dropping branch returns false instead
        i_blk = ls.find("QueueType::BoundedBlocking")
        blk = ls[i_blk:] if i_blk >= 0 else ""
        d["blockingRetriesSameRequest"] = bool(re.search(
            r"do\s*\{.*?write_buffer\s*=\s*_prepare_write_buffer\(\s*total_size\s*\)\s*;\s*\}\s*while\s*\(\s*write_buffer\s*==\s*nullptr\s*\)\s*;",
            blk, re.S)) and 0 <= blk.find("_encode_header") and "return false" not in blk[:blk.find("_encode_header")]
    # unbounded queue: when the switch to the next buffer found it empty the read looks again (F25)
    ru = func_body(bw, r"std::byte\*\s+_read_unbounded_frontend_queue\s*\([^)]*\)\s*(?:const)?\s*\{")
    if ru is None:
        failures.append("backend: _read_unbounded_frontend_queue not found")
        d["unboundedReadFollowsEmptyBuffers"] = False
    else:
        d["unboundedReadFollowsEmptyBuffers"] = bool(re.search(
            r"read_result\.read_pos\s*==\s*nullptr\s*\)\s*\)?\s*\{\s*return\s+_read_unbounded_frontend_queue\s*\(", ru)
            or re.search(r"while\s*\([^)]*allocation[^)]*\)", ru))

    # the failure counter: incremented with one atomic read-modify-write, read-and-reset with one atomic exchange (a load
    # followed by a store would lose an increment that lands in between: the model's get-and-reset is one step)
    try:
        tcm = strip_cpp_comments(read(repo, "include/quill/core/ThreadContextManager.h"))
    except Exception:
        tcm = ""
    gr = func_body(tcm, r"size_t\s+get_and_reset_failure_counter\s*\(\s*\)\s*(?:noexcept)?\s*\{")
    inc = func_body(tcm, r"void\s+increment_failure_counter\s*\(\s*\)\s*(?:noexcept)?\s*\{")
    if gr is None or inc is None:
        failures.append("backend: failure counter accessors not found")
        d["counterResetAtomic"] = False
    else:
        # shape analysis shared with the failure-counter model (extractors/reg.py): the reset is an exchange(0) whose
        # result is what is returned (directly or through a local), no plain store; the increment is a read-modify-write
        from extractors.reg import _counter
        _c = _counter(tcm, [])
        d["counterResetAtomic"] = bool(_c["resetXchg"] and _c["incRmw"])
    fl2 = func_body(lg, r"void\s+flush_log\s*\([^)]*\)\s*\{")
    d["flushRetries"] = bool(fl2 and re.search(r"while\s*\(\s*!this->(template\s+)?log_statement", fl2))

    # C06: the Flush branch of _process_transit_event flushes the active sinks (unconditionally: interval 0, no periodic
    # tasks) BEFORE it captures the flag; the flag is stored only after pop_front (popBeforeFlag); flush_log waits on the flag
    pte = func_body(bw, r"void\s+_process_transit_event\s*\([^)]*\)\s*\{")
    if pte is None:
        failures.append("backend: _process_transit_event not found")
        d["flushBeforeFlag"] = False
        d["flushIgnoresInterval"] = False
    else:
        i_fb = pte.find("Event::Flush)")
        br = pte[i_fb:] if i_fb >= 0 else ""
        i_fl = br.find("_flush_and_run_active_sinks(")
        i_cap = br.find("flush_flag = transit_event.flush_flag")
        d["flushBeforeFlag"] = 0 <= i_fl < i_cap
        d["flushIgnoresInterval"] = bool(re.search(r"_flush_and_run_active_sinks\(\s*false\s*,\s*std::chrono::milliseconds\s*\{\s*0\s*\}\s*\)", br))
    d["flushWaitsOnFlag"] = bool(fl2 and re.search(r"while\s*\(\s*!backend_thread_flushed\.load\(\)\s*\)", fl2)
                                 and fl2.find("log_statement") < fl2.find("backend_thread_flushed.load()"))
    # F12: only sinks of loggers that are still valid are flushed (the theorem says "every ACTIVE sink")
    d["flushOnlyValidLoggers"] = bool(fl and "is_valid_logger" in fl)
    # sink_min_flush_interval (C06 / F33): which interval each call site of _flush_and_run_active_sinks passes.
    # idle branch of _poll: (true, _options.sink_min_flush_interval); Flush event and _exit: (false, milliseconds{0});
    # the gate itself: interval 0 -> always flush, else flush iff (steady now - _last_sink_flush_time) > interval, then
    # _last_sink_flush_time = now; the model's `flushGate` / `flushSinks` call sites mirror exactly this
    zero_call = r"_flush_and_run_active_sinks\(\s*false\s*,\s*std::chrono::milliseconds\s*\{\s*0\s*\}\s*\)"
    pollb = func_body(bw, r"void\s+_poll\s*\(\s*\)\s*\{")
    d["idleFlushPassesOption"] = bool(pollb and re.search(
        r"_flush_and_run_active_sinks\(\s*true\s*,\s*_options\.sink_min_flush_interval\s*\)", pollb)
        and pollb.count("_flush_and_run_active_sinks(") == 1)
    d["exitFlushIgnoresInterval"] = bool(ex and re.search(zero_call, ex) and ex.count("_flush_and_run_active_sinks(") == 1)
    if fl:
        flc = re.sub(r"\s+", " ", fl)
        d["flushGateShape"] = bool(re.search(
            r"bool should_flush_sinks\{false\}; if \(sink_min_flush_interval\.count\(\)\) \{ if \(auto const now = "
            r"std::chrono::steady_clock::now\(\); \(now - _last_sink_flush_time\) > sink_min_flush_interval\) \{ "
            r"should_flush_sinks = true; _last_sink_flush_time = now; \} \} else \{ should_flush_sinks = true; \}", flc)
            and flc.count("_last_sink_flush_time") == 2 and flc.count("should_flush_sinks = ") == 2)
    else:
        d["flushGateShape"] = False
    # every call site of _flush_and_run_active_sinks in the backend worker is one of the modelled ones
    n_calls = len(re.findall(r"(?<!void )_flush_and_run_active_sinks\(", bw))
    clb = func_body(bw, r"void\s+_cleanup_invalidated_loggers\s*\(\s*\)\s*\{")
    # F33: _cleanup_invalidated_loggers starts with `if (has_invalidated_loggers()) _flush_and_run_active_sinks(false, 0ms)`,
    # before LoggerManager::cleanup_invalidated_loggers erases anything
    if clb is None:
        d["flushBeforeLoggerErase"] = False
    else:
        clc = re.sub(r"\s+", " ", clb)
        m33 = re.search(r"if \(_logger_manager\.has_invalidated_loggers\(\)\) \{ " + zero_call.replace("\\s*", " ?") + r"; \}", clc)
        d["flushBeforeLoggerErase"] = bool(m33 and 0 <= m33.start() < clc.find("_logger_manager.cleanup_invalidated_loggers("))
    d["flushCallSitesAllModelled"] = n_calls == 3 + (1 if d["flushBeforeLoggerErase"] else 0)

    # ---- C16: level / filter decision logic (LogLevel.h, LoggerBase.h, LogMacros.h, Sink.h, TransitEvent.h) ----
    levels = []
    try:
        ll = strip_cpp_comments(read(repo, "include/quill/core/LogLevel.h"))
        m = re.search(r"enum\s+class\s+LogLevel\s*(?::\s*\w+)?\s*\{(.*?)\}", ll, re.S)
        if not m:
            failures.append("backend: enum class LogLevel not found")
        else:
            for item in [x.strip() for x in m.group(1).split(",") if x.strip()]:
                if "=" in item:
                    failures.append("backend: enum class LogLevel has an explicit enumerator value `%s` (rank is no longer the position)" % item)
                levels.append(item.split("=")[0].strip())
    except Exception as ex_:
        failures.append("backend: LogLevel.h unreadable: %r" % (ex_,))
    try:
        lb = strip_cpp_comments(read(repo, "include/quill/core/LoggerBase.h"))
        bodies = re.findall(r"bool\s+should_log_statement\s*\([^)]*\)\s*const\s*noexcept\s*\{([^}]*)\}", lb)
        d["frontendLevelCmpGe"] = len(bodies) >= 2 and all(
            re.fullmatch(r"\s*return\s+log_statement_level\s*>=\s*get_log_level\(\)\s*;\s*", b) for b in bodies)
    except Exception:
        d["frontendLevelCmpGe"] = False
    try:
        mac = read(repo, "include/quill/LogMacros.h").replace("\\\n", " ")
        m1 = re.search(r"#define\s+QUILL_LOGGER_CALL\(likelyhood,\s*logger,\s*tags,\s*log_level,\s*fmt,\s*\.\.\.\)(.*?)while\s*\(0\)", mac, re.S)
        m2 = re.search(r"#define\s+QUILL_DYNAMIC_LOGGER_CALL\(logger,\s*tags,\s*log_level,\s*fmt,\s*\.\.\.\)(.*?)while\s*\(0\)", mac, re.S)
        ok1 = bool(m1 and re.search(r"if\s*\(\s*likelyhood\(\s*logger->template\s+should_log_statement<log_level>\(\)\s*\)\s*\)\s*\{[^}]*log_statement<[^>]*>\s*\([^;]*__VA_ARGS__\)\s*;\s*\}", m1.group(1), re.S))
        ok2 = bool(m2 and re.search(r"if\s*\(\s*logger->should_log_statement\(log_level\)\s*\)\s*\{[^}]*log_statement<[^>]*>\s*\(\s*log_level\s*,[^;]*__VA_ARGS__\)\s*;\s*\}", m2.group(1), re.S))
        d["macroGuardsEvaluation"] = ok1 and ok2
    except Exception:
        d["macroGuardsEvaluation"] = False
    try:
        sk = strip_cpp_comments(read(repo, "include/quill/sinks/Sink.h"))
        af = func_body(sk, r"bool\s+apply_all_filters\s*\([^)]*\)\s*\{")
        d["sinkLevelCmpLt"] = bool(af and re.search(r"if\s*\(\s*log_level\s*<\s*_log_level\.load\([^)]*\)\s*\)\s*\{\s*return\s+false\s*;", af))
        d["sinkFiltersAllOf"] = bool(af and re.search(r"return\s+std::all_of\(\s*_local_filters\.begin\(\)\s*,\s*_local_filters\.end\(\)", af)
                                     and re.search(r"if\s*\(\s*_local_filters\.empty\(\)\s*\)\s*\{\s*return\s+true\s*;", af))
    except Exception:
        d["sinkLevelCmpLt"] = False
        d["sinkFiltersAllOf"] = False
    wl = func_body(bw, r"void\s+_write_log_statement\s*\([^)]*\)\s*const\s*\{")
    if wl is None:
        failures.append("backend: _write_log_statement not found")
        d["perSinkFilterInLoop"] = False
    else:
        i_for = wl.find("for (auto& sink : transit_event.logger_base->sinks)")
        loop = wl[i_for:] if i_for >= 0 else ""
        d["perSinkFilterInLoop"] = bool(i_for >= 0 and re.search(
            r"if\s*\(\s*sink->apply_all_filters\([^;{]*transit_event\.log_level\(\)[^;{]*\)\s*\)\s*\{.*sink->write_log\([^;]*transit_event\.log_level\(\)[^;]*\)\s*;", loop, re.S))
    try:
        te = strip_cpp_comments(read(repo, "include/quill/backend/TransitEvent.h"))
        lv = func_body(te, r"LogLevel\s+log_level\s*\(\s*\)\s*const\s*noexcept\s*\{")
        d["eventLevelSelect"] = bool(lv and re.search(
            r"if\s*\(\s*macro_metadata->log_level\(\)\s*!=\s*LogLevel::Dynamic\s*\)\s*\{\s*return\s+macro_metadata->log_level\(\)\s*;\s*\}\s*else\s*\{\s*return\s+dynamic_log_level\s*;", lv))
    except Exception:
        d["eventLevelSelect"] = False
    d["dynamicLevelDecodedOrReset"] = bool(pe and re.search(
        r"if\s*\(\s*transit_event->macro_metadata->log_level\(\)\s*==\s*LogLevel::Dynamic\s*\)\s*\{\s*std::memcpy\(\s*&transit_event->dynamic_log_level\s*,\s*read_pos[^}]*\}\s*else\s*\{\s*transit_event->dynamic_log_level\s*=\s*LogLevel::None\s*;", pe))

    # logger clean-up: the emptiness of all queues is re-checked for every invalid logger, inside the loop, after its
    # validity was read (a logger invalidated while an earlier one is being destroyed must see the fresh answer)
    lm = strip_cpp_comments(read(repo, "include/quill/core/LoggerManager.h"))
    cil = func_body(lm, r"cleanup_invalidated_loggers\s*\([^)]*\)\s*\{")
    if cil is None:
        failures.append("backend: LoggerManager::cleanup_invalidated_loggers not found")
        d["checksQueuesPerLogger"] = False
    else:
        i_for = cil.find("for (")
        i_valid = cil.find("is_valid_logger", i_for)
        i_chk = cil.find("check_queues_empty()", i_for)
        d["checksQueuesPerLogger"] = 0 <= i_for < i_valid < i_chk and cil.count("check_queues_empty()") == 1

    # ---- C07 (drain): shape of _exit — loop until the emptiness check says yes; then report, flush, break; clean-ups after
    if ex:
        exc = re.sub(r"\s+", " ", ex)
        d["exitDrainShape"] = bool(
            re.search(r"while \(true\) \{ bool const queues_and_events_empty = \(!_options\.wait_for_queues_to_empty_before_exit\) \|\| "
                      r"_check_frontend_queues_and_cached_transit_events_empty\(\); if \(queues_and_events_empty\) \{ "
                      r"_check_failure_counter\([^;]*\); _flush_and_run_active_sinks\([^;]*\); break; \}", exc)
            and re.search(r"\} _cleanup_invalidated_thread_contexts\(\); _cleanup_invalidated_loggers\(\); ?$", exc.strip()))
    else:
        d["exitDrainShape"] = False

    # ---- C17: a logger is erased only behind the emptiness check; removal flag after the erase; request before invalidation
    try:
        lm2 = re.sub(r"\s+", " ", strip_cpp_comments(read(repo, "include/quill/core/LoggerManager.h")))
        d["eraseGuardedByEmptyCheck"] = bool(re.search(
            r"if \(!it->get\(\)->is_valid_logger\(\)\) \{ if \(!check_queues_empty\(\)\) \{ \+\+it; "
            r"_has_invalidated_loggers\.store\(true[^;]*\); \} else \{ removed_loggers\.push_back\([^;]*\); "
            r"it = _loggers\.erase\(it\); \} \} else \{ \+\+it; \}", lm2))
    except Exception:
        d["eraseGuardedByEmptyCheck"] = False
    cl2 = func_body(bw, r"void\s+_cleanup_invalidated_loggers\s*\(\s*\)\s*\{")
    if cl2 is None:
        failures.append("backend: _cleanup_invalidated_loggers not found")
        d["removalFlagAfterErase"] = False
        d["emptyCheckIsAllQueues"] = False
    else:
        i_call = cl2.find("cleanup_invalidated_loggers(")
        i_sinks = cl2.find("cleanup_unused_sinks()")
        i_flag = cl2.find("->store(true)")
        d["removalFlagAfterErase"] = 0 <= i_call < i_sinks < i_flag and "_logger_removal_flags.find(removed_logger_name)" in cl2
        d["emptyCheckIsAllQueues"] = bool(re.search(r"return\s+_check_frontend_queues_and_cached_transit_events_empty\(\)\s*;", cl2))
    try:
        fe = strip_cpp_comments(read(repo, "include/quill/Frontend.h"))
        rb = func_body(fe, r"static\s+void\s+remove_logger_blocking\s*\([^)]*\)\s*\{")
        d["removalRequestBeforeInvalidate"] = bool(rb and 0 <= rb.find("log_statement") < rb.find("remove_logger(logger)") < rb.find("logger_removal_complete.load()"))
    except Exception:
        d["removalRequestBeforeInvalidate"] = False

    L = []
    L.append("/-- facts of the backend worker / frontend the backend model is parametric in -/")

    L.append("def invalidBits : Nat := %d" % d["invalidBits"])
    L.append("/-- enumerators of `enum class LogLevel` in declaration order, no explicit values: rank = position (C16) -/")
    L.append("def backendLevelNames : List String := [%s]" % ", ".join('"%s"' % n for n in levels))
    d["levelNames"] = levels
    for k in sorted(d):
        if k in ("invalidBits", "levelNames"):
            continue
        L.append("def %s : Bool := %s" % (k, lean_bool(d[k])))
    return d, "\n".join(L)


FALLBACK = ({"invalidBits": 0}, "def invalidBits : Nat := 0\ndef backendLevelNames : List String := []")
