#!/usr/bin/env python3
"""Regenerates /verif/MANIFEST.json from the table below (kept in one place so it is always valid)."""
import json
import os

HERE = os.path.dirname(os.path.dirname(os.path.abspath(__file__)))

NOTE = ("Trusted base: Lean 4.33.0 kernel; axioms propext/Quot.sound/Classical.choice only (audited with #print axioms on every run; "
        "no sorry/admit/native_decide/bv_decide); tools/extract.py; the C++ harness and the line-protocol driver (unverified glue); "
        "the correspondence is differential execution on generated cases. ")

CHECKS = {
    "C01": dict(
        technique="Lean 4 proof: inductive invariant over all schedules and stale loads (view semantics) + wrap-around refinement; extraction of memory orders; differential correspondence under an atomic shim",
        text="Machine-checked proof (Lean 4) that in every state reachable by any interleaving and any legal stale atomic load, every enabled producer/consumer step of the bounded queue is safe (no torn/early/overwritten byte, records contiguous, FIFO exactly-once), for every capacity, batch threshold and size sequence, and that the 2^w-modular arithmetic of the C++ refines the free-running model through any number of wraps. Tied to the code by (1) extracting the four memory orders from the header and re-proving OrdersOK for them, (2) running the real BoundedSPSCQueueImpl<uint8_t|uint16_t|size_t> under an atomic shim with the same schedules as the Lean model and diffing every observation, (3) a happens-before race detector and payload/FIFO oracle on the real code.",
        note=NOTE + "Assumes the store-history view semantics renders C++11 release/acquire for single-writer atomics; QUILL_X86ARCH cache-flush intrinsics not modelled.",
        ref="§5 C01, Appendix A.1"),
    "C09": dict(
        technique="Lean 4 proof: progress lemma on the queue invariant (drained queue publishes, reload grants any n ≤ capacity); extraction of the drain rule; differential correspondence + drained-state probes on the real queue",
        text="Machine-checked proof that in every reachable drained state commit_read publishes the reader position and a producer reload of the newest value is followed by a grant for every 0 < n ≤ capacity (so no stall on an empty queue), plus a proved counter-witness for the batching-only rule of the pinned tree (finding F3, repaired by a fix: commit). Tied to the code by extracting the drain rule from commit_read, by differential execution of the real queue against the model (every grant/deny and every publication compared) and by probing every drained state the generator reaches with boundary sizes. The end-to-end retry loop is covered by the backend checks.",
        note=NOTE + "Queue level only in this check; 'finitely many polls' relies on the fairness assumption that a store eventually becomes visible to an acquire load.",
        ref="§5 C09, §7 F3"),
}

NOT_YET = {
}

ALL = ["C%02d" % i for i in range(1, 21)]


def main():
    checks = []
    for pid in ALL:
        if pid not in CHECKS:
            continue
        c = CHECKS[pid]
        checks.append({
            "property_id": pid,
            "quick_cmd": "python3 tools/check.py %s --tier quick" % pid,
            "thorough_cmd": "python3 tools/check.py %s --tier thorough" % pid,
            "evidence_file": "/verif/evidence/%s.json" % pid,
            "replay_cmd_template": "python3 tools/check.py %s --replay {path}" % pid,
            "engine": "lean4-proof+correspondence",
            "level_claimed": {"category": c.get("category", "proof"), "text": c["text"], "design_ref": "DESIGN.md " + c["ref"]},
            "level_note": c["note"],
            "technique": c["technique"],
        })
    na = []
    for pid in ALL:
        if pid not in CHECKS:
            na.append({"property_id": pid, "reason": NOT_YET.get(pid, "not claimed yet: the Lean model, theorem and correspondence harness for this property are still being built (see DESIGN.md §5 for the plan); no check is registered until its theorem builds sorry-free and the check is quiet on the clean tree")})
    man = {
        "version": 1,
        "setup_cmd": "python3 tools/extract.py >/dev/null && cd lean && lake build QuillModel driver",
        "hooks": {
            "guard": "QUILL_VERIF",
            "enable": "harnesses are compiled from /repo/include with -DQUILL_VERIF (header-only library; no CMake build needed)",
            "baseline_off_cmd": "cmake --build /repo/_build -j16 && ctest --test-dir /repo/_build -j8 --timeout 900",
            "source_commits": [],
            "add_only": True,
        },
        "engines": [{
            "name": "lean4-proof+correspondence",
            "path": "/verif/lean (theorems), /verif/tools/check.py (driver), /verif/harness (real-code harnesses)",
            "serves_properties": [c["property_id"] for c in checks],
            "kind_free_text": "Lean 4 machine-checked theorems over executable models; models tied to /repo by a translator (tools/extract.py → Extracted.lean → Obligations) and by differential correspondence runs of the real headers against the compiled Lean driver",
        }],
        "checks": checks,
        "not_applicable": na,
        "notes": "See DESIGN.md. Known defects and repairs: known_findings.json. Seeded mutants used to validate the checks: seeded/.",
    }
    with open(os.path.join(HERE, "MANIFEST.json"), "w") as f:
        json.dump(man, f, indent=1)
        f.write("\n")


if __name__ == "__main__":
    main()
