#!/usr/bin/env python3
"""Regenerates /verif/MANIFEST.json from the table below (kept in one place so it is always valid)."""
import json
import os

HERE = os.path.dirname(os.path.dirname(os.path.abspath(__file__)))

NOTE = ("Trusted base: Lean 4.33.0 kernel; axioms propext/Quot.sound/Classical.choice only (audited with #print axioms on every run; "
        "no sorry/admit/native_decide/bv_decide); tools/extract.py; the C++ harness and the line-protocol driver (unverified glue); "
        "the correspondence is differential execution on generated cases. ")

def discover_checks():
    import importlib
    import sys
    sys.path.insert(0, os.path.join(HERE, "tools"))
    table = {}
    for f in sorted(os.listdir(os.path.join(HERE, "tools", "props"))):
        if f.endswith(".py") and f != "__init__.py":
            m = importlib.import_module("props." + f[:-3])
            for p, c in getattr(m, "MANIFEST", {}).items():
                c = dict(c)
                c["note"] = NOTE + c.get("note", "")
                table[p] = c
    return table


CHECKS = discover_checks()

NOT_YET = {
}

ALL = ["C%02d" % i for i in range(1, 21)]


def main():
    checks = []
    for pid in ALL:
        if pid not in CHECKS:
            continue
        c = CHECKS[pid]
        checks.append({
            "property_id": pid,
            "quick_cmd": "python3 tools/check.py %s --tier quick" % pid,
            "thorough_cmd": "python3 tools/check.py %s --tier thorough" % pid,
            "evidence_file": "/verif/evidence/%s.json" % pid,
            "replay_cmd_template": "python3 tools/check.py %s --replay {path}" % pid,
            "engine": "lean4-proof+correspondence",
            "level_claimed": {"category": c.get("category", "proof"), "text": c["text"], "design_ref": "DESIGN.md " + c["ref"]},
            "level_note": c["note"],
            "technique": c["technique"],
        })
    na = []
    for pid in ALL:
        if pid not in CHECKS:
            na.append({"property_id": pid, "reason": NOT_YET.get(pid, "not claimed yet: the Lean model, theorem and correspondence harness for this property are still being built (see DESIGN.md §5 for the plan); no check is registered until its theorem builds sorry-free and the check is quiet on the clean tree")})
    man = {
        "version": 1,
        "setup_cmd": "python3 tools/extract.py >/dev/null && cd lean && lake build QuillModel driver",
        "hooks": {
            "guard": "QUILL_VERIF",
            "enable": "harnesses are compiled from /repo/include with -DQUILL_VERIF (header-only library; no CMake build needed)",
            "baseline_off_cmd": "cmake --build /repo/_build -j16 && ctest --test-dir /repo/_build -j8 --timeout 900",
            "source_commits": ["4919236"],
            "add_only": True,
        },
        "engines": [{
            "name": "lean4-proof+correspondence",
            "path": "/verif/lean (theorems), /verif/tools/check.py (driver), /verif/harness (real-code harnesses)",
            "serves_properties": [c["property_id"] for c in checks],
            "kind_free_text": "Lean 4 machine-checked theorems over executable models; models tied to /repo by a translator (tools/extract.py → Extracted.lean → Obligations) and by differential correspondence runs of the real headers against the compiled Lean driver",
        }],
        "checks": checks,
        "not_applicable": na,
        "notes": "See DESIGN.md. Known defects and repairs: known_findings.json. Seeded mutants used to validate the checks: seeded/.",
    }
    with open(os.path.join(HERE, "MANIFEST.json"), "w") as f:
        json.dump(man, f, indent=1)
        f.write("\n")


if __name__ == "__main__":
    main()
