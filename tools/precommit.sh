#!/bin/sh
# regenerate every generated file from the current /repo tree and validate the manifest before committing /verif
set -e
cd "$(dirname "$0")/.."
python3 tools/extract.py >/dev/null
python3 tools/gen_lean_roots.py
python3 tools/gen_manifest.py
python3-vt - <<'PY'
import json, jsonschema, glob, os
claimed = {c['property_id'] for c in json.load(open('MANIFEST.json'))['checks']}
for f in glob.glob('evidence/*.json'):
    if os.path.basename(f)[:-5] not in claimed:
        os.remove(f)
jsonschema.validate(json.load(open('MANIFEST.json')), json.load(open('/root/.vp/MANIFEST.schema.json')))
ev = json.load(open('/root/.vp/EVIDENCE.schema.json'))
for f in glob.glob('evidence/*.json'):
    jsonschema.validate(json.load(open(f)), ev)
print('manifest + %d evidence files valid' % len(glob.glob('evidence/*.json')))
PY
