"""TSC stream of C05 (and C06's ordering half): harness h3_tsc — the REAL quill::detail::RdtscClock with every rdtsc() and
system_clock read scripted (`__rdtsc` redefined before the quill headers, clock_gettime interposed; no repository hook) — vs the
Lean driver `tsc` (Tsc.construct / timeSinceEpoch / timeSinceEpochSafe / resync with the bit-exact binary64 scaling, the
definitions Props/C05Tsc.lean is about). Independent oracles in the harness: monotone between resyncs, within 1 ns of exact
integer arithmetic, trigger iff diff > interval, failed resync leaves the bases alone, a good read is accepted.
Called from tools/props/backend.py for prop == "C05".

End to end (`h3_tsc e2e`): the real Frontend / Logger (ClockSourceType::Tsc, System and a user clock) / BackendWorker through
ManualBackendWorker with both clocks scripted and frontend commands injected at hook sites 2 and 3 inside a poll; oracle = the
timestamps handed to the sink are non-decreasing and follow the clock values read by the log calls (user-clock statements skipped).
Corpus scripts `corpus/C05/*.e2e.txt` run first, then generated ones with an exact conversion. An ORACLE line whose two statements
were converted against different bases (`class=resync-between-conversions`) is the input class of the listed finding F38 and is
reported as KNOWN-FINDING; every other ORACLE line is a violation with the script as replay."""
import os
import re

import vlib

TAG = "h3_tsc"
HARNESS = ("h3_tsc", ["h3_tsc.cpp"], ["-fno-access-control"])
OPS = ("init", "conv", "safe", "idle")


def params_args(ex):
    t = ex.get("tsc") or {}
    b = lambda k, d: "1" if t.get(k, d) else "0"
    return [str(t.get("maxAttempts", 4)), str(t.get("convLag", 2500)), str(t.get("ctorLag1", 2500)), str(t.get("ctorLag2", 10000)),
            str(t.get("idleLag", 2500)), b("triggerStrict", True), b("lagInclusive", True), b("writeNext", True)]


def split_cases(text):
    cases, cur = [], None
    for ln in text.split("\n"):
        if ln.startswith("init "):
            cur = [ln]
            cases.append(cur)
        elif cur is not None and ln.strip() and not ln.startswith(("STATS", "#")):
            cur.append(ln)
    return cases


def replay_content(prop, header, case, upto=None):
    ops = [ln.split(" =>")[0] for ln in (case if upto is None else case[:upto + 1]) if ln.split(" ")[0] in OPS]
    return "# %s stream of %s — replay: python3 tools/check.py %s --replay <this file>\n# %s\n%s\n" % (TAG, prop, prop, header, "\n".join(ops))


def gen_e2e(seed):
    """a scripted life of the real backend with TSC, system-clock and user-clock loggers; the conversion is exact (ns_per_tick 1.0 and
    wall = tsc + const at every instant: both clocks only move by `adv`, so a resync re-bases onto the same line): the order oracle
    must hold for every schedule"""
    import random
    rng = random.Random(seed)
    n = [0]

    def src():
        return rng.choice(["tsc"] * 6 + ["sys"] * 3 + ["usr"])

    def nid():
        n[0] += 1
        return "m%d" % n[0]

    grace = rng.choice([1, 1, 2, 5])
    lines = ["# h3_tsc e2e — generated seed=%d" % seed, "cfg grace=%d interval=%d nspt=1.0" % (grace, rng.choice([1, 1000])),
             "now tsc=%d wall=%d" % (10 ** 6 + rng.randrange(10 ** 9), 1700000000000000000 + rng.randrange(10 ** 9))]
    nthreads = rng.choice([2, 3, 3])
    for th in range(1, nthreads + 1):
        if rng.random() < 0.7:
            lines.append("log %d %s %s" % (th, nid(), src()))
    for _ in range(rng.randrange(8, 20)):
        if rng.random() < 0.45:
            lines += ["adv %d" % rng.randrange(20, 2500), "log %d %s %s" % (rng.randrange(1, nthreads + 1), nid(), src())]
        else:
            lines.append("adv %d" % rng.randrange(0, grace * 1500 + 1))
            inj = []
            if rng.random() < 0.6:
                for site, k in rng.sample([(2, 1), (2, 2), (2, 3), (3, 1), (3, 2)], rng.choice([1, 1, 2])):
                    cmds = []
                    for _ in range(rng.choice([1, 2, 2])):
                        cmds += ["adv,%d" % rng.randrange(10, 900), "log,%d,%s,%s" % (rng.randrange(1, nthreads + 1), nid(), src())]
                    inj.append((site, k, cmds))
            lines.append("poll" + "".join(" %d.%d:%s" % (s_, k_, ";".join(c_)) for s_, k_, c_ in inj))
    lines.append("adv %d" % rng.randrange(grace * 1000 + 10, grace * 3000))
    lines += ["poll"] * (n[0] + 3)
    return lines


def run(ck, tier, ps):
    prop = ck.prop
    ok, hbin, log = vlib.build_harness(HARNESS[0], HARNESS[1], extra_flags=HARNESS[2])
    if not ok:
        ck.violation("harness_build_tsc", log, "harness h3_tsc no longer compiles against the current tree (correspondence of the RdtscClock model broken): " + log[-300:], no_input=True)
        return {"built": False}
    pargs = params_args(ck.extracted)
    plans = [(ck.seed, 250, 40)] if tier == "quick" else [(ck.seed, 4000, 60), (ck.seed + 1000, 4000, 60), (ck.seed + 2000, 2000, 120)]
    cov = {"params": pargs, "cases": 0, "lines": 0, "mismatches": 0, "oracle_hits": 0, "aborts": 0, "harness_stats": [], "driver_totals": [],
           "distinct_nontrivial": 0, "samples": [], "f38_witnesses": []}
    runs = []
    cdir = os.path.join(vlib.VERIF, "corpus", prop)
    e2e = []
    if os.path.isdir(cdir):
        for f in sorted(os.listdir(cdir)):
            p = os.path.join(cdir, f)
            if os.path.isfile(p) and TAG in open(p, errors="replace").readline():
                if f.endswith(".e2e.txt"):
                    e2e.append((f, p))
                else:
                    runs.append(("corpus/" + f, [hbin, "replay", p]))
    for sd, ncases, nops in plans:
        runs.append(("gen seed=%d" % sd, [hbin, "gen", str(sd), str(ncases), str(nops)]))
    first_oracle = first_abort = first_mm = None
    nontrivial = 0
    for label, cmd in runs:
        rc, out = vlib.sh(cmd, env=vlib.ASAN_ENV, timeout=3000)
        out = "\n".join(l for l in out.split("\n") if not l.startswith("Failed to sync RdtscClock"))
        cases = split_cases(out)
        by_id = {c[0].split()[1]: c for c in cases}
        cov["cases"] += len(cases)
        cov["harness_stats"] += [label + ": " + l for l in out.split("\n") if l.startswith("STATS")]
        rcd, dout = vlib.driver(["tsc", "trace"] + pargs, stdin_data=out.encode(), timeout=1800)
        done = False
        for ln in dout.split("\n"):
            if ln.startswith("TRACE "):
                kv = dict(x.split("=") for x in ln.split()[2:])
                cov["lines"] += int(kv["lines"])
                # non-trivial: at least one successful resync after construction, one failed one, and 8 conversions
                if int(kv["resyncs"]) >= 1 and int(kv["failed"]) >= 1 and int(kv["convs"]) >= 8:
                    nontrivial += 1
                    if len(cov["samples"]) < 2:
                        c = by_id.get(ln.split()[1])
                        if c:
                            cov["samples"].append({"source": label, "trace": [x[:200] for x in c[:6]]})
            elif ln.startswith("DONE"):
                done = True
                cov["driver_totals"].append(label + ": " + ln)
            elif ln.startswith(("MISMATCH", "BAD-OP", "NO-INIT")):
                cov["mismatches"] += 1
                if first_mm is None:
                    m = re.search(r"trace=(\S+)", ln)
                    first_mm = (label, ln, by_id.get(m.group(1)) if m else None)
        if not done:
            cov["mismatches"] += 1
            if first_mm is None:
                first_mm = (label, "driver `tsc` did not finish (rc=%d): %s" % (rcd, dout[-300:]), None)
        for c in cases:
            for i, ln in enumerate(c):
                if ln.startswith("ORACLE"):
                    cov["oracle_hits"] += 1
                    if first_oracle is None or i < first_oracle[2]:
                        first_oracle = (label, c, i, ln)
                    break
        if rc not in (0, 3):
            cov["aborts"] += 1
            if first_abort is None:
                m = re.search(r"(SUMMARY: [^\n]*|runtime error: [^\n]*|AddressSanitizer[^\n]*)", out)
                first_abort = (label, cases[-1] if cases else [], "harness h3_tsc aborted (rc=%d) while driving the real RdtscClock: %s" % (
                    rc, m.group(1)[:240] if m else out[-300:].strip()))
    # end to end on the real Frontend / Logger(Tsc, System, user clock) / BackendWorker: corpus scripts, then generated ones (exact conversion)
    import tempfile
    from concurrent.futures import ThreadPoolExecutor
    tmpd = tempfile.mkdtemp(prefix="verif_tsc_e2e_")
    n_e2e = 40 if tier == "quick" else 600
    jobs = [(f, p, "F38" in open(p, errors="replace").readline()) for f, p in e2e]
    for i in range(n_e2e):
        gp = os.path.join(tmpd, "g%d.e2e.txt" % i)
        with open(gp, "w") as fh:
            fh.write("\n".join(gen_e2e(ck.seed * 7919 + i)) + "\n")
        jobs.append(("gen_e2e seed=%d" % (ck.seed * 7919 + i), gp, False))
    with ThreadPoolExecutor(max_workers=8) as pool:
        outs = list(pool.map(lambda j: vlib.sh([hbin, "e2e", j[1]], env=vlib.ASAN_ENV, timeout=600), jobs))
    cov["e2e"] = {"scripts": 0, "statements_written": 0, "statements_logged": 0, "injected_logs": 0, "oracle_hits": 0, "aborts": 0}
    first_e2e = None
    listed = [f for f in vlib.known_findings(prop) if f.get("id") == "F38"]
    f38_hits = []
    for (label, p, is_f33), (rc, out) in zip(jobs, outs):
        hits = [l for l in out.split("\n") if l.startswith("ORACLE")]
        # input class of F38: two TSC statements converted against different bases (a resync between the two conversions);
        # the harness decides it from the written timestamps alone (they do not differ by scale(tsc difference) ± 1 ns)
        mine = [l for l in hits if l.endswith("class=resync-between-conversions")]
        if is_f33:
            cov["f38_witnesses"].append({"file": "corpus/%s/%s" % (prop, label), "rc": rc, "oracle": hits[:2],
                                         "written": [l for l in out.split("\n") if l.startswith("poll => w:")]})
        if mine and listed:
            f38_hits.append((label, mine[0]))
            hits = [l for l in hits if l not in mine]
            if not hits and rc in (0, 3):
                if not is_f33:
                    cov["e2e"]["scripts"] += 1
                continue
        elif is_f33 and not hits and rc in (0, 3):
            continue    # the witness no longer reproduces (repaired): nothing to say
        cov["e2e"]["scripts"] += 1
        m = re.search(r"STATS e2e_written=(\d+) logged=(\d+)", out)
        if m:
            cov["e2e"]["statements_written"] += int(m.group(1))
            cov["e2e"]["statements_logged"] += int(m.group(2))
        cov["e2e"]["injected_logs"] += len(re.findall(r" i\d+\.\d+:", out))
        if hits or rc not in (0, 3) or not m:
            cov["e2e"]["oracle_hits" if hits else "aborts"] += 1
            if first_e2e is None:
                first_e2e = (label, p, hits, rc, out)
    if first_e2e:
        label, p, hits, rc, out = first_e2e
        script = open(p).read()
        if not script.startswith("# h3_tsc e2e"):
            script = "# h3_tsc e2e — " + label + "\n" + script
        what = hits[0] if hits else "harness h3_tsc e2e aborted rc=%d: %s" % (rc, out[-300:].strip())
        ck.violation(TAG + "_e2e", script + "# ---- harness output on the current tree ----\n# " + out.strip().replace("\n", "\n# ") + "\n",
                     "property fails on the real code (real Frontend/BackendWorker with ClockSourceType::Tsc / System loggers, scripted rdtsc and wall clock, "
                     "every statement enqueued at once): %s (script %s; %d failing scripts)" % (what[:300], label, cov["e2e"]["oracle_hits"] + cov["e2e"]["aborts"]))
    if f38_hits:
        ck.known("F38 still reproduces in %d script(s) of its input class (TSC logger, a resync between the conversions of two statements), e.g. %s: %s; "
                 "replay=corpus/C05/tsc_resync_backstep.e2e.txt" % (len(f38_hits), f38_hits[0][0], f38_hits[0][1][:260]))
    import shutil
    shutil.rmtree(tmpd, ignore_errors=True)
    cov["distinct_nontrivial"] = nontrivial
    cov["rule"] = ("one case = one life of a real RdtscClock (slope estimate equal / slightly above / below the truth incl. full 53-bit significands, resync "
                   "interval 1 us - 500 ms, base near the uint64 wrap in 15%, constructor with 1-8 attempts) followed by conversions at the trigger boundary "
                   "(interval - 1, interval, interval + 1, + 2), increasing / repeated / decreasing / before-the-base tsc values, idle resyncs, "
                   "time_since_epoch_safe, wall-clock steps, attempts with lags 0 / 2499 / 2500 / 2501 / 10000 / 10001 / huge, all attempts failing, too few "
                   "reads; non-trivial iff it has a successful resync after construction, a failed one and at least 8 conversions; distinct by construction (PRNG stream)")
    if first_oracle:
        label, case, i, ln = first_oracle
        ck.violation(TAG + "_oracle", replay_content(prop, "%s: %s" % (label, ln), case, i),
                     "the real RdtscClock violates an oracle of the TSC conversion (monotone between resyncs / exact arithmetic within 1 ns / trigger / "
                     "failed resync keeps the base / good read accepted): %s (%d failing cases; op sequence in the replay file)" % (ln[:300], cov["oracle_hits"]))
    if first_abort:
        label, case, what = first_abort
        ck.violation(TAG + "_abort", replay_content(prop, "%s: %s — the call that died is the last line" % (label, what), case), what)
    if first_mm and not (first_oracle or first_abort):
        label, ln, case = first_mm
        ck.violation(TAG + "_correspondence",
                     replay_content(prop, "correspondence stream `tsc` (harness h3_tsc vs Lean driver) no longer agrees: %s: %s" % (label, ln[:300]), case or []),
                     "RdtscClock model and the real class disagree (%d lines), no property oracle fired: %s" % (cov["mismatches"], ln[:300]), no_input=True)
    return cov


def replay(prop, path):
    ok, hbin, log = vlib.build_harness(HARNESS[0], HARNESS[1], extra_flags=HARNESS[2])
    if not ok:
        print(log)
        return 2
    ex = vlib.run_extract()
    vlib.lake_build(["driver"])
    if path.endswith(".e2e.txt") or "e2e" in open(path).readline():
        rc, out = vlib.sh([hbin, "e2e", path], env=vlib.ASAN_ENV)
        print(out)
        return 1 if rc != 0 or "ORACLE" in out else 0
    rc, out = vlib.sh([hbin, "replay", path], env=vlib.ASAN_ENV)
    print(out)
    rc2, dout = vlib.driver(["tsc", "trace"] + params_args(ex), stdin_data=out.encode())
    print(dout)
    bad = [l for l in out.split("\n") if l.startswith("ORACLE")]
    for l in bad[:3]:
        print("REPLAY-VIOLATION " + l)
    return 1 if bad or rc not in (0, 3) else 0
