"""Proof bundle B of the backend properties: C05 (global timestamp order), C06 (flush_log)."""
THEOREMS = {
    "C05": ["Backend.C05_pop_order", "Backend.C05_statement_order", "Backend.C05_order_continues",
            "Backend.C05_pinned_order_violates", "Backend.C05_premise_needed", "Obligations.C05_extracted"],
    "C06": ["Backend.C06_conservation", "Backend.C06_flag_only_after_pop", "Backend.C06_flag_numbers_unique",
            "Backend.C06_own_statements_first", "Backend.C06_flush_step", "Backend.C06_other_threads",
            "Backend.C06_flush_never_dropped", "Backend.C06_release", "Backend.C06_flush_log_returns_partial", "Backend.C06_flush_log_returns_after_grace_partial",
            "Backend.C06_pinned_order_violates", "Backend.C06_removed_logger_sink_not_flushed_unrepaired", "Backend.C06_removed_logger_sink_flushed",
            "Obligations.C06_extracted"],
}
MODULES = {"C05": ["QuillModel.Props.C05"], "C06": ["QuillModel.Props.C06"]}
OBLIG = ["QuillModel.Obligations.BackendB"]
