"""Proof bundle B of the backend properties: C05 (global timestamp order), C06 (flush_log)."""
THEOREMS = {
    "C05": ["Backend.C05_pop_order", "Backend.C05_statement_order", "Backend.C05_order_continues",
            "Backend.C05_pinned_order_violates", "Backend.C05_premise_needed", "Obligations.C05_extracted"],
}
MODULES = {"C05": ["QuillModel.Props.C05"]}
OBLIG = ["QuillModel.Obligations.BackendB"]
