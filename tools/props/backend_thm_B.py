"""Proof bundle B of the backend properties: C05 (global timestamp order), C06 (flush_log), and the end-to-end half of
C09 on the backend model (a blocked log call resumes; THEOREMS["C09"] / MODULES["C09"] are picked up by props/queue.py)."""
THEOREMS = {
    "C05": ["Backend.C05_pop_order", "Backend.C05_statement_order", "Backend.C05_order_continues",
            "Backend.C05_pinned_order_violates", "Backend.C05_premise_needed", "Obligations.C05_extracted"],
    "C06": ["Backend.C06_conservation", "Backend.C06_flag_only_after_pop", "Backend.C06_flag_numbers_unique",
            "Backend.C06_own_statements_first", "Backend.C06_flush_step", "Backend.C06_other_threads",
            "Backend.C06_flush_never_dropped", "Backend.C06_release", "Backend.C06_flush_log_returns_committed", "Backend.C06_flush_log_returns_committed_after_grace",
            "Backend.C06_flush_log_returns",
            "Backend.C06_flush_log_contract", "Backend.C06_nothing_unflushed_at_raise",
            "Backend.C06_pinned_order_violates", "Backend.C06_removed_logger_sink_not_flushed_unrepaired", "Backend.C06_removed_logger_sink_flushed",
            "Backend.C06_erased_logger_sinks_flushed", "Backend.C06_unflushed_sink_reachable",
            "Backend.C06_erased_logger_sink_never_flushed_unrepaired", "Backend.C06_erased_logger_sink_flushed",
            "Obligations.backendB_flush_interval_structure", "Obligations.backendB_startC_f33",
            "Obligations.C06_extracted"],
    "C09": ["Backend.C09_reads_committed", "Backend.C09_drain_publishes", "Backend.C09_blocked_call_resumes", "Backend.C09_obs_ret1",
            "Backend.C09_call_after_drain_accepted", "Backend.C09_empty_queue_retry_granted", "Backend.C09_empty_queue_call_accepted",
            "Backend.C09_drain_rule_needed", "Obligations.C09_backend_extracted"],
}
MODULES = {"C05": ["QuillModel.Props.C05"], "C06": ["QuillModel.Props.C06"], "C09": ["QuillModel.Props.C09Backend"]}
OBLIG = ["QuillModel.Obligations.BackendB"]
OBLIG_BY_PROP = {"C05": ["QuillModel.Obligations.BackendB_C05", "QuillModel.Obligations.BackendB_Common"], "C06": ["QuillModel.Obligations.BackendB_C06", "QuillModel.Obligations.BackendB_C05", "QuillModel.Obligations.BackendB_Common"],
                 "C09": ["QuillModel.Obligations.BackendB_C09", "QuillModel.Obligations.BackendB_Common"]}
# w2_prog: progress under concurrent frontend activity (Props/C06Progress.lean)
THEOREMS["C06"] += ["Backend.C06_poll_pops_unless_batch_guard", "Backend.C06_flush_not_overtaken",
                    "Backend.C06_flush_log_returns_concurrent", "Backend.C06_batch_guard_starves"]
MODULES["C06"] += ["QuillModel.Props.C06Progress"]
THEOREMS["C06"] += ["Backend.C06_nothing_older_arrives", "Backend.C06_flush_log_returns_concurrent_explicit"]
# w2_prog: C09 under concurrent frontend activity (Props/C09Progress.lean)
THEOREMS["C09"] += ["Backend.C09_retry_granted_once_queue_read", "Backend.C09_pass_reads_every_ripe_queue"]
MODULES["C09"] += ["QuillModel.Props.C09Progress"]
THEOREMS["C09"] += ["Backend.C09_blocked_queue_drains", "Backend.C09_blocked_call_resumes_concurrent"]
THEOREMS["C06"] += ["Backend.C06_flush_log_returns_concurrent_retry"]
MODULES["C06"] += ["QuillModel.Props.C09Progress"]
# lift round (w2_lifts): C05 on the observable event log (Props/C05Write.lean, helpers Backend/LiftOrder.lean)
THEOREMS["C05"] += ["Backend.C05_writes_follow_pops", "Backend.C05_write_is_of_popped", "Backend.C05_write_order",
                    "Backend.C05_write_order_at_sink", "Backend.C05_write_order_pairs", "Backend.PA.InvO.closed"]
MODULES["C05"] += ["QuillModel.Props.C05Write"]
THEOREMS["C06"] += ["Backend.C06_flush_log_returns_concurrent_total"]
THEOREMS["C06"] += ["Backend.C06_flush_not_overtaken_grace0", "Backend.C06_flush_log_returns_concurrent_explicit_grace0"]
