"""Two-frontend bundle (builder-mixed): several FrontendImpl<Options> instantiations with different queue types in one
process — the queue type is a field of the thread context; C08's accounting for every mix of context kinds and every
registration order (Backend/Mixed.lean, Props/C08Mixed.lean), tied by extractors/mixed.py (per-context dispatch of
_check_failure_counter and of the clean-up) and by the h2_mixed harness stream (tools/mixed_stream.py)."""
THEOREMS = {
    "C08": ["Backend.C08Mixed_accounting", "Backend.C08Mixed_bounded_dropped_equals_reported_plus_pending",
            "Backend.C08Mixed_early_return_check_is_noop", "Backend.C08Mixed_check_visits_every_bounded_context",
            "Backend.C08Mixed_demo_all_reported", "Backend.C08Mixed_early_return_never_reports",
            "Backend.C08Mixed_early_return_invisible_bounded_first", "Backend.C08Mixed_early_return_late_after_unbounded_exit",
            "Backend.PA.runOpsM_closed", "Backend.PA.InvD.closedM",
            "Obligations.mixed_extraction_complete", "Obligations.mixed_check_is_per_context", "Obligations.mixed_no_early_return",
            "Obligations.C08Mixed_extracted", "Obligations.C08Mixed_check_extracted"],
}
MODULES = {"C08": ["QuillModel.Props.C08Mixed", "QuillModel.Obligations.Mixed"]}
OBLIG = []
OBLIG_BY_PROP = {"C08": ["QuillModel.Obligations.Mixed"]}
