"""Backend / frontend end-to-end properties decided on the deterministic scheduler harness H2 and the Lean backend model:
C03 (exactly once, thread order), C05 (timestamp order), C06 (flush_log), C07 (drain at exit; partial), C08 (dropping queue
accounting), C10 (faults), C16 (levels and filters), C17 (logger removal), C20 (thread contexts).
Proof: Props/C03 … (see THEOREMS). Tie: extraction (extractors/backend.py) + H2 harness vs `driver backend trace`,
plus property oracles on the real outputs (tools/backend_gen.py)."""
import hashlib
import json
import os
import re
import sys
from concurrent.futures import ThreadPoolExecutor

import vlib

sys.path.insert(0, os.path.join(vlib.VERIF, "tools"))
import backend_gen as bg  # noqa: E402

PROPS = ["C03", "C05", "C06", "C08", "C10", "C16", "C17", "C20"]

_COMMON_NOTE = ("Sequential consistency at the granularity of the hook sites (weak-memory reasoning is confined to C01/C02); the per-thread "
                "queue inside the model is the proved bounded SPSC model, and for the two unbounded builds a chain of such nodes run the same way "
                "(Backend/UQueue.lean: growth by Uspsc.growDecision, shrink, buffer switch with the F25 retry); libfmt/PatternFormatter are bypassed "
                "by a '%(message)' pattern (C12/C04 cover them); all four FrontendOptions builds of H2 are compared line by line with the model. "
                "The theorem bundles A-V are proved for the bounded machine; for the unbounded machine conservation, chain coherence, the "
                "emptiness test and the C09 grant-after-drain are proved for every operation list (bundle X, Props/C03U.lean), the other "
                "properties are tied by the correspondence and the oracles only.")

_SCOPE = ("Theorems quantify over every `ops : List Op` of the backend model: frontend calls of any number of threads (log calls of every kind, "
          "flush_log, logger create/remove/remove-blocking, level changes, dropped sink references, thread start/exit, clock ticks, stalls after "
          "the clock read), backend polls carrying arbitrary injected frontend operations at hook sites 1-9 (between the clock read and the cache "
          "refresh, before each queue, between records, between events, before the idle branch, inside the clock read, inside the error notifier, "
          "inside a sink destructor run by the logger clean-up) and the exit drain; every configuration (grace, soft/hard limits, queue capacity, "
          "blocking or dropping, sink levels/filters/fault schedules). ")

MANIFEST = {
    "C03": dict(
        technique="Lean 4 proof: conservation and dispatch invariants of the backend model over all schedules (per context accepted = popped ++ transit buffer ++ queue, byte-exact coherence with the proved bounded SPSC queue, every pop emits exactly the dispatch block, ids unique, at most once per sink over the whole log; transit ring buffer refines a FIFO); deterministic differential correspondence of the real Frontend/BackendWorker with the compiled model under a scheduler harness with hook-site injections + exactly-once/order/delivery oracles",
        text=_SCOPE + "Proved for every schedule: C03_conservation (accepted = popped ++ buf ++ qStmts per context, in issue order), C03_queue_coherent (the pending statements are exactly the unread records of the queue, byte counts included), C03_empty_test_sound, C03_removed_drained (a context is dropped only invalid, empty, with accepted = popped), C03_dispatch_exact (one write per sink of the logger whose level and filters accept, in sink order, cut at the first throwing sink), C03_pop_emits_dispatch, C03_ids_unique, C03_at_most_once (number of ordinary writes of an id at a sink over the whole log <= multiplicity of the sink in its logger's list), C03_writes_only_of_popped; the TransitEventBuffer (growth from the reader position, slot reuse, shrink) refines a FIFO (C03_transit_refines, own correspondence stream on the real class). Exactly once over the WHOLE event log: C03_nothing_written_before_pop (a statement still queued or buffered has no write anywhere), C03_pop_writes_exactly (the pop leaves exactly one write per occurrence of each sink that accepts it at dispatch time; with a write fault only the sinks before the faulting one), C03_writes_frozen_after_pop (afterwards the count never changes, through every schedule), C03_exactly_once (their composition across one processing call and any later schedule; the acceptance decision is the one of the state in which that call starts). Tie: real Logger/macros/ThreadContextManager/BackendWorker (ManualBackendWorker) under a deterministic scheduler (virtual clock, parked frontend calls, injected operations), every observation line recomputed by the compiled Lean model; oracles on the recorded sink calls (exactly once, per-thread order, accepted => delivered after the drain) also on the two unbounded-queue builds, whose every observation line is likewise recomputed by the unbounded-queue machine of the model (C03U_conservation / C03U_queue_coherent: the same conservation and byte-exact coherence for the chain of buffers, every operation list).",
        note=_COMMON_NOTE, ref="§5 C03, §4.3, §9.1"),
    "C05": dict(
        technique="Lean 4 proof: ordering invariant over all schedules under the property's own grace-period premise (pop order sorted by timestamp); extraction of the sample-then-refresh order with a negative witness for the pinned order (F5); differential correspondence incl. registration inside the sampling window and inside the clock read",
        text=_SCOPE + "Proved: C05_pop_order / C05_statement_order — if every accepted record satisfies enqueue time <= timestamp + grace (the property's premise, checked on the final state), the sequence of popped statements (hence of writes at every sink) is sorted by timestamp, for grace != 0 and the extracted fact that the context cache is refreshed after ts_now is sampled; C05_order_continues from any state satisfying the invariant. Negative witnesses by `decide`: the pinned order (refresh before the clock read, F5, repaired) pops 1000, 1101, 1100 under the premise; a call stalled longer than the grace period breaks premise and order. Obligations: stop on a future timestamp, do-while read loop, strict minimum, both batch guards (extracted). Unbounded queue: the backend model carries the bounded queue, so the ordering theorem is proved for it; what the argument needs from the unbounded queue — a read pass misses nothing that is committed — is proved on the C02 chain model (Uspsc.C05_unbounded_read_complete: with the retry rule of _read_unbounded_frontend_queue a read answers nothing only when every buffer from the consumer's to the producer's is drained, otherwise the oldest unread committed record; decide witnesses for both values of the rule = finding F25, found by the thorough tier on the unbounded H2 builds and repaired) and tied by the rp operation of the H1 harness on the real queue; end to end the unbounded builds are compared line by line with the unbounded-queue machine of the backend model (which executes exactly this retry rule, flag extracted) and run under the property oracles; the ordering theorem itself is proved for the bounded machine.",
        note=_COMMON_NOTE + " rdtsc→epoch conversion is not modelled (System clock in the harness).", ref="§5 C05, §9.1, Appendix A.2"),
    "C06": dict(
        technique="Lean 4 proof: flag-after-flush invariants on the backend model for every schedule (flag only after the Flush event was popped, own statements popped first, every sink of every logger not yet erased flushed before the flag, other threads' strictly older statements popped under C05's hypotheses, request never dropped or counted); witnesses for F6 and F12; differential correspondence + oracle at the moment flush_log returns",
        text=_SCOPE + "Proved: C06_flag_only_after_pop, C06_flag_numbers_unique (a caller is released only by its own Flush event), C06_own_statements_first (everything the caller's thread accepted earlier was popped — hence dispatched, C03 — before its Flush statement), C06_flush_step (processing the Flush event emits flushed / fthrow+notification for every active sink and only then raises the flag; a throwing flush blocks neither the other sinks nor the flag), C06_other_threads (grace != 0, C05 premise: every record of any thread with a strictly smaller timestamp has been popped when the flag is raised; equal clock values are a tie and not claimed), C06_flush_never_dropped (dropping and blocking queues: a refused request parks for a retry with nothing counted), C06_release. Findings proved as witnesses: F6 (pinned refresh order) and F12 (sinks of a logger marked for removal were skipped by the flush: C06_removed_logger_sink_not_flushed_unrepaired / _sink_flushed for the repaired, extracted flag value). The sink's own write/flush protocol ('flushed, so it can be read from the destination'): FileSink.C06_sink_conservation and C06_sink_flush_makes_readable (file ++ stdio buffer = everything written; after flush_sink() the file holds everything written, for every sequence of writes with or without a before_write callback, flushes and periodic tasks, provided every writing path marks the stream dirty — extracted by enumerating the control paths of StreamSink::write_log; witnesses for a path that forgets the flag), tied by h3_filesink on the real FileSink / JsonFileSink / RotatingFileSink / StreamSink with the file re-read through a second descriptor after every flush. Contract over positions of the event log: C06_flush_log_contract (if the caller's Flush statement st sits in accepted = pre ++ st :: post and its flag is raised, then the flag's position n in the log is recorded, popped = pre ++ st :: more, no write of a statement of pre comes after n, and every write before n — of any thread and logger — is followed before n by a flush of its sink), C06_nothing_unflushed_at_raise (for every raised flag, flush or removal). Progress ('flush_log returns as long as the backend keeps running'): C06_flush_log_returns_committed / _committed_after_grace (a committed request: after quiet polls, at least as many as there are pending records, past the grace period, the flag is raised and resume answers done; single-event and batch mode, every soft/hard limit) and C06_flush_log_returns (a caller still in its retry loop behind a full queue, either queue type: after the drain the retry is granted — C09 end to end —, then the flag is raised and the call returns). Assumed there: the drain continuation itself is quiet (no frontend operation injected during it), the request fits an empty queue, the backend keeps running; the prefix schedule is arbitrary (C09_reads_committed: in every reachable state a context with nothing left to read has its reader position published).",
        note=_COMMON_NOTE, ref="§5 C06, §7 F6 F12, §9.1"),
    "C08": dict(
        technique="Lean 4 proof: accounting invariants on the backend model for every schedule (discarded + blocked = reported + pending counters; ret=1 iff appended, ret=0 iff counted; control requests retried, never counted; a reclaimed context has a zero counter under the extracted F24 flag); witnesses for F17/F24 in all flag combinations; differential correspondence on the BoundedDropping build + drop-count oracle",
        text=_SCOPE + "Proved: C08_accounting (sum of discarded statements and blocking episodes = reported through the notifier + sum of the per-context counters, over all contexts ever created), C08_dropped_equals_reported_plus_pending (dropping queue), C08_log_call_outcome (a log call returns true iff the statement is appended to the accepted history and no counter moves, false iff nothing is appended and the counter and the discarded count grow by one), C08_control_request_retried / _retry_reattempts / _control_kinds (flush, backtrace init/flush, removal requests are parked and re-attempted, never counted), C08_removed_context_reported (removed => counter 0 in every reachable state, under the extracted flag of the F24 repair), delivered statements intact and in order via C03. Witnesses by `decide`: the F17 and F24 schedules lose a count for the unrepaired flag values and report it for the repaired ones. Never both: C08_dropped_call_id_unplaced, C08_unplaced_forever, C08_discarded_never_written (the id of a refused call is in no accepted history or parked call, stays so through every schedule, and is never written at any sink). Quiescence: C08_cache_covers_registry, C08_idle_pass_drains_counters, C08_quiescent_all_reported (from a freshly started system, after ANY schedule followed by one idle poll with nothing injected, every counter of every context ever created is 0 and the discarded statements equal the reported ones). The counter protocol itself (fetch_add against load + exchange(0)) is one atomic step in this model; at atomic-access granularity it is proved separately for every interleaving and stale load (Ctr.C08_counter_conservation: sum of returned values + newest counter = increments; C08_counter_final_pass; witnesses for load+store and for a non-atomic increment) and tied to the real ThreadContext / BackendWorker::_check_failure_counter under the N-thread atomic shim (harness h1_reg, `driver reg`). Unbounded queue types are outside this property (its clause is about bounded dropping queues): _check_failure_counter skips such contexts and the clean-up ignores their counter, so a refusal at unbounded_queue_max_capacity is counted and never reported; stated as a theorem of the unbounded-queue machine (C08U_counter_never_reset: the counter always equals the refused calls, every operation list) and visible in the H2 correspondence of the two unbounded builds (no n:dropped / n:blocked line ever appears).",
        note=_COMMON_NOTE, ref="§5 C08, §7 F17 F24, §9.1"),
    "C10": dict(
        technique="Lean 4 proof: fault locality on the backend model with arbitrary write_log / flush_sink fault schedules for every schedule (conservation and at-most-once survive, the event is popped on every path, a write fault splits the sink list at the first accepting thrower and touches nothing else, a flush visits every sink and raises its flag); differential correspondence with throwing recording sinks",
        text=_SCOPE + "Proved with arbitrary per-sink lists of throwing write and flush calls: C10_conservation_under_faults, C10_pop_on_every_path (the processed event leaves the transit buffer whether or not an exception escapes, other contexts untouched), C10_process_makes_progress, C10_write_fault_local / C10_process_event_local (only the sinks after the first throwing accepting sink miss that one statement; queues, buffers, other statements, configuration untouched), C10_fault_schedule_constant, C10_at_most_once_under_faults, C10_flush_visits_every_sink, C10_flush_fault_loses_nothing, C10_flush_flag_raised, C10_backtrace_without_init. Formatter exceptions (std and non-std, finding F4, repaired) are an extraction obligation here (catch-all next to the std::exception handler) and are exercised on the real formatter by C04's harness; libfmt itself is not modelled.",
        note=_COMMON_NOTE, ref="§5 C10, §7 F4, §9.1"),
    "C16": dict(
        technique="Lean 4 proof: decision-logic and dispatch theorems on the backend model (enqueue and argument evaluation iff level >= logger level at the call; written to sink i iff level >= that sink's level and every filter accepts, independent of the other sinks; the statement's own static or dynamic level travels with it) + level-table obligations extracted from LogLevel.h; differential correspondence with per-sink recording and argument-evaluation counters, level changes interleaved; invariant over all schedules and stale relaxed loads of add_filter / set_log_level_filter against apply_all_filters under a release/acquire view semantics (the proved spinlock model inside), tied by structural extraction and an N-thread atomic-shim harness with real lock contention",
        text=_SCOPE + "Proved: C16_shouldLog_iff (the frontend test is logger level <= statement level), C16_below_level_nothing (below the level nothing changes but the id counter: no evaluation, no enqueue), C16_at_level_enqueued (the record carries exactly the level passed, static or dynamic; parked, appended, or refused and counted), C16_sinks_exact / C16_sink_iff (the events of a dispatch are exactly one write per accepting sink, in list order, with the statement's own id, level and timestamp), C16_sink_independent (other sinks' levels and filters do not matter), C16_sink_prefix (a throwing sink cuts off only the sinks after it), C16_level_reported, C16_process_is_dispatch; obligations level_order / level_ranks / level_compare_is_rank_compare on the extracted enum. Tie: the H2 harness uses the real LOG_* macros (static levels) and the dynamic-level call with side-effect counters in the arguments, sink level filters and filters, level changes interleaved (also injected inside polls), against the model, plus an oracle on every recorded sink call. Which pattern a sink's line is formatted with (its own override pattern if it has one, else its logger's, whatever the order in which loggers were first dispatched and whichever loggers share a formatter) is the pattern bundle's rule (C12_sink_pattern_rule, C12_sink_pattern_independent_of_history), audited here with its extraction obligation. Concurrency of Sink::add_filter with the backend's apply_all_filters (relaxed _new_filter flag, spinlock, _local_filters copy): C16_filter_lock_exclusive and C16_filter_visibility prove for every number of threads, schedule and stale-load choice that the copy is race-free and that every evaluation consults a filter list containing every filter whose add_filter returned happens-before the evaluation and only filters whose add_filter had begun (negative witnesses: try_lock-and-evaluate-anyway leaks, relaxed lock races, and the run showing why the happens-before premise is needed); tied to the code by extraction of the two functions' structure and by running the real Sink compiled against an N-thread atomic shim under thousands of generated schedules (every atomic access a scheduling point) against the model and a DONE/STARTED oracle.",
        note=_COMMON_NOTE + " Override pattern formatters per sink are covered by C12. Filter concurrency: DONE is defined by happens-before (queue publication / lock), not wall-clock, because _new_filter is relaxed; there is no remove_filter in the API.", ref="§5 C16, §9.1"),
    "C17": dict(
        technique="Lean 4 proof: logger/sink life-cycle invariant on the backend model for every schedule incl. frontend steps inside a sink destructor (site 9): an erased logger has no record left in any queue or buffer, the erase rests on the per-logger emptiness check of the current state (negative witness for a hoisted check), a dead sink is unreferenced and never used after its destructor, create/remove contracts; the registries' spinlock proved under the release/acquire view semantics; differential correspondence incl. remove_logger_blocking, re-creation, sink destruction under ASan",
        text=_SCOPE + "Proved: C17_erased_logger_has_no_record (no record of an erased logger sits in any queue or transit buffer and every parked call's logger is valid and not erased — so statements logged before the removal are all popped, hence dispatched by C03, before the erase), C17_erase_only_when_drained, C17_erase_step_guarded (the erase uses allEmpty of the CURRENT state; with site 9 a logger may get a statement and be removed while an earlier logger's sink is being destroyed), C17_hoisted_check_erases_queued_logger (decide +kernel: with the check hoisted out of the loop that logger is erased with its statement queued), C17_dead_sink_unreferenced (a sink is destroyed only when the user dropped it and no un-erased logger holds it; sinks of un-erased loggers are alive), C17_no_use_after_dtor / C17_alive_sink_no_dtor (no write or flush of a sink after its destructor in the event log), C17_parked_removal_exclusive, C17_create_returns_existing / _fresh_object / _waits_for_erase (idempotent lookup; a name is re-created with new sinks only after the old object was erased), C17_remove_busy_noop; by-name sink registry (SinkReg.*: the sorted vector of (name, weak_ptr) of SinkManager, proved for every create_or_get/get/release/sweep sequence: sorted, at most one live entry per name, create_or_get/get idempotent whatever expired entries coexist, the sweep removes exactly the expired entries and changes no answer; witnesses for an insert at the upper bound; tied by h3_sinkreg on the real SinkManager, exhaustive op sequences up to length 6 over two names plus random ones, vs `driver sinkreg`); Spin.C17_spinlock_safe (mutual exclusion and visibility of the registries' lock for the extracted memory orders, every schedule and stale-load choice; witnesses for relaxed exchange/unlock). 'remove_logger_blocking returns only after the removal completed': C17_removal_flag_after_erase (every reachable state, frontend operations injected at site 9 included: a raised removal flag means the logger object its request names is erased; uses C06_flag_numbers_unique) and C17_remove_blocking_returns_after_erase (when the parked remover's resume answers done, its logger is erased, every record accepted through it in any context is popped and no live actor is parked with a statement through it); the caller's request is identified by its flag number (the model's parked state does not record the kind of call).",
        note=_COMMON_NOTE + " Contract assumed (enforced identically by generator, harness and model as no-ops): no log call through a logger after remove_logger, no re-creation before the removal completed. File closing by ~FileSink is libc/OS behaviour: the harness uses recording sinks; real file sinks are C14/C15/C07's harnesses.", ref="§5 C17, §3.3 site 9, §9.1"),
    "C20": dict(
        technique="Lean 4 proof: reclamation invariants on the backend model for every schedule (invalid-context counter exact modulo 2^bits with the width extracted, a live thread's context never reclaimed, a reclaimed context empty with accepted = popped, after an idle pass the registry is exactly the live threads' contexts up to unreported failure counters); witnesses for a narrow counter (F13); differential correspondence with thread churn; shrink/capacity oracles on the unbounded builds",
        text=_SCOPE + "Proved: C20_counter (invalidCnt = number of registered invalid contexts mod 2^bits), C20_counter_exact and C20_early_return_iff (below 2^bits registered contexts — obligation 32 <= extracted width; 1- and 2-bit witnesses reproduce F13 in miniature), C20_live_contexts_registered, C20_reclaimed_delivered (an unregistered context is empty and everything it accepted was popped: pending statements of an exited thread are delivered before the reclaim), C20_idle_poll_reclaims (after an idle pass that found everything empty every registered context is valid or holds a not yet reported failure counter — the F24 repair keeps those one more pass), C20_idle_poll_retains_live and C20_quiet_idle_poll_retains_live (idle pass with nothing injected: the registry is a permutation of the live threads' contexts, counts agree — 'contexts retained = live threads that logged'), for any number of start/exit cycles. The hand-over of a NEW context between register_thread_context and the backend's cache refresh is proved at atomic-access granularity (Reg.C20_registration_not_lost: never 'registered, not cached, flag consumed', for any number of threads, every schedule and stale load; C20_next_update_picks_up; witnesses for flag-before-push, reset-after-copy, relaxed unlock) and tied to the real ThreadContextManager / BackendWorker members under the N-thread atomic shim (harness h1_reg). Shrinking of the unbounded queue (capacity drops, nothing lost or reordered) is proved on the queue model in C02 (C02_shrink_iff, chain safety) and, inside the backend model, by C03U_shrink_keeps / C20U_empty_test_sound_run (a shrink request loses and reorders nothing, the clean-up's emptiness test is sound for the whole chain, every operation list); the capacity reported after every shrink request and every buffer switch of the two unbounded H2 builds is recomputed by the model and checked by the capacity oracles.",
        note=_COMMON_NOTE, ref="§5 C20, §7 F13 F24, §9.1"),
}

THEOREMS = {p: [] for p in PROPS}
MODULES = {p: [] for p in PROPS}
OBLIG = []
OBLIG_BY_PROP = {}

# theorem lists are contributed by tools/props/backend_thm_*.py (one per proof bundle): THEOREMS, MODULES, OBLIG
import glob as _glob
import importlib.util as _ilu
for _f in sorted(_glob.glob(os.path.join(os.path.dirname(os.path.abspath(__file__)), "backend_thm_*.py"))):
    _spec = _ilu.spec_from_file_location(os.path.basename(_f)[:-3], _f)
    _m = _ilu.module_from_spec(_spec)
    _spec.loader.exec_module(_m)
    for _p, _l in getattr(_m, "THEOREMS", {}).items():
        THEOREMS.setdefault(_p, []).extend(_l)
    for _p, _l in getattr(_m, "MODULES", {}).items():
        MODULES.setdefault(_p, []).extend(x for x in _l if x not in MODULES.get(_p, []))
    for _x in getattr(_m, "OBLIG", []):
        if _x not in OBLIG:
            OBLIG.append(_x)
        # a bundle's obligation modules belong to the properties that bundle lists theorems for: a broken obligation of the
        # filter bundle is C16's broken tie, not C03's
        for _p in getattr(_m, "THEOREMS", {}):
            if getattr(_m, "OBLIG_BY_PROP", None) is not None:
                continue   # the bundle says itself which of its obligation modules belongs to which property (below)
            if getattr(_m, "THEOREMS", {}).get(_p) and _x not in OBLIG_BY_PROP.setdefault(_p, []):
                OBLIG_BY_PROP[_p].append(_x)
    for _p, _l in (getattr(_m, "OBLIG_BY_PROP", None) or {}).items():
        for _x in _l:
            if _x not in OBLIG_BY_PROP.setdefault(_p, []):
                OBLIG_BY_PROP[_p].append(_x)

# structural obligations of the coordinator (Obligations/Structure/<Cxx>.lean, one module per property): attached once it is claimed
for _p in list(THEOREMS):
    if THEOREMS[_p] and _p in PROPS:
        THEOREMS[_p] += ["Obligations.structure_%s" % _p, "Obligations.backend_extraction_complete"]
for _p in list(THEOREMS):
    if THEOREMS[_p] and _p in PROPS:
        for _x in ("QuillModel.Obligations.Structure.%s" % _p, "QuillModel.Obligations.Structure.Complete"):
            if _x not in OBLIG:
                OBLIG.append(_x)
            if _x not in OBLIG_BY_PROP.setdefault(_p, []):
                OBLIG_BY_PROP[_p].append(_x)

# bundle M (tools/props/math_thm_M.py): MathUtilities.h + TransitEventBuffer constructor / index arithmetic, attached to C03
import props.math_thm_M as _mM
if THEOREMS.get("C03"):
    _mM.attach("C03", THEOREMS["C03"], MODULES["C03"], OBLIG_BY_PROP.setdefault("C03", []))
    for _x in _mM.OBLIG_BY_PROP["C03"]:
        if _x not in OBLIG:
            OBLIG.append(_x)

# a property is claimed in MANIFEST.json only once its theorem file exists
_ALL_MANIFEST = MANIFEST
# round 2 (DESIGN §13): sentences appended to the level texts so that the manifest names what was added
_R2 = {
    "C03": " Round 2: trace-level forms over every run (C03_exactly_once_trace, C03_whole_run_count, C03_exactly_once_after_drain, C03_final_acceptance), read-loop fuel proved sufficient up to 63 operations injected at site 3 (exact), the unbounded-queue machine carries conservation / queue coherence / emptiness-test soundness for every operation list (C03U_*), mixed queue types per process (C08Mixed stream).",
    "C05": " Round 2: order of the observable write events (C05_write_order, _at_sink, _pairs), aborted polls of the fault layer (C05_aborted_poll_is_the_pass, witness for catch-and-continue), TSC clock model and stream (C05Tsc_*: monotone between resyncs, exact shift and inversion bounds across a resync; finding F38 listed as known).",
    "C06": " Round 2: sink_min_flush_interval is inside the model (flushGate, preEraseFlush); the contract holds for every interval (finding F33 repaired, flag flushBeforeLoggerErase extracted); progress under arbitrary concurrent frontend activity with the exact characterisation C06_poll_pops_unless_batch_guard (starvation F34 listed as known); tie behaviour at equal timestamps stated with two decide witnesses; unregistered (make_shared) sinks in H2.",
    "C08": " Round 2: the ghost counter tied to the counts printed in the notifier events over every run (C08_reported_is_notified, C08_accounting_on_log), trace-level ret=0 iff discarded and attempted = delivered + discarded + pending (Props/C08Trace.lean), mixed queue types per process (C08Mixed_accounting, h2_mixed stream).",
    "C10": " Round 2: backtrace replays are inside the delivery claims (finding F26 repaired; C10_replay_*, C10_backtrace_at_most_once_per_flush, C10_log_at_most_once_any_level), every sink fault reported exactly once over every run (C10_write_faults_reported_once, C10_flush_faults_reported_once), fault kinds / failing override patterns / aborted polls (fault layer, bundle Y: C10_pattern_fault_local, C10_fault_reported_kind), formatter exceptions in the backend model (Cfg.fmtFaults, C10_fmt_*; repaired catch only).",
    "C16": " Round 2: a sink whose override pattern cannot be built costs only itself and the sinks after it (C16_rejecting_sink_absent, C10_pattern_fault_local); the acceptance oracle follows run-time changes of a sink's level filter.",
    "C17": " Round 2: destroyed iff unreferenced with exactly one destructor event (C17_sink_destroyed_iff_unreferenced), remove_logger_blocking contract without an example-only link (C17_remove_blocking_contract, C17_parked_flag_has_record), logger registry bundle on the real LoggerManager (C17_logreg_*), removal flags served exactly (C17_cleanup_serves_erased).",
    "C20": " Round 2: shrink theorems (C20_shrink_reported_capacity, C20_shrink_loses_nothing), emptiness test sound along every run of the unbounded-queue machine (C20U_empty_test_sound_run), exit drain of that machine (C07U_exit_leaves_only_drained).",
}
for _p, _t in _R2.items():
    if _p in _ALL_MANIFEST and _t not in _ALL_MANIFEST[_p].get("text", ""):
        _ALL_MANIFEST[_p]["text"] = _ALL_MANIFEST[_p].get("text", "") + _t
MANIFEST = {p: d for p, d in _ALL_MANIFEST.items() if THEOREMS.get(p)}

# the unbounded builds (512-byte initial node, 4 KiB maximum: growth, switches, shrink requests, over-max records) are
# compared line by line with the unbounded-queue machine of the Lean backend model (Backend/UQueue.lean, USched.lean, UOps.lean:
# the chain of bounded nodes in sequentially consistent mode), like the bounded ones with the bounded machine
VARIANTS = {0: "BoundedBlocking", 1: "BoundedDropping", 2: "UnboundedBlocking", 3: "UnboundedDropping"}
UNBOUNDED = (2, 3)
ORACLE_ONLY = {}


def params_line(ex):
    b = ex.get("backend", {})
    q = ex.get("bounded", {})
    fl = ex.get("faults", {})   # w2_faults: structural facts of the fault machine (Backend/Fault.lean, FCfg)
    return "params drain=%d invalidBits=%d refreshAfterSample=%d catchAll=%d batchPct=%d reportFlush=%d keepUnreported=%d flushInvalid=%d replayCatch=%d follow=%d flushBeforeErase=%d patInLoop=%d readAborts=%d notifyAlways=%d" % (
        1 if q.get("drainPublish", True) else 0, b.get("invalidBits", 32), 1 if b.get("refreshAfterSample", True) else 0,
        1 if b.get("catchAllFormat", True) else 0, q.get("defaultPercent", 5), 1 if b.get("reportBeforeFlushCleanup", True) else 0,
        1 if b.get("cleanupKeepsUnreported", True) else 0, 0 if b.get("flushOnlyValidLoggers", False) else 1,
        1 if b.get("replayCatchesPerEvent", True) else 0, 1 if b.get("unboundedReadFollowsEmptyBuffers", True) else 0,
        1 if b.get("flushBeforeLoggerErase", True) else 0,
        1 if fl.get("overrideFormatterCreatedInsideSinkLoopAfterFilter", True) else 0, 1 if fl.get("readPassHasNoCatch", True) else 0,
        1 if fl.get("processHandlersNotifyUnconditionally", True) else 0)


def run_script(hbin, name, lines, workdir):
    path = os.path.join(workdir, name + ".txt")
    with open(path, "w") as f:
        f.write("\n".join(lines) + "\n")
    rc, out = vlib.sh([hbin, path], env=vlib.ASAN_ENV, timeout=180)
    return name, lines, rc, out


def variant_of_case(case):
    m = re.match(r"(?:corpus_.*_)?v(\d)", case) or re.search(r"_v(\d)$", case)
    return int(m.group(1)) if m else 0


def shrink_script(hbin, lines, still_fails, budget=160):
    """delta debugging (ddmin) on the operations after `start`: the smallest script found within the budget on which
    `still_fails(rc, out)` holds. Removing operations is always legal: what the contract forbids is a no-op in harness and model."""
    try:
        k0 = lines.index("start") + 1
    except ValueError:
        return lines
    head, body = lines[:k0], lines[k0:]
    runs = [0]

    def fails(b):
        runs[0] += 1
        _, _, rc, out = run_script(hbin, "shrink_%d" % os.getpid(), head + b, vlib.CACHE)
        return still_fails(rc, out)

    n = 2
    while len(body) >= 2 and runs[0] < budget:
        chunk = max(1, len(body) // n)
        reduced = False
        for i in range(0, len(body), chunk):
            cand = body[:i] + body[i + chunk:]
            if cand and runs[0] < budget and fails(cand):
                body, n, reduced = cand, max(n - 1, 2), True
                break
        if not reduced:
            if chunk == 1:
                break
            n = min(n * 2, len(body))
    return head + body


# findings of known_findings.json that an oracle recognises by input class: the oracle message starts with "[Fnn]"
KNOWN_CLASS_TAGS = ["F34"]


def is_known_class(msg, known):
    return any(msg.startswith("[%s]" % fid) and fid in known for fid in KNOWN_CLASS_TAGS)


def classify(impl, model):
    """which properties a differing observation line speaks about"""
    it, mt = set(impl.split()), set(model.split())
    diff = " ".join(sorted(it ^ mt))
    props = set()
    if "n:dropped" in diff or "ret=0" in diff or "ret=1" in diff:
        props |= {"C08"}
    if "w:" in diff:
        props |= {"C03", "C05", "C16"}
    if "wthrow" in diff or "fthrow" in diff or "n:wfail" in diff or "n:ffail" in diff or "n:nobt" in diff or \
            "n:empty" in diff or "n:unhandled" in diff or "n:patfail" in diff or "dthrow" in diff or "n:dfail" in diff:
        props |= {"C10"}
    if "n:patfail" in diff:
        props |= {"C16"}
    if "dthrow" in diff or "n:dfail" in diff:
        props |= {"C03", "C05"}
    if "fl:" in diff or "done" in diff:
        props |= {"C06"}
    if "contexts=" in diff:
        props |= {"C20"}
    if "loggers=" in diff or "sinkdtor" in diff or "valid=" in diff:
        props |= {"C17"}
    if "parked" in diff or "n:blocked" in diff:
        props |= {"C06", "C08", "C03"}
    if "ev=" in diff or "skip" in diff:
        props |= {"C16"}
    # unbounded builds: capacity after shrink / growth (C20, and what the ordering and conservation arguments need from the
    # queue), grants, blocks and drops at the maximum capacity (C09, C08), a record over the maximum rejected with an error
    if "cap=" in diff or "n:alloc" in diff:
        props |= {"C20", "C03", "C05", "C09"}
    if "threw" in diff or "bytes=" in diff:
        props |= {"C03", "C08", "C09"}
    if "parked" in diff:
        props |= {"C09"}
    return props or set(PROPS)


def collect(ck, tier, ex):
    """run every script through harness + driver + oracles; cached by content hash (same tree + seed ⇒ same result)"""
    res = {"cases": 0, "lines": 0, "nontrivial": 0, "mismatches": [], "oracle": [], "aborts": [], "samples": [], "stats": {}}
    bins = {}
    allv = list(VARIANTS) + list(ORACLE_ONLY)
    with ThreadPoolExecutor(max_workers=4) as pool:
        built = list(pool.map(lambda v: vlib.build_harness("h2_v%d" % v, ["h2_backend.cpp"],
                                                           extra_flags=["-fno-access-control", "-DH2_VARIANT=%d" % v]), allv))
    for v, (ok, hbin, log) in zip(allv, built):
        if not ok:
            res["build_error"] = log
            return res
        bins[v] = hbin
    key = hashlib.sha1(("|".join(sorted(bins.values())) + params_line(ex) + tier + str(ck.seed) +
                        vlib.tree_hash([os.path.join(vlib.VERIF, "tools", "backend_gen.py"), os.path.abspath(__file__), os.path.join(vlib.VERIF, "corpus"), vlib.DRIVER])).encode()).hexdigest()[:16]
    cpath = os.path.join(vlib.CACHE, "backend_%s.json" % key)
    if os.path.exists(cpath):
        r = json.load(open(cpath))
        r["bins"] = {str(v): b for v, b in bins.items()}
        return r
    n_random = 60 if tier == "quick" else 3000
    nops = 60 if tier == "quick" else 120
    workdir = os.path.join(vlib.CACHE, "h2work_%d" % os.getpid())
    os.makedirs(workdir, exist_ok=True)
    jobs = []
    for v in list(VARIANTS) + list(ORACLE_ONLY):
        for name, lines in bg.directed_scripts(v):
            jobs.append((v, "v%d_%s" % (v, name), lines))
        for k in range(n_random if v in VARIANTS else n_random // 2):
            g = bg.Gen(ck.seed * 100003 + v * 50021 + k, v)
            jobs.append((v, "v%d_r%d_%s" % (v, k, g.focus), g.script(nops)))
    # corpus: file name ends with .v<variant>.txt
    for prop in PROPS + ["C07", "C09"]:
        cdir = os.path.join(vlib.VERIF, "corpus", prop)
        if os.path.isdir(cdir):
            for f in sorted(os.listdir(cdir)):
                m = re.search(r"\.v(\d)\.txt$", f)
                if m and (int(m.group(1)) in VARIANTS or int(m.group(1)) in ORACLE_ONLY):
                    lines = [l.rstrip("\n") for l in open(os.path.join(cdir, f)) if l.strip() and not l.startswith("#")]
                    jobs.insert(0, (int(m.group(1)), "corpus_%s_%s" % (prop, f[:-4].replace(".", "_")), lines))
    pline = params_line(ex)
    with ThreadPoolExecutor(max_workers=12) as pool:
        outs = list(pool.map(lambda j: run_script(bins[j[0]], j[1], j[2], workdir), jobs))
    blob = []
    by_name = {}
    for (name, lines, rc, out) in outs:
        by_name[name] = (lines, out)
        if rc != 0:
            res["aborts"].append({"case": name, "rc": rc, "tail": out[-1500:], "script": lines})
            continue
        res["cases"] += 1
        for (p, msg) in bg.oracles(out.split("\n")):
            res["oracle"].append({"prop": p, "msg": msg, "case": name})
        if variant_of_case(name) in ORACLE_ONLY:
            res["oracle_only_cases"] = res.get("oracle_only_cases", 0) + 1
            continue
        blob.append("case %s\n%s\n%s" % (name, pline, out))
    rc, dout = vlib.driver(["backend", "trace"], stdin_data="\n".join(blob).encode(), timeout=1200)
    for ln in dout.split("\n"):
        if ln.startswith("TRACE "):
            kv = dict(x.split("=") for x in ln.split()[2:])
            res["lines"] += int(kv["lines"])
            if int(kv["writes"]) > 0 and int(kv["polls"]) > 3 and (int(kv["parks"]) > 0 or int(kv["drops"]) > 0 or int(kv["injected"]) > 0):
                res["nontrivial"] += 1
            for k2 in ("polls", "writes", "parks", "drops", "injected"):
                res["stats"][k2] = res["stats"].get(k2, 0) + int(kv[k2])
        elif ln.startswith("MISMATCH") or ln.startswith("NOT-STARTED") or ln.startswith("CALIBRATION"):
            m = re.match(r"MISMATCH case=(\S+) line=\d+: (.*?) impl=\[(.*)\] model=\[(.*)\]$", ln)
            if m:
                res["mismatches"].append({"case": m.group(1), "op": m.group(2), "impl": m.group(3), "model": m.group(4),
                                          "props": sorted(classify(m.group(3), m.group(4)))})
            else:
                res["mismatches"].append({"case": "?", "op": ln[:200], "impl": "", "model": "", "props": list(PROPS)})
    for name in list(by_name)[:2]:
        res["samples"].append({"case": name, "script_head": by_name[name][0][:14]})
    # scripts of the cases that matter, for replays
    need = {m["case"] for m in res["mismatches"][:20]} | {o["case"] for o in res["oracle"][:20]}
    res["scripts"] = {n: by_name[n][0] for n in need if n in by_name}
    res["outputs"] = {n: by_name[n][1][-6000:] for n in need if n in by_name}
    try:
        import shutil
        shutil.rmtree(workdir, ignore_errors=True)
    except Exception:
        pass
    with open(cpath, "w") as f:
        json.dump(res, f)
    res["bins"] = {str(v): b for v, b in bins.items()}
    # keep the cache small
    olds = sorted((os.path.getmtime(os.path.join(vlib.CACHE, f)), f) for f in os.listdir(vlib.CACHE) if f.startswith("backend_") and f.endswith(".json"))
    for _, f in olds[:-6]:
        try:
            os.remove(os.path.join(vlib.CACHE, f))
        except OSError:
            pass
    return res


FILT_TAG = "#!filt"


def filt_params_line(ex):
    f = ex.get("filt", {})
    return "params xchg=%s unl=%s rbc=%d try=%d" % (f.get("xchg", "seq_cst"), f.get("unl", "seq_cst"),
                                                    1 if f.get("resetBeforeCopy") else 0, 1 if f.get("tryLock") else 0)


def build_filters(ex):
    from extractors.spin import spin_flag_define
    return vlib.build_harness("h1_filters", ["h1_filters.cpp"], extra_flags=["-fno-access-control", spin_flag_define(ex)])


def filt_trace_block(out, tid):
    """the lines of trace `tid` in a harness output: (description lines for a replay, all lines for the reader)"""
    desc, allv, on = [], [], False
    for l in out.split("\n"):
        if l.startswith("init "):
            on = l.split()[1] == tid
        if on:
            allv.append(l)
            if l.startswith(("init ", "prog ", "sched ")):
                desc.append(l)
            if l.startswith("end "):
                break
    return desc, allv


def filter_stream(ck, tier, ex, ps):
    """C16, concurrency part: the real Sink::add_filter / set_log_level_filter / apply_all_filters under the N-thread atomic
    shim with generated schedules (real lock contention, stale relaxed loads) — property oracle on the real code, every step
    replayed on the Lean model (`driver filt trace`), run-time memory orders cross-checked against the extraction."""
    import time
    t0 = time.time()
    okf, fbin, flog = build_filters(ex)
    if not okf:
        ck.violation("harness_build_filters", flog, "harness h1_filters no longer compiles against the current tree (correspondence of the "
                     "filter-concurrency model broken): " + flog[-300:], no_input=True)
        return {"build": "failed"}
    nproc, ntr, nst = (3, 800, 36) if tier == "quick" else (6, 8000, 48)
    cmds = [[fbin, "gen", str(ck.seed * 1000 + i), str(ntr), str(nst), "p%d" % i] for i in range(nproc)]
    with ThreadPoolExecutor(max_workers=nproc) as pool:
        runs = list(pool.map(lambda c: vlib.sh(c, env=vlib.ASAN_ENV, timeout=1800), cmds))
    pline = filt_params_line(ex)
    rcd, dout = vlib.driver(["filt", "trace"], stdin_data=("\n".join([pline] + [o for _, o in runs])).encode(), timeout=1800)
    mm = [l for l in dout.split("\n") if l.startswith("MISMATCH")]
    mv = [l for l in dout.split("\n") if l.startswith("MODEL-VIOLATION")]
    done = [l for l in dout.split("\n") if l.startswith("DONE")]
    stats, seen, oracle, aborted = {}, {}, [], []
    for (rc, out), cmd in zip(runs, cmds):
        for l in out.split("\n"):
            if l.startswith("ORACLE"):
                oracle.append((l, out, cmd))
            elif l.startswith("STATS"):
                for kv in l.split()[1:]:
                    k, v = kv.split("=")
                    stats[k] = stats.get(k, 0) + int(v)
            elif l.startswith("ORDERS-SEEN"):
                for kv in l.split()[1:]:
                    k, v = kv.split("=")
                    seen[k] = v if seen.get(k, v) == v else "mixed"
        if rc not in (0, 3):
            aborted.append((rc, out, cmd))
    info = {"processes": nproc, "traces_per_process": ntr, "steps": nst, "stats": stats, "orders_seen": seen,
            "oracle_hits": len(oracle), "aborts": len(aborted), "driver": done[:1], "mismatches": len(mm),
            "model_violations": len(mv), "params": pline, "wall_s": round(time.time() - t0, 1),
            "rule": "one trace = programs of 1-3 frontend threads (add_filter / set_log_level_filter / log) and a backend polling "
                    "them, under one schedule (sticky random walk or priority schedule with 1-3 change points, stale choices for the "
                    "relaxed loads) + 8 directed windows; non-trivial iff it has an evaluation, an observed busy lock and a re-copy "
                    "after the first evaluation or a stale load"}
    if oracle:
        l, out, cmd = oracle[0]
        m0 = re.search(r"trace=(\S+)", l)
        desc, allv = filt_trace_block(out, m0.group(1)) if m0 else ([], [])
        if not any(x.startswith("sched ") for x in desc):
            desc = []
        head = "%s %s\n# %s\n# replay: python3 tools/check.py %s --replay <this file>\n" % (
            FILT_TAG, "replay" if desc else "gen " + " ".join(cmd[2:]), l, prop_of(ck))
        body = "\n".join(desc) + "\n# ---- the schedule as executed on the real code (thread, access, observation) ----\n# " + "\n# ".join(allv) + "\n"
        ck.violation("filters", head + body,
                     "property fails on the real code under a concurrent schedule (h1_filters, %d oracle hits): %s" % (len(oracle), l[:400]))
    elif aborted:
        rc, out, cmd = aborted[0]
        ck.violation("filters_abort", "%s gen %s\n# harness h1_filters aborted rc=%d (sanitizer / crash / non-termination in the real code)\n# %s\n" % (
            FILT_TAG, " ".join(cmd[2:]), rc, out[-3000:].replace("\n", "\n# ")),
            "the real filter code aborted under the atomic-shim scheduler (rc=%d): %s" % (rc, out.strip().split("\n")[-1][:200]))
    elif mm or rcd not in (0, 1) or not done:
        l = (mm or ["driver filt trace failed rc=%d: %s" % (rcd, dout[-300:])])[0]
        m0 = re.search(r"trace=(\S+)", l)
        desc, allv = [], []
        for _, out in runs:
            if m0 and not desc:
                desc, allv = filt_trace_block(out, m0.group(1))
        ck.violation("filters_correspondence", "%s replay\n# correspondence stream `filt` disagrees: %s\n%s\n# ---- harness lines ----\n# %s\n" % (
            FILT_TAG, l, "\n".join(desc), "\n# ".join(allv)),
            "filter-concurrency model and implementation disagree (%d lines), no property oracle fired: %s" % (len(mm), l[:300]), no_input=True)
    exf = ex.get("filt", {})
    want = {"lock.xchg": exf.get("xchg"), "lock.store": exf.get("unl"), "newf.set": exf.get("flagSet"), "newf.reset": exf.get("flagReset"),
            "newf.load": exf.get("flagLoad"), "lvl.store": exf.get("lvlStore"), "lvl.load": exf.get("lvlLoad")}
    bad = {k: (v, seen.get(k)) for k, v in want.items() if k in seen and v is not None and seen[k] != v}
    if bad and not oracle and not aborted:
        ps["broken"].append("extraction disagrees with the run-time memory orders of the filter code (extracted, observed): %s" % bad)
    return info


def prop_of(ck):
    return ck.prop


def run(prop, tier):
    ck = vlib.Check(prop, tier, level="proof" if THEOREMS[prop] else "exploration")
    ck.assumptions = [
        "sequential consistency at hook-site granularity; exactly one thread runs at a time in the harness (baton), time is virtual",
        "the bounded SPSC queue inside the model is Spsc.absApi run with newest-value loads (its weak-memory behaviour is C01's subject); "
        "the unbounded queue is a chain of such nodes (capacity decisions = Uspsc.growDecision / shrinkAllocates, C02's definitions)",
        "pattern '%(message)' and std::string payloads only: formatting/codec correctness is C04/C12's subject",
    ]
    ps = ck.proof_side(MODULES[prop], THEOREMS[prop], OBLIG_BY_PROP.get(prop, OBLIG)) if THEOREMS[prop] else {"ok": True, "broken": []}
    if not THEOREMS[prop]:
        ck.extracted = vlib.run_extract()
        vlib.lake_build(["driver"])
    ex = ck.extracted
    tier_shrinks = os.environ.get("VERIF_NO_SHRINK") is None
    for b in ps["broken"]:
        ck.log("PROOF SIDE BROKEN: " + b)
    if prop == "C05":
        # compile the TSC harness while the H2 variants build and run (tools/tsc_stream.py picks up the cached binary)
        import threading
        import tsc_stream
        threading.Thread(target=lambda: vlib.build_harness(tsc_stream.HARNESS[0], tsc_stream.HARNESS[1], extra_flags=tsc_stream.HARNESS[2]), daemon=True).start()
    res = collect(ck, tier, ex)
    if "build_error" in res:
        ck.violation("harness_build", res["build_error"], "harness h2_backend no longer compiles against the current tree (correspondence broken): " + res["build_error"][-300:], no_input=True)
        return ck.finish()

    def replay_text(case, header):
        sc = res.get("scripts", {}).get(case)
        out = res.get("outputs", {}).get(case, "")
        return "# %s\n# case %s — replay: python3 tools/check.py %s --replay <this file>\n%s\n# ---- harness output (tail) ----\n# %s\n" % (
            header, case, prop, "\n".join(sc) if sc else "(script not retained)", out.replace("\n", "\n# "))

    transit = None
    if prop == "C03":
        # second correspondence stream: the real TransitEventBuffer (growth from the reader position, slot reuse, shrink)
        okt, tbin, tlog = vlib.build_harness("h3_transit", ["h3_transit.cpp"], extra_flags=["-fno-access-control"])
        if not okt:
            ck.violation("harness_build_transit", tlog, "harness h3_transit no longer compiles against the current tree", no_input=True)
        else:
            ntr, nops_t = (120, 250) if tier == "quick" else (2000, 400)
            rct, outt = vlib.sh([tbin, "gen", str(ck.seed), str(ntr), str(nops_t)], env=vlib.ASAN_ENV, timeout=900)
            rcd, dt = vlib.driver(["transit", "trace"], stdin_data=outt.encode(), timeout=900)
            tl = [l for l in dt.split("\n") if l.startswith("TRACE ")]
            tmm = [l for l in dt.split("\n") if l.startswith(("MISMATCH", "BAD-OP"))]
            tor = [l for l in outt.split("\n") if l.startswith("ORACLE")]
            transit = {"traces": len(tl), "lines": sum(int(dict(x.split("=") for x in l.split()[2:])["lines"]) for l in tl),
                       "expands": sum(int(dict(x.split("=") for x in l.split()[2:])["expands"]) for l in tl),
                       "shrinks": sum(int(dict(x.split("=") for x in l.split()[2:])["shrinks"]) for l in tl),
                       "mismatches": len(tmm), "oracle_hits": len(tor)}
            if rct not in (0, 3) or tor or tmm:
                # replay = the ops of the first offending trace
                bad_id = None
                m0 = re.search(r"trace=(\S+)", (tor or tmm or [""])[0])
                if m0:
                    bad_id = m0.group(1)
                ops, cur = [], None
                for l in outt.split("\n"):
                    if l.startswith("init "):
                        cur = l.split()[1]
                    if bad_id and cur == bad_id and not l.startswith(("ORACLE", "STATS")):
                        ops.append(l.split(" => ")[0])
                ck.violation("transit", "# h3_transit replay <this file>\n# %s\n%s\n" % ((tor or tmm or ["abort rc=%d" % rct])[0], "\n".join(ops)),
                             "the real TransitEventBuffer is not a FIFO / disagrees with the model: %s" % (tor or tmm or ["abort rc=%d: %s" % (rct, outt[-300:])])[0][:300],
                             no_input=not (tor or rct not in (0, 3)))

    if prop == "C03":
        _mM.stream(ck, prop, tier, ps)   # arithmetic / constructor stream of bundle M (ck.cov["math_stream"])

    spin = None
    if prop == "C17":
        # the registries' spinlock under the atomic shim: race detector on the protected datum + run-time orders
        oks, sbin, slog = vlib.build_harness("h1_spin", ["h1_spin.cpp"], extra_flags=["-fno-access-control"])
        if not oks:
            ck.violation("harness_build_spin", slog, "harness h1_spin no longer compiles against the current tree", no_input=True)
        else:
            ntr, nops_s = (200, 300) if tier == "quick" else (3000, 500)
            rcs, outs = vlib.sh([sbin, "gen", str(ck.seed), str(ntr), str(nops_s)], env=vlib.ASAN_ENV, timeout=900)
            sor = [l for l in outs.split("\n") if l.startswith("ORACLE")]
            seen = dict(x.split("=") for l in outs.split("\n") if l.startswith("ORDERS-SEEN") for x in l.split()[1:])
            st_line = [l for l in outs.split("\n") if l.startswith("STATS")]
            spin = {"stats": st_line[:1], "orders_seen": seen, "oracle_hits": len(sor)}
            exs = ex.get("spin", {})
            if rcs not in (0, 3) or sor:
                ck.violation("spinlock", "# h1_spin gen %d %d %d\n# %s\n" % (ck.seed, ntr, nops_s, (sor or [outs[-400:]])[0]),
                             "the registries' spinlock does not order critical sections (happens-before race on the protected data): %s" % (sor or ["abort rc=%d" % rcs])[0][:200])
            elif seen and ((seen.get("xchg") not in ("-", exs.get("xchg"))) or (seen.get("unlock") not in ("-", exs.get("unl")))):
                ps["broken"].append("extraction disagrees with the run-time orders of the spinlock: extracted %s, observed %s" % (exs, seen))

    filt = None
    if prop == "C16":
        filt = filter_stream(ck, tier, ex, ps)
    filesink = None
    if prop == "C06":
        # the sink's half of C06: the real stream sinks' write/flush protocol vs FileSink.step + read-back oracle (tools/filesink_stream.py)
        import filesink_stream
        filesink = filesink_stream.run(ck, tier, ps)

    tsc = None
    if prop == "C05":
        # the TSC -> epoch conversion: the real RdtscClock vs Tsc.timeSinceEpoch / resync + conversion oracles (tools/tsc_stream.py)
        import tsc_stream
        tsc = tsc_stream.run(ck, tier, ps)

    sinkreg = None
    if prop == "C17":
        # the by-name sink registry: real SinkManager vs SinkReg.step + idempotence oracles (tools/sinkreg_stream.py)
        import sinkreg_stream
        sinkreg = sinkreg_stream.run(ck, tier, ps)
        # the by-name logger registry: real LoggerManager vs LogReg.step + linear-search reference (tools/logreg_stream.py)
        import logreg_stream
        ck.cov["logger_registry_stream"] = logreg_stream.run(ck, tier, ps)
    if prop in ("C20", "C08"):
        # registration of a thread context (C20) / the failure counter (C08): the real ThreadContextManager, ThreadContext and
        # BackendWorker members under the N-thread atomic shim against `driver reg trace` (tools/reg_stream.py)
        import reg_stream
        reg_stream.run(ck, prop, tier, ex, ps)

    if prop in ("C08", "C03", "C20"):
        # a process with two frontends of different queue types (bounded dropping + unbounded blocking): harness h2_mixed against
        # `driver mixed trace` + the property oracles (tools/mixed_stream.py)
        import mixed_stream
        mixed_stream.run(ck, prop, tier, ex, ps)

    mine_or = [o for o in res["oracle"] if o["prop"] == prop]
    mine_mm = [m for m in res["mismatches"] if prop in m["props"]]
    # listed findings are recognised by their input class (the oracle tags the class); anything else still alarms
    known = {f["id"]: f for f in vlib.known_findings(prop)}
    known_hits = {}
    for fid in KNOWN_CLASS_TAGS:
        if fid in known:
            tag = "[%s]" % fid
            known_hits[fid] = [o for o in mine_or if o["msg"].startswith(tag)]
            mine_or = [o for o in mine_or if not o["msg"].startswith(tag)]
    if res["aborts"]:
        a = res["aborts"][0]
        hb = res.get("bins", {}).get(str(variant_of_case(a["case"])))
        if hb and tier_shrinks:
            a = dict(a, script=shrink_script(hb, a["script"], lambda rc, out: rc == a["rc"]))
        ck.violation("abort", "# harness aborted rc=%s (sanitizer / assertion / crash in the real code); script minimised by delta debugging\n%s\n# ---- output tail ----\n# %s\n" % (
            a["rc"], "\n".join(a["script"]), a["tail"].replace("\n", "\n# ")),
            "the real code aborted under the scheduler harness in case %s (rc=%s): %s" % (a["case"], a["rc"], a["tail"].strip().split("\n")[-1][:200]))
    if mine_or:
        o = mine_or[0]
        hb = res.get("bins", {}).get(str(variant_of_case(o["case"])))
        sc = res.get("scripts", {}).get(o["case"])
        if hb and sc and tier_shrinks:
            small = shrink_script(hb, sc, lambda rc, out: rc == 0 and any(p == prop and not is_known_class(m, known) for p, m in bg.oracles(out.split("\n"))))
            if len(small) < len(sc):
                _, _, _, out_small = run_script(hb, "shrunk_%d" % os.getpid(), small, vlib.CACHE)
                msgs = [m for p, m in bg.oracles(out_small.split("\n")) if p == prop and not is_known_class(m, known)]
                if msgs:
                    res.setdefault("scripts", {})[o["case"]] = small
                    res.setdefault("outputs", {})[o["case"]] = out_small
                    o = dict(o, msg=msgs[0] + " [script minimised by delta debugging: %d -> %d lines]" % (len(sc), len(small)))
        ck.violation("oracle", replay_text(o["case"], "property oracle on the real code: " + o["msg"]),
                     "property fails on the real code: %s (case %s; %d oracle hits for this property)" % (o["msg"], o["case"], len(mine_or)))
    elif mine_mm:
        m = mine_mm[0]
        ck.violation("correspondence", replay_text(m["case"], "correspondence stream `backend` disagrees: %s impl=[%s] model=[%s]" % (m["op"], m["impl"], m["model"])),
                     "model and implementation disagree (%d lines relevant to %s), no property oracle fired: %s impl=[%s] model=[%s]" % (
                         len(mine_mm), prop, m["op"], m["impl"][:120], m["model"][:120]), no_input=True)
    for fid, hits in sorted(known_hits.items()):
        wit = [o for o in hits if o["case"].startswith("corpus_%s_%s" % (prop, fid.lower()))]
        if wit:
            ck.known("%s reproduces in %d case(s) of its input class (%d corpus witness(es)), e.g. case %s: %s | %s; replay=%s" % (
                fid, len(hits), len(wit), wit[0]["case"], wit[0]["msg"][len(fid) + 3:][:400],
                re.sub(r"^KNOWN-FINDING: property=\S+ %s " % fid, "", known[fid].get("line", ""))[:300], known[fid].get("replay", "")))
        elif hits:
            ck.known("%s reproduces in %d generated case(s) of its input class (its corpus witness no longer does), e.g. case %s: %s" % (
                fid, len(hits), hits[0]["case"], hits[0]["msg"][len(fid) + 3:][:400]))
        else:
            ck.log("listed finding %s does not reproduce any more (corpus witness silent)" % fid)
        ck.cov["known_%s_hits" % fid] = len(hits)
    if ps["broken"] and not ck.violations:
        ck.violation("proof_broken", "theorems/obligations that no longer check:\n" + "\n".join(ps["broken"]) + "\n",
                     "proof side broken, no failing input found: " + ps["broken"][0][:300], no_input=True)
    ck.cov.update({
        "evaluations": res["lines"],
        "traces_validated_against_impl": res["cases"],
        "distinct_nontrivial": res["nontrivial"],
        "rule": "one case = one scripted life of the real frontend+backend (config, sinks, loggers, actors, ~60-90 scheduled operations incl. polls with hook-site injections, final drain); non-trivial iff it has sink writes, more than 3 polls and at least one parked call, dropped statement or injected operation; distinct by construction (PRNG stream + fixed directed windows)",
        "samples": res["samples"],
        "totals": res["stats"],
        "mismatching_lines_all_properties": len(res["mismatches"]),
        "mismatching_lines_this_property": len(mine_mm),
        "oracle_hits_this_property": len(mine_or),
        "variants": VARIANTS,
        "oracle_only_variants": ORACLE_ONLY,
        "oracle_only_cases": res.get("oracle_only_cases", 0),
        "extracted": ex.get("backend", {}),
    })
    if transit is not None:
        ck.cov["transit_buffer_stream"] = transit
    if spin is not None:
        ck.cov["spinlock_stream"] = spin
    if filt is not None:
        ck.cov["filter_stream"] = filt
    if sinkreg is not None:
        ck.cov["sink_registry_stream"] = sinkreg
    if filesink is not None:
        ck.cov["stream_sink_flush_stream"] = filesink
    if tsc is not None:
        ck.cov["tsc_conversion_stream"] = tsc
    return ck.finish()


def replay_filt(prop, path, first):
    ex = vlib.run_extract()
    okf, fbin, flog = build_filters(ex)
    if not okf:
        print(flog)
        return 2
    vlib.lake_build(["driver"])
    w = first.split()
    cmd = [fbin, "gen"] + w[2:] if len(w) > 2 and w[1] == "gen" else [fbin, "replay", path]
    rc, out = vlib.sh(cmd, env=vlib.ASAN_ENV, timeout=1800)
    orc = [l for l in out.split("\n") if l.startswith("ORACLE")]
    if len(out) < 200000:
        print(out)
    else:
        print("\n".join(orc[:20]))
        print(out[-3000:])
    rc2, dout = vlib.driver(["filt", "trace"], stdin_data=(filt_params_line(ex) + "\n" + out).encode())
    print("\n".join(l for l in dout.split("\n") if not l.startswith("TRACE")) if len(dout) > 20000 else dout)
    return 1 if rc != 0 or orc else 0


def replay(prop, path):
    first = open(path).readline().strip()
    if _mM.is_math_replay(path):
        return _mM.replay(prop, path)
    if first.startswith(FILT_TAG):
        return replay_filt(prop, path, first)
    if "filesink" in open(path).readline():
        import filesink_stream
        return filesink_stream.replay(prop, path)
    if "sinkreg" in open(path).readline():
        import sinkreg_stream
        return sinkreg_stream.replay(prop, path)
    if open(path).readline().startswith("# h2_mixed"):
        import mixed_stream
        return mixed_stream.replay(prop, path)
    if "h3_tsc" in open(path).readline():
        import tsc_stream
        return tsc_stream.replay(prop, path)
    if "logreg" in open(path).readline():
        import logreg_stream
        return logreg_stream.replay(prop, path)
    if open(path).readline().startswith("# h1_reg"):
        import reg_stream
        return reg_stream.replay(prop, path)
    lines = [l.rstrip("\n") for l in open(path) if l.strip() and not l.startswith("#")]
    # which build: the case name in the replay header ("# case v2_r5_mixed", "(case v3_dir_…)"), a corpus file name
    # (….v2.txt) or an explicit "variant=N"; default BoundedBlocking
    head = " ".join(l for l in open(path).read().split("\n")[:6] if l.startswith("#"))
    mv = (re.search(r"case[ =]+(?:corpus_\S*?_)?v([0-3])_", head) or re.search(r"\.v([0-3])\.", os.path.basename(path)) or
          re.search(r"variant=([0-3])", head + " " + " ".join(lines[:2])) or re.search(r"\bv([0-3])_", os.path.basename(path)))
    v = int(mv.group(1)) if mv else 0
    ok, hbin, log = vlib.build_harness("h2_v%d" % v, ["h2_backend.cpp"], extra_flags=["-fno-access-control", "-DH2_VARIANT=%d" % v])
    if not ok:
        print(log)
        return 2
    ex = vlib.run_extract()
    name, _, rc, out = run_script(hbin, "replay", lines, vlib.CACHE)
    print(out)
    viol = bg.oracles(out.split("\n"))
    for p, m in viol:
        print("ORACLE %s %s" % (p, m))
    rc2, dout = vlib.driver(["backend", "trace"], stdin_data=("case replay\n%s\n%s" % (params_line(ex), out)).encode())
    print(dout)
    return 1 if rc != 0 or any(p == prop for p, _ in viol) else 0
