"""Backend / frontend end-to-end properties decided on the deterministic scheduler harness H2 and the Lean backend model:
C03 (exactly once, thread order), C05 (timestamp order), C06 (flush_log), C07 (drain at exit; partial), C08 (dropping queue
accounting), C10 (faults), C16 (levels and filters), C17 (logger removal), C20 (thread contexts).
Proof: Props/C03 … (see THEOREMS). Tie: extraction (extractors/backend.py) + H2 harness vs `driver backend trace`,
plus property oracles on the real outputs (tools/backend_gen.py)."""
import hashlib
import json
import os
import re
import sys
from concurrent.futures import ThreadPoolExecutor

import vlib

sys.path.insert(0, os.path.join(vlib.VERIF, "tools"))
import backend_gen as bg  # noqa: E402

PROPS = ["C03", "C05", "C06", "C08", "C10", "C16", "C17", "C20"]

_COMMON_NOTE = ("Sequential consistency at the granularity of the hook sites (weak-memory reasoning is confined to C01/C02); the per-thread "
                "queue inside the model is the proved bounded SPSC model; libfmt/PatternFormatter are bypassed by a '%(message)' pattern "
                "(C12/C04 cover them); the unbounded queue variants are exercised by C02/C09, the end-to-end harness runs the bounded ones.")

MANIFEST = {
    "C03": dict(
        technique="Lean 4 proof: conservation invariant over all schedules of frontend/backend micro-steps (issued = delivered ++ transit ++ queue per thread, exactly-once per accepting sink); deterministic differential correspondence of the real Frontend/BackendWorker with the model under a scheduler harness with hook-site injections",
        text="Machine-checked invariant of the backend model for every schedule: per thread, the accepted statements are exactly delivered ++ transit buffer ++ queue in issue order; every delivered statement was handed exactly once to every sink of its logger that accepts it; a context is dropped only when invalid with empty queue and buffer. Tied to the real code by running the real Logger/macros/ThreadContextManager/BackendWorker (ManualBackendWorker) under a deterministic scheduler (virtual clock, parked frontend calls, operations injected at the QUILL_VERIF hook sites inside a poll) against the compiled Lean model — every observation line compared — and by an exactly-once / per-thread-order oracle on the recorded sink calls.",
        note=_COMMON_NOTE, ref="§5 C03, §4.3"),
    "C05": dict(
        technique="Lean 4 proof: ordering invariant (everything not yet emitted is >= the emitted front) over all schedules under the grace-period premise; extraction of the sample-then-refresh order; differential correspondence incl. registration inside the sampling window",
        text="Machine-checked: for every schedule in which each enqueue happens within the grace period of its timestamp, the backend model emits non-backtrace statements in non-decreasing timestamp order; the proof needs the context cache to be refreshed after ts_now is sampled (extracted from _populate_transit_events_from_frontend_queues; the pinned order is proved wrong by a witness, finding F5, repaired). Tied to the code by the H2 harness (threads registering at hook site 1, stalls after the clock read at site 6, hard-limit truncation) vs the Lean model and a timestamp-order oracle applied when the premise holds.",
        note=_COMMON_NOTE + " rdtsc→epoch conversion is not modelled (System clock in the harness).", ref="§5 C05, Appendix A.2"),
    "C06": dict(
        technique="Lean 4 proof: flag-after-flush invariant on the backend model (flag raised only after the Flush event was popped, all earlier statements of the caller written and every active sink flushed); differential correspondence + flush oracle",
        text="Machine-checked on the backend model: a flush flag is raised only after its Flush event was processed, at which point every statement the caller enqueued earlier has been written to its accepting sinks and every active sink has been flushed since; the flush request is retried, never dropped or counted. Tied to the code by H2 scripts with flush_log callers parked in the interposed sleep, resumed between polls, and an oracle reading the recorded writes/flushes at the moment flush_log returns (other threads' statements under the ordering premise).",
        note=_COMMON_NOTE + " Sinks of loggers already marked invalid are not flushed by the Flush event (premise: logger not removed).", ref="§5 C06"),
    "C08": dict(
        technique="Lean 4 proof: accounting invariant (attempted = delivered-or-pending + discarded; reported + counters = discarded log statements) on the backend model; differential correspondence on the BoundedDropping build + drop-count oracle",
        text="Machine-checked on the backend model with a dropping queue: a log call returns false iff the record was not enqueued iff it never reaches a sink; reported drop counts plus the outstanding per-thread counters always equal the number of discarded ordinary statements, control requests are retried and never counted. Tied to the code by the H2 harness compiled with BoundedDropping (tiny queue) vs the model and an oracle relating return values, sink records and notifier counts (this found F17: counts lost when a Flush event cleans up an exited thread, repaired).",
        note=_COMMON_NOTE, ref="§5 C08, §7 F17"),
    "C10": dict(
        technique="Lean 4 proof: fault-injection refinement (arbitrary schedule of throwing sink writes/flushes) preserving the C03 invariant for non-faulted deliveries; differential correspondence with throwing recording sinks",
        text="Machine-checked on the backend model with an arbitrary assignment of throwing write_log / flush_sink calls: a write fault loses at most that statement on that sink and the sinks after it, a flush fault loses nothing, every other statement is still delivered exactly once and in order, every poll still pops the event it processed and flush flags are still raised. Tied to the code by H2 scripts with recording sinks that throw on chosen calls, compared line by line with the model, and the exactly-once oracle restricted to non-faulted deliveries. (Formatter exceptions: finding F4, repaired; exercised by C04's harness.)",
        note=_COMMON_NOTE, ref="§5 C10, §7 F4"),
    "C16": dict(
        technique="Lean 4 proof: decision-logic theorems (enqueue iff level >= logger level; written to sink i iff level >= sink level and every filter accepts, independent of other sinks) + level table obligation; differential correspondence with per-sink recording and argument-evaluation counters; invariant over all schedules and stale relaxed loads of add_filter / set_log_level_filter against apply_all_filters under a release/acquire view semantics (the proved spinlock model inside), tied by structural extraction and an N-thread atomic-shim harness with real lock contention",
        text="Machine-checked decision logic: shouldLog / sinkAccepts characterise exactly when a statement is enqueued (and its arguments evaluated) and when each sink receives it, independently of the logger's other sinks, with the statement's own (static or dynamic) level. Tied to the code by the H2 harness using the real LOG_* macros (static levels) and the dynamic-level call with side-effect counters in the arguments, sink level filters and filters, level changes interleaved, against the model, plus an oracle on every recorded sink call. Concurrency of Sink::add_filter with the backend's apply_all_filters (relaxed _new_filter flag, spinlock, _local_filters copy): machine-checked for every number of threads, schedule and stale-load choice that the copy is race-free and that every evaluation consults a filter list containing every filter whose add_filter returned happens-before the evaluation and only filters whose add_filter had begun (negative witnesses: try_lock-and-evaluate-anyway leaks, relaxed lock races, and the run showing why the happens-before premise is needed); tied to the code by extraction of the two functions' structure and by running the real Sink compiled against an N-thread atomic shim under thousands of generated schedules (every atomic access a scheduling point) against the model and a DONE/STARTED oracle.",
        note=_COMMON_NOTE + " Override pattern formatters per sink are covered by C12. Filter concurrency: DONE is defined by happens-before (queue publication / lock), not wall-clock, because _new_filter is relaxed; filters are removed never (the API has no remove_filter).", ref="§5 C16"),
    "C17": dict(
        technique="Lean 4 proof: removal invariant on the backend model (a logger is erased only when every queue and buffer is empty; the removal flag is raised only after the erase; sinks destroyed exactly when unreferenced); differential correspondence incl. remove_logger_blocking, re-creation and sink destruction events",
        text="Machine-checked on the backend model: an invalidated logger is erased only in a state where all queues and transit buffers are empty (so every statement logged through it has been written), the removal flag is raised only after the erase, a sink is destroyed exactly when neither the user nor a live logger references it. Tied to the code by H2 scripts with remove_logger / remove_logger_blocking / create_or_get_logger / dropped user references under ASan, compared with the model (logger counts, sink destructor events, flag waits).",
        note=_COMMON_NOTE + " Contract assumed: no log call through a logger after remove_logger, no re-creation before the removal completed. Spinlock under weak memory is not modelled here.", ref="§5 C17"),
    "C20": dict(
        technique="Lean 4 proof: reclamation invariant (contexts retained after a drain = live threads that logged; the invalid-context counter equals the number of invalid registered contexts modulo 2^bits, bits extracted); differential correspondence with thread churn",
        text="Machine-checked on the backend model: a context is removed only when its thread exited and its queue and transit buffer are empty; the invalid-context counter is exact as long as it cannot wrap (width extracted from ThreadContextManager.h; 8 bits proved insufficient — finding F13, repaired), so after a drain the retained contexts are exactly those of live threads that logged. Tied to the code by H2 scripts creating and ending threads (incl. dozens between two idle periods) and comparing for_each_thread_context counts with the model, plus a count oracle after the final drain.",
        note=_COMMON_NOTE + " Shrinking of the unbounded queue is covered by C02's harness.", ref="§5 C20, §7 F13"),
}

THEOREMS = {p: [] for p in PROPS}
MODULES = {p: [] for p in PROPS}
OBLIG = []

# theorem lists are contributed by tools/props/backend_thm_*.py (one per proof bundle): THEOREMS, MODULES, OBLIG
import glob as _glob
import importlib.util as _ilu
for _f in sorted(_glob.glob(os.path.join(os.path.dirname(os.path.abspath(__file__)), "backend_thm_*.py"))):
    _spec = _ilu.spec_from_file_location(os.path.basename(_f)[:-3], _f)
    _m = _ilu.module_from_spec(_spec)
    _spec.loader.exec_module(_m)
    for _p, _l in getattr(_m, "THEOREMS", {}).items():
        THEOREMS.setdefault(_p, []).extend(_l)
    for _p, _l in getattr(_m, "MODULES", {}).items():
        MODULES.setdefault(_p, []).extend(x for x in _l if x not in MODULES.get(_p, []))
    for _x in getattr(_m, "OBLIG", []):
        if _x not in OBLIG:
            OBLIG.append(_x)

# structural obligations of the coordinator (Obligations/BackendStructure.lean): attached to a property once it is claimed
for _p in list(THEOREMS):
    if THEOREMS[_p]:
        THEOREMS[_p] += ["Obligations.structure_%s" % _p, "Obligations.backend_extraction_complete"]
if any(THEOREMS.values()) and "QuillModel.Obligations.BackendStructure" not in OBLIG:
    OBLIG.append("QuillModel.Obligations.BackendStructure")

# a property is claimed in MANIFEST.json only once its theorem file exists
_ALL_MANIFEST = MANIFEST
MANIFEST = {p: d for p, d in _ALL_MANIFEST.items() if THEOREMS.get(p)}

VARIANTS = {0: "BoundedBlocking", 1: "BoundedDropping"}
# the unbounded builds (512-byte initial node, 4 KiB maximum: growth, switches, shrink requests, over-max records) are run
# with the property oracles only — the Lean backend model carries the bounded queue (the unbounded one is C02's subject)
ORACLE_ONLY = {2: "UnboundedBlocking", 3: "UnboundedDropping"}


def params_line(ex):
    b = ex.get("backend", {})
    q = ex.get("bounded", {})
    return "params drain=%d invalidBits=%d refreshAfterSample=%d catchAll=%d batchPct=%d reportFlush=%d keepUnreported=%d flushInvalid=%d" % (
        1 if q.get("drainPublish", True) else 0, b.get("invalidBits", 32), 1 if b.get("refreshAfterSample", True) else 0,
        1 if b.get("catchAllFormat", True) else 0, q.get("defaultPercent", 5), 1 if b.get("reportBeforeFlushCleanup", True) else 0,
        1 if b.get("cleanupKeepsUnreported", True) else 0, 0 if b.get("flushOnlyValidLoggers", False) else 1)


def run_script(hbin, name, lines, workdir):
    path = os.path.join(workdir, name + ".txt")
    with open(path, "w") as f:
        f.write("\n".join(lines) + "\n")
    rc, out = vlib.sh([hbin, path], env=vlib.ASAN_ENV, timeout=180)
    return name, lines, rc, out


def classify(impl, model):
    """which properties a differing observation line speaks about"""
    it, mt = set(impl.split()), set(model.split())
    diff = " ".join(sorted(it ^ mt))
    props = set()
    if "n:dropped" in diff or "ret=0" in diff or "ret=1" in diff:
        props |= {"C08"}
    if "w:" in diff:
        props |= {"C03", "C05", "C16"}
    if "wthrow" in diff or "fthrow" in diff or "n:wfail" in diff or "n:ffail" in diff or "n:nobt" in diff:
        props |= {"C10"}
    if "fl:" in diff or "done" in diff:
        props |= {"C06"}
    if "contexts=" in diff:
        props |= {"C20"}
    if "loggers=" in diff or "sinkdtor" in diff or "valid=" in diff:
        props |= {"C17"}
    if "parked" in diff or "n:blocked" in diff:
        props |= {"C06", "C08", "C03"}
    if "ev=" in diff or "skip" in diff:
        props |= {"C16"}
    return props or set(PROPS)


def collect(ck, tier, ex):
    """run every script through harness + driver + oracles; cached by content hash (same tree + seed ⇒ same result)"""
    res = {"cases": 0, "lines": 0, "nontrivial": 0, "mismatches": [], "oracle": [], "aborts": [], "samples": [], "stats": {}}
    bins = {}
    allv = list(VARIANTS) + list(ORACLE_ONLY)
    with ThreadPoolExecutor(max_workers=4) as pool:
        built = list(pool.map(lambda v: vlib.build_harness("h2_v%d" % v, ["h2_backend.cpp"],
                                                           extra_flags=["-fno-access-control", "-DH2_VARIANT=%d" % v]), allv))
    for v, (ok, hbin, log) in zip(allv, built):
        if not ok:
            res["build_error"] = log
            return res
        bins[v] = hbin
    key = hashlib.sha1(("|".join(sorted(bins.values())) + params_line(ex) + tier + str(ck.seed) +
                        vlib.tree_hash([os.path.join(vlib.VERIF, "tools", "backend_gen.py"), os.path.join(vlib.VERIF, "corpus"), vlib.DRIVER])).encode()).hexdigest()[:16]
    cpath = os.path.join(vlib.CACHE, "backend_%s.json" % key)
    if os.path.exists(cpath):
        return json.load(open(cpath))
    n_random = 60 if tier == "quick" else 3000
    nops = 60 if tier == "quick" else 120
    workdir = os.path.join(vlib.CACHE, "h2work_%d" % os.getpid())
    os.makedirs(workdir, exist_ok=True)
    jobs = []
    for v in list(VARIANTS) + list(ORACLE_ONLY):
        for name, lines in bg.directed_scripts(v):
            jobs.append((v, "v%d_%s" % (v, name), lines))
        for k in range(n_random if v in VARIANTS else n_random // 2):
            g = bg.Gen(ck.seed * 100003 + v * 50021 + k, v)
            jobs.append((v, "v%d_r%d_%s" % (v, k, g.focus), g.script(nops)))
    # corpus: file name ends with .v<variant>.txt
    for prop in PROPS + ["C07", "C09"]:
        cdir = os.path.join(vlib.VERIF, "corpus", prop)
        if os.path.isdir(cdir):
            for f in sorted(os.listdir(cdir)):
                m = re.search(r"\.v(\d)\.txt$", f)
                if m and int(m.group(1)) in VARIANTS:
                    lines = [l.rstrip("\n") for l in open(os.path.join(cdir, f)) if l.strip() and not l.startswith("#")]
                    jobs.insert(0, (int(m.group(1)), "corpus_%s_%s" % (prop, f[:-4].replace(".", "_")), lines))
    pline = params_line(ex)
    with ThreadPoolExecutor(max_workers=12) as pool:
        outs = list(pool.map(lambda j: run_script(bins[j[0]], j[1], j[2], workdir), jobs))
    blob = []
    by_name = {}
    for (name, lines, rc, out) in outs:
        by_name[name] = (lines, out)
        if rc != 0:
            res["aborts"].append({"case": name, "rc": rc, "tail": out[-1500:], "script": lines})
            continue
        res["cases"] += 1
        for (p, msg) in bg.oracles(out.split("\n")):
            res["oracle"].append({"prop": p, "msg": msg, "case": name})
        if name.startswith(("v2_", "v3_")):
            res["oracle_only_cases"] = res.get("oracle_only_cases", 0) + 1
            continue
        blob.append("case %s\n%s\n%s" % (name, pline, out))
    rc, dout = vlib.driver(["backend", "trace"], stdin_data="\n".join(blob).encode(), timeout=1200)
    for ln in dout.split("\n"):
        if ln.startswith("TRACE "):
            kv = dict(x.split("=") for x in ln.split()[2:])
            res["lines"] += int(kv["lines"])
            if int(kv["writes"]) > 0 and int(kv["polls"]) > 3 and (int(kv["parks"]) > 0 or int(kv["drops"]) > 0 or int(kv["injected"]) > 0):
                res["nontrivial"] += 1
            for k2 in ("polls", "writes", "parks", "drops", "injected"):
                res["stats"][k2] = res["stats"].get(k2, 0) + int(kv[k2])
        elif ln.startswith("MISMATCH") or ln.startswith("NOT-STARTED") or ln.startswith("CALIBRATION"):
            m = re.match(r"MISMATCH case=(\S+) line=\d+: (.*?) impl=\[(.*)\] model=\[(.*)\]$", ln)
            if m:
                res["mismatches"].append({"case": m.group(1), "op": m.group(2), "impl": m.group(3), "model": m.group(4),
                                          "props": sorted(classify(m.group(3), m.group(4)))})
            else:
                res["mismatches"].append({"case": "?", "op": ln[:200], "impl": "", "model": "", "props": list(PROPS)})
    for name in list(by_name)[:2]:
        res["samples"].append({"case": name, "script_head": by_name[name][0][:14]})
    # scripts of the cases that matter, for replays
    need = {m["case"] for m in res["mismatches"][:20]} | {o["case"] for o in res["oracle"][:20]}
    res["scripts"] = {n: by_name[n][0] for n in need if n in by_name}
    res["outputs"] = {n: by_name[n][1][-6000:] for n in need if n in by_name}
    try:
        import shutil
        shutil.rmtree(workdir, ignore_errors=True)
    except Exception:
        pass
    with open(cpath, "w") as f:
        json.dump(res, f)
    # keep the cache small
    olds = sorted((os.path.getmtime(os.path.join(vlib.CACHE, f)), f) for f in os.listdir(vlib.CACHE) if f.startswith("backend_") and f.endswith(".json"))
    for _, f in olds[:-6]:
        try:
            os.remove(os.path.join(vlib.CACHE, f))
        except OSError:
            pass
    return res


FILT_TAG = "#!filt"


def filt_params_line(ex):
    f = ex.get("filt", {})
    return "params xchg=%s unl=%s rbc=%d try=%d" % (f.get("xchg", "seq_cst"), f.get("unl", "seq_cst"),
                                                    1 if f.get("resetBeforeCopy") else 0, 1 if f.get("tryLock") else 0)


def filt_trace_block(out, tid):
    """the lines of trace `tid` in a harness output: (description lines for a replay, all lines for the reader)"""
    desc, allv, on = [], [], False
    for l in out.split("\n"):
        if l.startswith("init "):
            on = l.split()[1] == tid
        if on:
            allv.append(l)
            if l.startswith(("init ", "prog ", "sched ")):
                desc.append(l)
            if l.startswith("end "):
                break
    return desc, allv


def filter_stream(ck, tier, ex, ps):
    """C16, concurrency part: the real Sink::add_filter / set_log_level_filter / apply_all_filters under the N-thread atomic
    shim with generated schedules (real lock contention, stale relaxed loads) — property oracle on the real code, every step
    replayed on the Lean model (`driver filt trace`), run-time memory orders cross-checked against the extraction."""
    import time
    t0 = time.time()
    okf, fbin, flog = vlib.build_harness("h1_filters", ["h1_filters.cpp"], extra_flags=["-fno-access-control"])
    if not okf:
        ck.violation("harness_build_filters", flog, "harness h1_filters no longer compiles against the current tree (correspondence of the "
                     "filter-concurrency model broken): " + flog[-300:], no_input=True)
        return {"build": "failed"}
    nproc, ntr, nst = (3, 800, 36) if tier == "quick" else (6, 8000, 48)
    cmds = [[fbin, "gen", str(ck.seed * 1000 + i), str(ntr), str(nst), "p%d" % i] for i in range(nproc)]
    with ThreadPoolExecutor(max_workers=nproc) as pool:
        runs = list(pool.map(lambda c: vlib.sh(c, env=vlib.ASAN_ENV, timeout=1800), cmds))
    pline = filt_params_line(ex)
    rcd, dout = vlib.driver(["filt", "trace"], stdin_data=("\n".join([pline] + [o for _, o in runs])).encode(), timeout=1800)
    mm = [l for l in dout.split("\n") if l.startswith("MISMATCH")]
    mv = [l for l in dout.split("\n") if l.startswith("MODEL-VIOLATION")]
    done = [l for l in dout.split("\n") if l.startswith("DONE")]
    stats, seen, oracle, aborted = {}, {}, [], []
    for (rc, out), cmd in zip(runs, cmds):
        for l in out.split("\n"):
            if l.startswith("ORACLE"):
                oracle.append((l, out, cmd))
            elif l.startswith("STATS"):
                for kv in l.split()[1:]:
                    k, v = kv.split("=")
                    stats[k] = stats.get(k, 0) + int(v)
            elif l.startswith("ORDERS-SEEN"):
                for kv in l.split()[1:]:
                    k, v = kv.split("=")
                    seen[k] = v if seen.get(k, v) == v else "mixed"
        if rc not in (0, 3):
            aborted.append((rc, out, cmd))
    info = {"processes": nproc, "traces_per_process": ntr, "steps": nst, "stats": stats, "orders_seen": seen,
            "oracle_hits": len(oracle), "aborts": len(aborted), "driver": done[:1], "mismatches": len(mm),
            "model_violations": len(mv), "params": pline, "wall_s": round(time.time() - t0, 1),
            "rule": "one trace = programs of 1-3 frontend threads (add_filter / set_log_level_filter / log) and a backend polling "
                    "them, under one schedule (sticky random walk or priority schedule with 1-3 change points, stale choices for the "
                    "relaxed loads) + 8 directed windows; non-trivial iff it has an evaluation, an observed busy lock and a re-copy "
                    "after the first evaluation or a stale load"}
    if oracle:
        l, out, cmd = oracle[0]
        m0 = re.search(r"trace=(\S+)", l)
        desc, allv = filt_trace_block(out, m0.group(1)) if m0 else ([], [])
        if not any(x.startswith("sched ") for x in desc):
            desc = []
        head = "%s %s\n# %s\n# replay: python3 tools/check.py %s --replay <this file>\n" % (
            FILT_TAG, "replay" if desc else "gen " + " ".join(cmd[2:]), l, prop_of(ck))
        body = "\n".join(desc) + "\n# ---- the schedule as executed on the real code (thread, access, observation) ----\n# " + "\n# ".join(allv) + "\n"
        ck.violation("filters", head + body,
                     "property fails on the real code under a concurrent schedule (h1_filters, %d oracle hits): %s" % (len(oracle), l[:400]))
    elif aborted:
        rc, out, cmd = aborted[0]
        ck.violation("filters_abort", "%s gen %s\n# harness h1_filters aborted rc=%d (sanitizer / crash / non-termination in the real code)\n# %s\n" % (
            FILT_TAG, " ".join(cmd[2:]), rc, out[-3000:].replace("\n", "\n# ")),
            "the real filter code aborted under the atomic-shim scheduler (rc=%d): %s" % (rc, out.strip().split("\n")[-1][:200]))
    elif mm or rcd not in (0, 1) or not done:
        l = (mm or ["driver filt trace failed rc=%d: %s" % (rcd, dout[-300:])])[0]
        m0 = re.search(r"trace=(\S+)", l)
        desc, allv = [], []
        for _, out in runs:
            if m0 and not desc:
                desc, allv = filt_trace_block(out, m0.group(1))
        ck.violation("filters_correspondence", "%s replay\n# correspondence stream `filt` disagrees: %s\n%s\n# ---- harness lines ----\n# %s\n" % (
            FILT_TAG, l, "\n".join(desc), "\n# ".join(allv)),
            "filter-concurrency model and implementation disagree (%d lines), no property oracle fired: %s" % (len(mm), l[:300]), no_input=True)
    exf = ex.get("filt", {})
    want = {"lock.xchg": exf.get("xchg"), "lock.store": exf.get("unl"), "newf.set": exf.get("flagSet"), "newf.reset": exf.get("flagReset"),
            "newf.load": exf.get("flagLoad"), "lvl.store": exf.get("lvlStore"), "lvl.load": exf.get("lvlLoad")}
    bad = {k: (v, seen.get(k)) for k, v in want.items() if k in seen and v is not None and seen[k] != v}
    if bad and not oracle and not aborted:
        ps["broken"].append("extraction disagrees with the run-time memory orders of the filter code (extracted, observed): %s" % bad)
    return info


def prop_of(ck):
    return ck.prop


def run(prop, tier):
    ck = vlib.Check(prop, tier, level="proof" if THEOREMS[prop] else "exploration")
    ck.assumptions = [
        "sequential consistency at hook-site granularity; exactly one thread runs at a time in the harness (baton), time is virtual",
        "the bounded SPSC queue inside the model is Spsc.absApi run with newest-value loads (its weak-memory behaviour is C01's subject)",
        "pattern '%(message)' and std::string payloads only: formatting/codec correctness is C04/C12's subject",
    ]
    ps = ck.proof_side(MODULES[prop], THEOREMS[prop], OBLIG) if THEOREMS[prop] else {"ok": True, "broken": []}
    if not THEOREMS[prop]:
        ck.extracted = vlib.run_extract()
        vlib.lake_build(["driver"])
    ex = ck.extracted
    for b in ps["broken"]:
        ck.log("PROOF SIDE BROKEN: " + b)
    res = collect(ck, tier, ex)
    if "build_error" in res:
        ck.violation("harness_build", res["build_error"], "harness h2_backend no longer compiles against the current tree (correspondence broken): " + res["build_error"][-300:], no_input=True)
        return ck.finish()

    def replay_text(case, header):
        sc = res.get("scripts", {}).get(case)
        out = res.get("outputs", {}).get(case, "")
        return "# %s\n# case %s — replay: python3 tools/check.py %s --replay <this file>\n%s\n# ---- harness output (tail) ----\n# %s\n" % (
            header, case, prop, "\n".join(sc) if sc else "(script not retained)", out.replace("\n", "\n# "))

    transit = None
    if prop == "C03":
        # second correspondence stream: the real TransitEventBuffer (growth from the reader position, slot reuse, shrink)
        okt, tbin, tlog = vlib.build_harness("h3_transit", ["h3_transit.cpp"], extra_flags=["-fno-access-control"])
        if not okt:
            ck.violation("harness_build_transit", tlog, "harness h3_transit no longer compiles against the current tree", no_input=True)
        else:
            ntr, nops_t = (120, 250) if tier == "quick" else (2000, 400)
            rct, outt = vlib.sh([tbin, "gen", str(ck.seed), str(ntr), str(nops_t)], env=vlib.ASAN_ENV, timeout=900)
            rcd, dt = vlib.driver(["transit", "trace"], stdin_data=outt.encode(), timeout=900)
            tl = [l for l in dt.split("\n") if l.startswith("TRACE ")]
            tmm = [l for l in dt.split("\n") if l.startswith(("MISMATCH", "BAD-OP"))]
            tor = [l for l in outt.split("\n") if l.startswith("ORACLE")]
            transit = {"traces": len(tl), "lines": sum(int(dict(x.split("=") for x in l.split()[2:])["lines"]) for l in tl),
                       "expands": sum(int(dict(x.split("=") for x in l.split()[2:])["expands"]) for l in tl),
                       "shrinks": sum(int(dict(x.split("=") for x in l.split()[2:])["shrinks"]) for l in tl),
                       "mismatches": len(tmm), "oracle_hits": len(tor)}
            if rct not in (0, 3) or tor or tmm:
                # replay = the ops of the first offending trace
                bad_id = None
                m0 = re.search(r"trace=(\S+)", (tor or tmm or [""])[0])
                if m0:
                    bad_id = m0.group(1)
                ops, cur = [], None
                for l in outt.split("\n"):
                    if l.startswith("init "):
                        cur = l.split()[1]
                    if bad_id and cur == bad_id and not l.startswith(("ORACLE", "STATS")):
                        ops.append(l.split(" => ")[0])
                ck.violation("transit", "# h3_transit replay <this file>\n# %s\n%s\n" % ((tor or tmm or ["abort rc=%d" % rct])[0], "\n".join(ops)),
                             "the real TransitEventBuffer is not a FIFO / disagrees with the model: %s" % (tor or tmm or ["abort rc=%d: %s" % (rct, outt[-300:])])[0][:300],
                             no_input=not (tor or rct not in (0, 3)))

    spin = None
    if prop == "C17":
        # the registries' spinlock under the atomic shim: race detector on the protected datum + run-time orders
        oks, sbin, slog = vlib.build_harness("h1_spin", ["h1_spin.cpp"], extra_flags=["-fno-access-control"])
        if not oks:
            ck.violation("harness_build_spin", slog, "harness h1_spin no longer compiles against the current tree", no_input=True)
        else:
            ntr, nops_s = (200, 300) if tier == "quick" else (3000, 500)
            rcs, outs = vlib.sh([sbin, "gen", str(ck.seed), str(ntr), str(nops_s)], env=vlib.ASAN_ENV, timeout=900)
            sor = [l for l in outs.split("\n") if l.startswith("ORACLE")]
            seen = dict(x.split("=") for l in outs.split("\n") if l.startswith("ORDERS-SEEN") for x in l.split()[1:])
            st_line = [l for l in outs.split("\n") if l.startswith("STATS")]
            spin = {"stats": st_line[:1], "orders_seen": seen, "oracle_hits": len(sor)}
            exs = ex.get("spin", {})
            if rcs not in (0, 3) or sor:
                ck.violation("spinlock", "# h1_spin gen %d %d %d\n# %s\n" % (ck.seed, ntr, nops_s, (sor or [outs[-400:]])[0]),
                             "the registries' spinlock does not order critical sections (happens-before race on the protected data): %s" % (sor or ["abort rc=%d" % rcs])[0][:200])
            elif seen and ((seen.get("xchg") not in ("-", exs.get("xchg"))) or (seen.get("unlock") not in ("-", exs.get("unl")))):
                ps["broken"].append("extraction disagrees with the run-time orders of the spinlock: extracted %s, observed %s" % (exs, seen))

    filt = None
    if prop == "C16":
        filt = filter_stream(ck, tier, ex, ps)

    mine_or = [o for o in res["oracle"] if o["prop"] == prop]
    mine_mm = [m for m in res["mismatches"] if prop in m["props"]]
    if res["aborts"]:
        a = res["aborts"][0]
        ck.violation("abort", "# harness aborted rc=%s (sanitizer / assertion / crash in the real code)\n%s\n# ---- output tail ----\n# %s\n" % (
            a["rc"], "\n".join(a["script"]), a["tail"].replace("\n", "\n# ")),
            "the real code aborted under the scheduler harness in case %s (rc=%s): %s" % (a["case"], a["rc"], a["tail"].strip().split("\n")[-1][:200]))
    if mine_or:
        o = mine_or[0]
        ck.violation("oracle", replay_text(o["case"], "property oracle on the real code: " + o["msg"]),
                     "property fails on the real code: %s (case %s; %d oracle hits for this property)" % (o["msg"], o["case"], len(mine_or)))
    elif mine_mm:
        m = mine_mm[0]
        ck.violation("correspondence", replay_text(m["case"], "correspondence stream `backend` disagrees: %s impl=[%s] model=[%s]" % (m["op"], m["impl"], m["model"])),
                     "model and implementation disagree (%d lines relevant to %s), no property oracle fired: %s impl=[%s] model=[%s]" % (
                         len(mine_mm), prop, m["op"], m["impl"][:120], m["model"][:120]), no_input=True)
    if ps["broken"] and not ck.violations:
        ck.violation("proof_broken", "theorems/obligations that no longer check:\n" + "\n".join(ps["broken"]) + "\n",
                     "proof side broken, no failing input found: " + ps["broken"][0][:300], no_input=True)
    ck.cov.update({
        "evaluations": res["lines"],
        "traces_validated_against_impl": res["cases"],
        "distinct_nontrivial": res["nontrivial"],
        "rule": "one case = one scripted life of the real frontend+backend (config, sinks, loggers, actors, ~60-90 scheduled operations incl. polls with hook-site injections, final drain); non-trivial iff it has sink writes, more than 3 polls and at least one parked call, dropped statement or injected operation; distinct by construction (PRNG stream + fixed directed windows)",
        "samples": res["samples"],
        "totals": res["stats"],
        "mismatching_lines_all_properties": len(res["mismatches"]),
        "mismatching_lines_this_property": len(mine_mm),
        "oracle_hits_this_property": len(mine_or),
        "variants": VARIANTS,
        "oracle_only_variants": ORACLE_ONLY,
        "oracle_only_cases": res.get("oracle_only_cases", 0),
        "extracted": ex.get("backend", {}),
    })
    if transit is not None:
        ck.cov["transit_buffer_stream"] = transit
    if spin is not None:
        ck.cov["spinlock_stream"] = spin
    if filt is not None:
        ck.cov["filter_stream"] = filt
    return ck.finish()


def replay_filt(prop, path, first):
    okf, fbin, flog = vlib.build_harness("h1_filters", ["h1_filters.cpp"], extra_flags=["-fno-access-control"])
    if not okf:
        print(flog)
        return 2
    ex = vlib.run_extract()
    vlib.lake_build(["driver"])
    w = first.split()
    cmd = [fbin, "gen"] + w[2:] if len(w) > 2 and w[1] == "gen" else [fbin, "replay", path]
    rc, out = vlib.sh(cmd, env=vlib.ASAN_ENV, timeout=1800)
    orc = [l for l in out.split("\n") if l.startswith("ORACLE")]
    if len(out) < 200000:
        print(out)
    else:
        print("\n".join(orc[:20]))
        print(out[-3000:])
    rc2, dout = vlib.driver(["filt", "trace"], stdin_data=(filt_params_line(ex) + "\n" + out).encode())
    print("\n".join(l for l in dout.split("\n") if not l.startswith("TRACE")) if len(dout) > 20000 else dout)
    return 1 if rc != 0 or orc else 0


def replay(prop, path):
    first = open(path).readline().strip()
    if first.startswith(FILT_TAG):
        return replay_filt(prop, path, first)
    lines = [l.rstrip("\n") for l in open(path) if l.strip() and not l.startswith("#")]
    v = 1 if re.search(r"\.v1\.|variant=1|v1_", path + " ".join(lines[:2])) else 0
    ok, hbin, log = vlib.build_harness("h2_v%d" % v, ["h2_backend.cpp"], extra_flags=["-fno-access-control", "-DH2_VARIANT=%d" % v])
    if not ok:
        print(log)
        return 2
    ex = vlib.run_extract()
    name, _, rc, out = run_script(hbin, "replay", lines, vlib.CACHE)
    print(out)
    viol = bg.oracles(out.split("\n"))
    for p, m in viol:
        print("ORACLE %s %s" % (p, m))
    rc2, dout = vlib.driver(["backend", "trace"], stdin_data=("case replay\n%s\n%s" % (params_line(ex), out)).encode())
    print(dout)
    return 1 if rc != 0 or any(p == prop for p, _ in viol) else 0
