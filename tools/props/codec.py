"""C04 (async-formatted message = call-site formatting; deep copy; reserved = written = consumed) and
C11 (steady-state log call neither allocates nor formats on the caller).
Proof: Props/C04.lean, Props/C11.lean + Obligations/Codec.lean, Obligations/CodecAlloc.lean.
Tie: tools/extractors/codec.py + harness H3 (h3_codec.cpp, seven translation units over ~70 compile-time argument
shapes, real Codec<T> / detail::encode / LOG_* → queue → ManualBackendWorker → recording sink; part 7 = statements logged
after statements that a full BoundedDropping queue DROPPED between the size pass and the encode pass) and H5
(h5_alloc.cpp, interposed allocators + formatter thread ids; the expected allocations come from the model, which the
driver carries per calling thread from its first call on) vs the Lean driver `codec`."""
import concurrent.futures
import os
import re

import vlib

PROPS = ["C04", "C11"]

MANIFEST = {
    "C04": dict(
        technique="Lean 4 proof by structural induction over argument values and argument lists (size pass = encode length, cache-index alignment, decode∘encode = documented view, framing, sanitiser) and over histories of logged / dropped statements on one thread's size cache; extraction of the container table / frame / predicate / position of the cache clear(); differential correspondence on ~70 compile-time shapes; call-site fmt oracle through the real LOG_* → backend path, including statements logged after statements that a full dropping queue dropped (or an over-the-maximum record rejected) between the two passes",
        text="Machine-checked proof (Lean 4), for every argument value built from arithmetic/enum/pointer objects, C strings incl. null, char[N] with or without terminator, std::string/string_view with arbitrary bytes, every quill/std container (with the arithmetic shortcuts and forward_list's cached count), optional, pair, tuple, deferred-format POD and aligned non-POD, direct-format, StringRef and filesystem path, nested arbitrarily, and for every argument list, prior size-cache content/capacity and buffer address: the size pass reserves exactly the bytes the encode pass writes; the encode pass reads exactly the cache entries the size pass pushed, in order (empty optionals, shortcuts that push nothing, more than 12 entries after heap growth); decoding the written bytes at the statement's static shape consumes exactly those bytes and yields the documented value (C string cut at the first NUL, char[N] cut at NUL or N, std::string all bytes, null pointer ↦ empty), so the value seen by the backend is a function of the record alone (deep copy); header + arguments + optional 1-byte dynamic level: reserved = written = consumed; all of this after ANY history of earlier statements of the thread, each logged or dropped/rejected between the size pass and the encode pass (C04_drop_leaves_nothing: the size pass clears the cache at its start and the encode pass only reads it, so a dropped statement leaves nothing behind; the other placement of the clear() is refuted by a concrete witness); every statement is formatted from ITS OWN decoded arguments only (C04_store_per_statement: the backend's single DynamicFormatArgStore is cleared by the stored decoder before every statement whatever its argument count, so after any history of records of any threads and loggers the store — hence the text and the number of error reports, for every fmt — is a function of the statement's own bytes; for a zero-argument statement it is empty and the sanitiser is off; the variant that skips the reset for empty argument packs is refuted by a concrete witness; obligation codec_store_reset); a std::set / std::multiset is seen by the backend in the order it was encoded = the iteration order of ITS comparator (C04_set_view_in_encode_order; obligation codec_set_order: decode_arg rebuilds it with the rebound comparator; a re-sorting decode is refuted by a witness); for EVERY user supplied check_printable_char predicate (C04_sanitize_any_predicate, the extracted default being one instance; obligation codec_sanitize_every_byte: both loops ask the predicate about every byte; a detection loop that shortcuts printable ASCII is refuted by a witness) the sanitiser replaces exactly the bytes failing the printable predicate by \\xHH and is the identity otherwise. PARTIAL: libfmt is not modelled — 'text equals call-site formatting' is proved only up to 'fmt is a function of (format string, decoded values)' (C04_text_partial); that last step is tested by the harness oracle (fmtquill::format at the call site before the call vs the sink message after the arguments were overwritten and destroyed, every macro family). Tied to the code by extraction (inline capacity, header formula, dynamic-level accounting, per-container prefix/shortcut/predicate table, clearing rule and WHERE the clear() sits / const-ness of the cache in detail::encode, printable predicate, escape format) with re-proved obligations, and by differential execution of the real Codec<T>::compute_encoded_size/encode/decode_arg, detail::encode/decode_and_store_args and the real macros against the model (size, cache content and capacity, cache index, hex of the bytes, bytes consumed, decoded view, queue bytes reserved/consumed; harness part 7: BoundedDropping 16 KiB queue on the main thread and UnboundedDropping queue with a 16 KiB maximum on a helper thread, filled until they refuse, one or two statements with cached-length arguments dropped — or rejected by QuillError for exceeding the maximum — by the real log_statement, queue drained, next statement compared with call-site formatting; stream `seq`: a statement with arguments followed by zero-argument statements whose format string has 0/1/2 placeholders or a literal tab, on the same logger / another logger / another thread, polled one by one or together — oracle: call-site fmtquill text, or when that throws the documented error text with the call-site what() plus exactly one notifier report; the number of values in the backend's store at format time is compared with the model; shapes with non-default comparators — set<int,greater>, multiset<double,greater<>>, user comparators on int / std::string / char const* keys, nested in vector / optional / pair — whose oracle keeps the source's iteration order; the sanitiser function, the e2e stream and the named-argument values also under two non-default predicates, one stricter inside printable ASCII (rejects | \" %) and one laxer (accepts tab and bytes >= 0x80), with messages whose rejected bytes are none / printable ASCII only / mixed, the reference sanitiser taking the same predicate).",
        note="partial: fmt itself is a parameter of the theorem; wide strings (Windows only) excluded; values the C++ truncates (strings ≥ 2^32−2 bytes, containers ≥ 2^32 elements) are outside `wf`; alignof is assumed to be a power of two.",
        ref="§5 C04, §4.2"),
    "C11": dict(
        technique="Lean 4 proof on the frontend event model (context creation, InlinedVector growth, unbounded-queue growth, user copy/format calls) over histories of log calls and backend passes of one thread + extraction of the inline capacity, the container families that cache their element count, the publish-on-drain clause of commit_read and the formatter call sites; measured correspondence with interposed allocators and formatter thread ids, the expected allocations being the model's (the driver carries the model's own state of each calling thread from its first call on)",
        text="Machine-checked proof (Lean 4) that in the model of a log call the allocation events are exactly {thread-context creation on the first call} ∪ {InlinedVector growth when the number of cached lengths exceeds its current capacity} ∪ {unbounded-queue growth when the record does not fit}, plus the documented exclusions (filesystem::path temporary, copy constructor of a non trivially copyable deferred-format type); hence with a registered context, at most N cached lengths (N extracted, obligation N = 12) and a fitting record the event list is empty for every argument list of the listed types; the cached lengths are one per C string / char[N] / direct-format argument (plus one per forward_list) and nothing else — twelve C strings next to any number of containers/optionals/pairs of non-strings never reallocate the cache (C11_cstr_budget, C11_container_slots; obligation alloc_count_slots pins the extracted table to that budget); after ANY history of log calls and backend passes that ends with a pass draining the thread's queue, a record fits iff it does not exceed the capacity of the current buffer, so such a statement allocates nothing (C11_no_events_after_drain; commit_read publishing the reader position on drain is an obligation, and its absence is refuted by a concrete witness: three drained 36-byte records, then capacity−8 bytes ⇒ a 256 KiB node is allocated); deferred-format arguments are copied (memcpy / placement copy) with no formatter call on the frontend, direct-format arguments incur the formatter calls of the size and encode passes (two per argument). Finding F16 (the std::map / std::unordered_map codecs copied every pair<const Key,T> element into a pair<Key,T> temporary in both passes — one allocation per non-SSO string on the caller) was found by this check, is proved as a negation witness for the extracted flag pairTemp = true, and is repaired in /repo; the obligation pairTemp = false (own module) now holds and maps of listed types are covered in full; the corpus replay reports a reversion. PARTIAL: the model cannot see a temporary inside libstdc++/libfmt or one introduced by a rewrite of the C++ — only the measured correspondence can, and that is testing: harness H5 interposes operator new/delete, malloc/calloc/realloc/posix_memalign/aligned_alloc and mmap, counts allocations on the calling thread inside each log call (first call, then steady state) for the C04 shapes and every macro family, compares them with the model's predicted event counts (including the cases that must allocate: 13+ cached lengths, record larger than the queue; boundary scenarios each on a fresh thread whose cache never grew, measured on the first occurrence: 12 C strings + list/vector/deque/array/set/map/optional/pair of non-strings, list/vector/deque<char const*> of 12 and 13, forward_list of 11 and 12; and drained-queue scenarios: small records each fully consumed, then one record of capacity−k bytes for k around 0, the 5 % publish batch and beyond, capacity+1, and the same against a queue that still holds 50000 unread bytes) and checks that user formatters ran on the backend thread for deferred types and on the caller for direct-format types.",
        note="partial (measured, not proved, for anything inside libstdc++/libfmt or outside the modelled functions); bounded-queue variants follow from the same event model with maxCap = 0.",
        ref="§5 C11, §4.2"),
}

THEOREMS = {
    "C04": ["Codec.C04_reserved_eq_written", "Codec.C04_reserved_eq_written_list", "Codec.C04_index_alignment",
            "Codec.C04_window_exact", "Codec.C04_optional_alignment", "Codec.C04_fast_path_alignment", "Codec.C04_growth_keeps_entries",
            "Codec.C04_decode_encode", "Codec.C04_bytes_determine_view", "Codec.C04_framing",
            "Codec.C04_drop_leaves_nothing", "Codec.C04_framing_after_drops", "Codec.C04_clear_position_matters",
            "Codec.C04_store_per_statement", "Codec.C04_store_reset_skipped_leaks",
            "Obligations.codec_store_reset", "Obligations.C04_store_extracted",
            "Codec.C04_sanitize_any_predicate", "Codec.C04_sanitize_shortcut_misses",
            "Codec.C04_sanitize_spec", "Codec.C04_sanitize_id", "Codec.C04_sanitize_length", "Codec.C04_text_partial",
            "Codec.C04_set_view_in_encode_order", "Codec.C04_resorting_decode_differs",
            "Obligations.codec_sanitize_every_byte", "Obligations.codec_set_order",
            "Codec.sizePass_spec", "Codec.encode_spec", "Codec.encode_short", "Codec.decode_spec",
            "Obligations.codec_extraction_complete", "Obligations.codec_cache_elem", "Obligations.codec_kinds_ok",
            "Obligations.codec_kind_names", "Obligations.codec_fast_traits", "Obligations.codec_framing_consistent",
            "Obligations.codec_clear_rule", "Obligations.codec_clear_position", "Obligations.C04_extracted_after_drops",
            "Obligations.codec_escape_format", "Obligations.codec_events",
            "Obligations.codec_user_codecs", "Obligations.C04_extracted"],
    "C11": ["Codec.C11_events_exact", "Codec.C11_cache_growth_iff", "Codec.C11_queue_growth_iff", "Codec.C11_no_events", "Codec.C11_steady_state", "Codec.C11_steady_state_after_any_history", "Codec.C11_growTo_fuel_suffices",
            "Codec.C11_cstr_budget", "Codec.C11_container_slots", "Codec.C11_drained_fits_iff", "Codec.C11_no_events_after_drain",
            "Codec.C11_oversize_allocates", "Codec.C11_drain_without_publish_allocates",
            "Obligations.alloc_count_slots", "Obligations.alloc_drain_publishes", "Obligations.C11_extracted_after_drain",
            "Codec.C11_formatter_calls", "Codec.C11_deferred_no_format",
            "Obligations.codec_extraction_complete", "Obligations.alloc_cache_geometry",
            "Codec.C11_map_pair_temporary_allocates", "Codec.C11_listed_of_no_pair_temporaries",
            "Obligations.alloc_inline_capacity", "Obligations.alloc_formatter_sites", "Obligations.C11_extracted",
            "Obligations.alloc_no_pair_temporaries", "Obligations.C11_maps_listed", "Obligations.C11_no_events_maps"],
}
MODULES = {"C04": ["QuillModel.Props.C04"], "C11": ["QuillModel.Props.C11"]}
OBLIG = {"C04": ["QuillModel.Obligations.Codec", "QuillModel.Obligations.CodecStore"],
         "C11": ["QuillModel.Obligations.Codec", "QuillModel.Obligations.CodecAlloc", "QuillModel.Obligations.CodecAllocMap"]}

H3_PARTS = [1, 2, 3, 4, 5, 6, 7]
MAX_PARALLEL = 6  # compilers / harness processes at a time (the machine is shared)
H3_FLAGS = ["-fno-access-control", "-O0", "-fno-sanitize=nonnull-attribute"]

ASSUMPTIONS = {
    "C04": [
        "libfmt (vformat on the decoded values vs format on the original arguments) is not modelled: C04_text_partial is relative to 'fmt is a function of the format string and the documented values'; the harness oracle tests it",
        "x86-64 object representation (little endian, sizeof(size_t) = sizeof(uintptr_t) = 8) for the byte-level correspondence",
        "alignof(T) is a power of two (the model rounds up arithmetically where the code masks)",
        "values the C++ truncates to uint32_t (strings of 2^32−2 bytes or more, 2^32 elements) are outside the theorems' hypothesis `wf`",
    ],
    "C11": [
        "allocations inside libstdc++/libfmt or introduced by a rewrite of the C++ are visible only to the measured correspondence (interposed allocators), not to the model",
        "the thread-local window flag of the harness counts allocations of the calling thread between entry and exit of the log macro only",
    ],
}


def build_parts(parts=H3_PARTS):
    """build the h3 parts in parallel; returns ({part: path}, error-log or None)"""
    def one(k):
        return k, vlib.build_harness("h3_codec_p%d" % k, ["h3_codec.cpp"], extra_flags=H3_FLAGS + ["-DH3_PART=%d" % k])
    bins, err = {}, None
    with concurrent.futures.ThreadPoolExecutor(max_workers=min(MAX_PARALLEL, len(parts))) as ex:
        for k, (ok, path, log) in ex.map(one, parts):
            if ok:
                bins[k] = path
            else:
                err = (err or "") + "part %d:\n%s\n" % (k, log[-1500:])
    return bins, err


def run_parts(bins, args, timeout=1500):
    """run every part with the same arguments (parallel); returns {part: (rc, text)}"""
    def one(k):
        return k, vlib.sh([bins[k]] + args, env=vlib.ASAN_ENV, timeout=timeout)
    out = {}
    with concurrent.futures.ThreadPoolExecutor(max_workers=min(MAX_PARALLEL, len(bins))) as ex:
        for k, r in ex.map(one, sorted(bins)):
            out[k] = r
    return out


def abort_summary(text):
    """the informative line of a sanitizer report / assertion / uncaught exception, and the case that was running"""
    what = None
    for ln in text.split("\n"):
        if re.search(r"ERROR: AddressSanitizer|runtime error:|Assertion .* failed|terminate called|what\(\):|SUMMARY: ", ln):
            what = ln.strip()
            if "SUMMARY" not in ln:
                break
    m = re.search(r"ABORTED-IN case=(\d+) kind=(\S+) shape=(\S+)", text)
    return (what or " ".join(text.split("\n")[-6:]))[:400], (m.group(3) if m else None)


def case_line_of(text, case_id, kind=None):
    for ln in text.split("\n"):
        if ln.startswith("case %s " % case_id) and (kind is None or ln.split()[2] == kind):
            return ln
    return None


def shape_of_case(line):
    w = line.split()
    return w[3] if len(w) > 3 else ""


def run_c04(ck, tier):
    ps = ck.proof_side(MODULES["C04"], THEOREMS["C04"], OBLIG["C04"])
    ex = ck.extracted
    for b in ps["broken"]:
        ck.log("PROOF SIDE BROKEN: " + b)
    bins, err = build_parts()
    if err:
        ck.violation("harness_build", err, "harness h3_codec no longer compiles against the current tree (correspondence broken): " + err[-300:],
                     no_input=True)
        return ck.finish()

    n = 200 if tier == "quick" else 1500
    seeds = [ck.seed] if tier == "quick" else [ck.seed, ck.seed + 1000, ck.seed + 2000]
    tot = dict(cases=0, mismatches=0, problems=0, nontrivial=0)
    traces, stats_lines, samples = [], [], []
    mismatches, oracle_hits, aborts = [], [], []

    def process(results, label, replay_line):
        for k in sorted(results):
            rc, text = results[k]
            if rc not in (0, 3):
                aborts.append((label, k, rc, text[-12000:], replay_line))
            rc2, dout = vlib.driver(["codec", "run"], stdin_data=text.encode())
            for ln in dout.split("\n"):
                if ln.startswith("DONE"):
                    kvs = dict(x.split("=") for x in ln.split()[1:])
                    for key in tot:
                        tot[key] += int(kvs.get(key, 0))
                elif ln.startswith("TRACE"):
                    traces.append("%s part%d: %s" % (label, k, ln))
                elif ln.startswith(("MISMATCH", "MODEL-", "BAD-")):
                    mismatches.append((label, k, ln, text, replay_line))
            for ln in text.split("\n"):
                if ln.startswith("ORACLE"):
                    oracle_hits.append((label, k, ln, text, replay_line))
                elif ln.startswith("STATS"):
                    stats_lines.append("%s part%d: %s" % (label, k, ln))
            if len(samples) < 3 or (k == 7 and sum(1 for x in samples if "part7" in x["source"]) < 2):
                for ln in text.split("\n"):
                    if ln.startswith("case ") and len(ln) < 400 and (" stmt " in ln or " e2e " in ln or " edrop " in ln or " zero-args " in ln or "fwd" in ln):
                        samples.append({"source": "%s part%d" % (label, k), "line": ln})
                        break

    cdir = os.path.join(vlib.VERIF, "corpus", "C04")
    ncorpus = 0
    if os.path.isdir(cdir):
        for f in sorted(os.listdir(cdir)):
            process(run_parts(bins, ["replay", os.path.join(cdir, f)]), "corpus/" + f, open(os.path.join(cdir, f)).read())
            ncorpus += 1
    for sd in seeds:
        process(run_parts(bins, ["gen", str(sd), str(n)]), "gen seed=%d" % sd, "seed %d %d\n" % (sd, n))

    # ---- verdicts ----------------------------------------------------------------------------------------------
    def minimal_replay(replay_line, text, offending_line):
        """narrow the replay to the offending shape when the case line can be found"""
        m = re.search(r"case=(\d+)", offending_line)
        shape = None
        if m:
            cl = case_line_of(text, m.group(1))
            if cl and cl.split()[2] == "san":
                # sanitiser cases carry no shape name on the case line: the oracle line names the stream
                m3 = re.search(r"case=\d+ (pp-\S+)", offending_line)
                shape = m3.group(1) if m3 else "san"
            elif cl:
                shape = shape_of_case(cl)
        if not shape:
            m2 = re.search(r"case=\d+ (\S+)", offending_line)
            shape = m2.group(1) if m2 else None
        lines = [l for l in replay_line.split("\n") if l.startswith("seed")]
        if shape and lines and " only " not in lines[0]:
            return "".join("%s only %s\n" % (l, shape) for l in lines)
        return replay_line

    if oracle_hits:
        label, k, ln, text, rl = oracle_hits[0]
        content = "# %s (part %d)\n# property oracle on the real code: %s\n# replay: python3 tools/check.py C04 --replay <this file>\n%s" % (
            label, k, ln[:1500], minimal_replay(rl, text, ln))
        ck.violation("oracle", content, "property fails on the real code: %s (%d oracle hits in this run)" % (ln[:400], len(oracle_hits)))
    if aborts and not oracle_hits:
        label, k, rc, tail, rl = aborts[0]
        what, shape = abort_summary(tail)
        lines = [l for l in rl.split("\n") if l.startswith("seed")]
        if shape and lines and " only " not in lines[0]:
            rl = "".join("%s only %s\n" % (l, shape) for l in lines)
        ck.violation("abort", "# %s part %d rc=%d (sanitizer report or crash while driving the real codec)\n# %s\n%s\n# ---- output tail ----\n# %s\n" % (
            label, k, rc, what, rl, tail[-1500:].replace("\n", "\n# ")),
            "harness aborted (rc=%d) in part %d%s while driving the real code: %s" % (
                rc, k, " on shape %s" % shape if shape else "", what))
    if mismatches and not oracle_hits and not aborts:
        label, k, ln, text, rl = mismatches[0]
        content = "# correspondence stream `codec` (harness h3_codec part %d vs Lean driver) no longer agrees\n# %s\n# %s\n%s" % (
            k, label, ln[:1500], minimal_replay(rl, text, ln))
        ck.violation("correspondence", content,
                     "model and implementation disagree (%d lines), no property oracle fired: %s" % (len(mismatches), ln[:400]), no_input=True)
    if ps["broken"] and not ck.violations:
        # the generated cases above *are* the search (thorough generators replay the extracted table on the real code)
        deeper = None
        if tier == "quick":
            res = run_parts(bins, ["gen", str(ck.seed + 7), "30"])
            for k in sorted(res):
                for ln in res[k][1].split("\n"):
                    if ln.startswith("ORACLE"):
                        deeper = (k, ln, res[k][1])
                        break
                if deeper:
                    break
        if deeper:
            k, ln, text = deeper
            ck.violation("oracle_deep", "# found by the widened search after the proof side broke (%s)\n# %s\n%s" % (
                ps["broken"][0][:200], ln[:1500], minimal_replay("seed %d 30\n" % (ck.seed + 7), text, ln)),
                "proof obligation broken (%s) and the property fails on the real code: %s" % (ps["broken"][0][:200], ln[:300]))
        else:
            ck.violation("proof_broken", "theorems/obligations that no longer check:\n" + "\n".join(ps["broken"]) + "\n",
                         "proof side broken, no failing input found: " + ps["broken"][0][:300], no_input=True)

    # coordinator's decision: not a property violation, no known-finding entry — a note in the evidence only
    ck.notes.append("harness compiled with -fno-sanitize=nonnull-attribute: for a null C-string argument "
                    "Codec<char const*>::encode calls memcpy(buffer, nullptr, 0) (UBSan nonnull-attribute diagnostic, "
                    "UB by the letter of C17 7.24.1p2; the encoded bytes and the output are the intended empty string)")
    ck.notes.append("by design the backend does not hand ONE trailing '\\n' of the message to the sink "
                    "(BackendWorker: 'if the log_message ends with \\n we should exclude it'); the oracle strips it too")

    ck.cov.update({
        "evaluations": tot["cases"],
        "traces_validated_against_impl": tot["cases"],
        "distinct_nontrivial": tot["nontrivial"],
        "rule": "one case = one generated value of one compile-time shape (or one argument pack / one real log statement / one "
                "sanitiser input); non-trivial iff the value caches at least one length in the size cache or is nested at depth ≥ 2 "
                "(containers of containers / optionals / tuples); cases are distinct by construction (PRNG stream, %d values per shape)" % n,
        "samples": samples,
        "corpus_cases": ncorpus,
        "harness_stats": stats_lines,
        "driver_traces": traces,
        "extracted": {k: ex.get("codec", {}).get(k) for k in ("cacheInlineCap", "frame", "framing", "printable", "clearExempt")},
        "mismatching_lines": len(mismatches),
        "oracle_hits": len(oracle_hits),
        "aborts": len(aborts),
    })
    return ck.finish()


# ------------------------------------------------------------------------------------------------------------------
# C11
# ------------------------------------------------------------------------------------------------------------------
H5_FLAGS = ["-fno-access-control", "-O0"]


def run_c11(ck, tier):
    ps = ck.proof_side(MODULES["C11"], THEOREMS["C11"], OBLIG["C11"])
    ex = ck.extracted
    for b in ps["broken"]:
        ck.log("PROOF SIDE BROKEN: " + b)
    ok, hbin, log = vlib.build_harness("h5_alloc", ["h5_alloc.cpp"], extra_flags=H5_FLAGS, sanitize=False)
    if not ok:
        ck.violation("harness_build", log, "harness h5_alloc no longer compiles against the current tree (correspondence broken): " + log[-300:],
                     no_input=True)
        return ck.finish()
    n = 40 if tier == "quick" else 300
    seeds = [ck.seed] if tier == "quick" else [ck.seed, ck.seed + 1000, ck.seed + 2000]
    tot = dict(cases=0, mismatches=0, problems=0)
    stats_lines, samples, traces = [], [], []
    mismatches, oracle_hits, aborts = [], [], []

    def process(rc, text, label, replay_line):
        if rc not in (0, 3):
            aborts.append((label, rc, text[-3000:], replay_line))
        rc2, dout = vlib.driver(["codec", "run"], stdin_data=text.encode())
        for ln in dout.split("\n"):
            if ln.startswith("DONE"):
                kvs = dict(x.split("=") for x in ln.split()[1:])
                for key in tot:
                    tot[key] += int(kvs.get(key, 0))
            elif ln.startswith("TRACE"):
                traces.append(label + ": " + ln)
            elif ln.startswith(("MISMATCH", "MODEL-", "BAD-")):
                mismatches.append((label, ln, replay_line))
            elif ln.startswith("ORACLE"):
                # the property evaluated by the model on this very input (steady state, record fits the drained queue,
                # at most twelve C strings …: no allocation predicted) against the measurement on the real code
                oracle_hits.append((label, ln, replay_line))
        for ln in text.split("\n"):
            if ln.startswith("ORACLE"):
                oracle_hits.append((label, ln, replay_line))
            elif ln.startswith("STATS"):
                stats_lines.append(label + ": " + ln)
            elif ln.startswith("case ") and len(samples) < 4 and len(ln) < 500 and ("13cstr" in ln or "direct" in ln or "big" in ln or "mix" in ln):
                samples.append({"source": label, "line": ln})
            elif ln.startswith("case ") and len(ln) < 700 and (
                    (" d-cap-8.s3 " in ln and "a=S~" in ln and not any(" d-cap-8.s3 " in x["line"] for x in samples)) or
                    (" b-12cstr+opt<i32> " in ln and not any(" b-12cstr+opt<i32> " in x["line"] for x in samples))):
                samples.append({"source": label, "line": ln})

    cdir = os.path.join(vlib.VERIF, "corpus", "C11")
    ncorpus = 0
    if os.path.isdir(cdir):
        for f in sorted(os.listdir(cdir)):
            rc, text = vlib.sh([hbin, "replay", os.path.join(cdir, f)], timeout=600)
            process(rc, text, "corpus/" + f, open(os.path.join(cdir, f)).read())
            ncorpus += 1
    for sd in seeds:
        rc, text = vlib.sh([hbin, "gen", str(sd), str(n)], timeout=1500)
        process(rc, text, "gen seed=%d" % sd, "seed %d %d\n" % (sd, n))

    def narrowed(replay_line, offending):
        m = re.search(r"shape=(\S+)", offending) or re.search(r"kind=alloc (\S+):", offending)
        lines = [l for l in replay_line.split("\n") if l.startswith("seed")]
        if m and lines and " only " not in lines[0]:
            return "".join("%s only %s\n" % (l, m.group(1).rstrip(":")) for l in lines)
        return replay_line

    if oracle_hits:
        label, ln, rl = oracle_hits[0]
        ck.violation("oracle", "# %s\n# property oracle on the real code: %s\n# replay: python3 tools/check.py C11 --replay <this file>\n%s" % (
            label, ln[:1500], narrowed(rl, ln)),
            "property fails on the real code: %s (%d oracle hits in this run)" % (ln[:400], len(oracle_hits)))
    if aborts and not oracle_hits:
        label, rc, tail, rl = aborts[0]
        ck.violation("abort", "# %s rc=%d\n%s\n# ---- output tail ----\n# %s\n" % (label, rc, rl, tail.replace("\n", "\n# ")),
                     "harness h5_alloc aborted (rc=%d): %s" % (rc, " ".join(tail.split("\n")[-8:])[:300]))
    if mismatches and not oracle_hits and not aborts:
        label, ln, rl = mismatches[0]
        ck.violation("correspondence", "# correspondence stream `codec` (harness h5_alloc: measured allocations / formatter calls vs the "
                     "model's predicted events) no longer agrees\n# %s\n# %s\n%s" % (label, ln[:1500], narrowed(rl, ln)),
                     "measured allocations/formatter calls differ from the model's prediction (%d lines), no property oracle fired: %s" % (
                         len(mismatches), ln[:400]), no_input=True)
    if ps["broken"] and not ck.violations:
        ck.violation("proof_broken", "theorems/obligations that no longer check:\n" + "\n".join(ps["broken"]) + "\n",
                     "proof side broken, no failing input found: " + ps["broken"][0][:300], no_input=True)

    ck.cov.update({
        "evaluations": tot["cases"],
        "traces_validated_against_impl": tot["cases"],
        "distinct_nontrivial": sum(int(m.group(1)) for s in stats_lines for m in [re.search(r"nontrivial=(\d+)", s)] if m),
        "rule": "one case = one measured log call (shape × first/steady-state call × generated value; macro family; boundary packs of "
                "12/13/25 cached lengths; records larger than the free queue space); non-trivial iff the call has at least one "
                "variable-length argument, or is predicted to allocate, or involves a user formatter",
        "samples": samples,
        "corpus_cases": ncorpus,
        "harness_stats": stats_lines,
        "driver_traces": traces,
        "extracted": {k: ex.get("codec", {}).get(k) for k in ("cacheInlineCap", "cacheGrowthFactor", "directFormatCalls", "deferredFormatCalls")},
        "mismatching_lines": len(mismatches),
        "oracle_hits": len(oracle_hits),
        "aborts": len(aborts),
    })
    return ck.finish()


def run(prop, tier):
    ck = vlib.Check(prop, tier, level="proof")
    ck.assumptions = ASSUMPTIONS[prop]
    return run_c04(ck, tier) if prop == "C04" else run_c11(ck, tier)


def replay(prop, path):
    if prop == "C04":
        bins, err = build_parts()
        if err:
            print(err)
            return 2
        vlib.run_extract()
        vlib.lake_build(["driver"])
        bad = False
        for k, (rc, text) in sorted(run_parts(bins, ["replay", path]).items()):
            hits = [l for l in text.split("\n") if l.startswith("ORACLE")]
            rc2, dout = vlib.driver(["codec", "run"], stdin_data=text.encode())
            mism = [l for l in dout.split("\n") if l.startswith(("MISMATCH", "MODEL-", "BAD-"))]
            print("--- part %d rc=%d cases=%d" % (k, rc, text.count("\ncase ")))
            for l in hits[:10] + mism[:10]:
                print(l[:2000])
            if rc not in (0, 3):
                print(text[-2000:])
            print(dout.strip().split("\n")[-1])
            bad = bad or bool(hits) or rc not in (0, 3)
        return 1 if bad else 0
    ok, hbin, log = vlib.build_harness("h5_alloc", ["h5_alloc.cpp"], extra_flags=H5_FLAGS, sanitize=False)
    if not ok:
        print(log)
        return 2
    vlib.run_extract()
    vlib.lake_build(["driver"])
    rc, text = vlib.sh([hbin, "replay", path], timeout=600)
    hits = [l for l in text.split("\n") if l.startswith("ORACLE")]
    rc2, dout = vlib.driver(["codec", "run"], stdin_data=text.encode())
    dlines = dout.split("\n")
    hits += [l for l in dlines if l.startswith("ORACLE")]
    for l in hits[:20]:
        print(l[:2000])
    shown = 0
    for l in dlines:
        if l.startswith(("TRACE", "DONE")) or (l.startswith(("MISMATCH", "MODEL-", "BAD-")) and shown < 20):
            shown += l.startswith(("MISMATCH", "MODEL-", "BAD-"))
            print(l[:2000])
    return 1 if hits or rc not in (0, 3) else 0
