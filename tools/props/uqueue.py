"""C02 — unbounded SPSC queue (growth / shrink / retirement of nodes, capacity limits).
Proof: Props/C02.lean + Obligations/UQueue.lean. Tie: extraction (orders of `next`, structural steps of
_handle_full_queue / _read_next_queue) + harness H1 (real UnboundedSPSCQueue under the atomic shim) vs the Lean driver."""
import os
import re

import vlib

PROPS = ["C02"]

MANIFEST = {
    "C02": dict(
        technique="Lean 4 proof: inductive invariant over a chain of bounded-queue nodes for all schedules and stale loads; capacity-decision lemmas; extraction of the next-pointer orders and structural steps; differential correspondence under an atomic shim",
        text="Machine-checked proof that in every reachable state of the node chain (any interleaving of write/commit/grow/shrink with load/read/commit/observe-next/switch, any legal stale load) every enabled step is safe: producer and consumer steps are safe in the bounded sense (C01) on live nodes, and a switch (commit_read, delete, move on) happens only when every record of the old node has been read, happens-after the producer's last access and after the producer has left the node; plus lemmas for the capacity decision (allocation only within the maximum, error iff the record exceeds it, null when growing would exceed it, shrink iff c <= cap/2) and proved counter-witnesses for a relaxed next-load, a missing re-read and a non-power-of-two maximum (finding F10). Tied to the code by extraction of the memory orders of next and of the structural steps, re-proving UOrdersOK for them, and by running the real UnboundedSPSCQueue under the atomic shim (stale loads at every atomic access inside prepare_read, happens-before tracking of payload bytes and of node destruction, ASan for the mmap'd storage) against the Lean driver.",
        note="Caller contract assumed: shrink() is called with all writes committed (as Frontend does). A listed known finding (F10: non-power-of-two unbounded_queue_max_capacity) is reported as KNOWN-FINDING.",
        ref="§5 C02, §7 F10"),
}

THEOREMS = ["Uspsc.C02_reachable_safe", "Uspsc.C02_chain", "Uspsc.C02_trace_fifo", "Uspsc.ti_step", "Uspsc.C02_alloc_within_cap", "Uspsc.C02_throw_iff",
            "Uspsc.C02_null", "Uspsc.C02_shrink_iff", "Uspsc.C02_null_means_at_max_partial",
            "Uspsc.C02_non_pow2_max_refuses", "Uspsc.relaxed_next_unsafe", "Uspsc.no_reread_unsafe",
            "Uspsc.ustep_inv", "Uspsc.ustep_safe",
            "Obligations.unbounded_orders_ok", "Obligations.unbounded_structure_ok", "Obligations.C02_extracted",
            "Obligations.extraction_complete"]
# shrink path (Props/C20Shrink.lean, shared with C20): reported capacity, nothing lost across a shrink, old node freed when drained, loop fuel
THEOREMS += ["Uspsc.C02_nextPow2_spec", "Uspsc.C02_shrink_fuel_enough", "Uspsc.C02_dbl_fuel_enough", "Uspsc.C02_shrink_reports",
             "Uspsc.C20_shrink_reported_capacity", "Uspsc.C20_shrink_at_most_half", "Uspsc.C20_shrink_noop",
             "Uspsc.C20_shrink_capacity_one_degenerate", "Uspsc.C20_shrink_loses_nothing",
             "Uspsc.C20_shrink_old_node_freed_after_drained", "Uspsc.urun_left_frozen"]
MODULES = ["QuillModel.Props.C02", "QuillModel.Props.C20Shrink"]
OBLIG = ["QuillModel.Obligations.UQueue", "QuillModel.Obligations.Queue"]

# bundle M (tools/props/math_thm_M.py): MathUtilities.h + constructor / doubling loop / shrink capacities, attached to C02
import props.math_thm_M as _mM
_mM.attach("C02", THEOREMS, MODULES, OBLIG)

KNOWN_CLASS = "class=non-pow2-max"


def params_args(ex):
    b, u = ex["bounded"], ex["unbounded"]
    return [b["wStore"], b["wLoad"], b["rStore"], b["rLoad"], "1" if b["drainPublish"] else "0",
            u["nextStoreGrow"], u["nextStoreShrink"], u["nextLoad"], "1" if u["rereadBeforeSwitch"] else "0",
            "1" if u["commitBeforePublish"] else "0", "1" if u["commitReadBeforeDelete"] else "0"]


def split_traces(text):
    traces, cur, tail = [], None, []
    for ln in text.split("\n"):
        if ln.startswith("init "):
            cur = [ln]
            traces.append(cur)
        elif ln.startswith("ORDERS-SEEN") or ln.startswith("STATS"):
            tail.append(ln)
        elif cur is not None and ln.strip():
            cur.append(ln)
    return traces, tail


def ops_only(lines, upto=None):
    return "\n".join(ln.split(" => ")[0] for ln in lines[:upto] if not ln.startswith("ORACLE")) + "\n"


def run(prop, tier):
    ck = vlib.Check(prop, tier, level="proof")
    ck.assumptions = [
        "view semantics for single-writer atomics incl. happens-before coherence (after acquiring `next`, loads of the old node's writer position cannot return anything older than what was committed before the publication)",
        "API-call granularity + stale-load choice at every atomic load inside a call + vector-clock race detection covers the interleavings (each location has one writer)",
        "shrink() is called with every write committed (Frontend::shrink_thread_local_queue is called between statements)",
    ]
    ps = ck.proof_side(MODULES, THEOREMS, OBLIG)
    ex = ck.extracted
    pargs = params_args(ex)
    for b in ps["broken"]:
        ck.log("PROOF SIDE BROKEN: " + b)
    ok, hbin, log = vlib.build_harness("h1_uspsc", ["h1_uspsc.cpp"], extra_flags=["-fno-access-control"])
    if not ok:
        ck.violation("harness_build", log, "harness h1_uspsc no longer compiles against the current tree (correspondence broken): " + log[-300:], no_input=True)
        return ck.finish()

    ntr, nops = (100, 250) if tier == "quick" else (500, 300)
    seeds = [ck.seed] if tier == "quick" else [ck.seed, ck.seed + 1000, ck.seed + 2000]
    st = {"lines": 0, "traces": 0, "nontrivial": 0, "known_hits": 0, "read_passes": 0, "chained_read_passes": 0}
    mismatches, oracle_hits, samples, stats_lines = [], [], [], []
    orders_seen = [None]

    def process(text, label):
        traces, tail = split_traces(text)
        for t in tail:
            if t.startswith("ORDERS-SEEN"):
                orders_seen[0] = t.split()[1:]
            if t.startswith("STATS"):
                stats_lines.append(label + ": " + t)
        rc, dout = vlib.driver(["uspsc", "anypub"], stdin_data=text.encode())
        by_id = {tr[0].split()[1]: tr for tr in traces}
        for ln in dout.split("\n"):
            if ln.startswith("TRACE "):
                st["traces"] += 1
                kv = dict(x.split("=") for x in ln.split()[2:])
                st["lines"] += int(kv["lines"])
                st["read_passes"] += int(kv.get("passes", 0))
                st["chained_read_passes"] += int(kv.get("chained", 0))
                if int(kv["grows"]) > 0 and int(kv["switches"]) > 0 and int(kv["stale"]) > 0 and int(kv["denies"]) > 0:
                    st["nontrivial"] += 1
            elif ln.startswith(("MISMATCH", "MODEL-", "BAD-", "NO-INIT")):
                mismatches.append((label, ln, by_id))
        for tr in traces:
            for i, ln in enumerate(tr):
                if ln.startswith("ORACLE"):
                    if KNOWN_CLASS in ln:
                        st["known_hits"] += 1
                    else:
                        oracle_hits.append((label, ln, tr, i))
        if traces and len(samples) < 2:
            samples.append({"source": label, "trace": traces[0][:14]})

    cdir = os.path.join(vlib.VERIF, "corpus", prop)
    ncorpus = 0
    if os.path.isdir(cdir):
        for f in sorted(os.listdir(cdir)):
            rc, out = vlib.sh([hbin, "replay", os.path.join(cdir, f)] + pargs, env=vlib.ASAN_ENV, timeout=300)
            if rc not in (0, 3):
                ck.violation("corpus_" + f, out[-3000:], "harness aborted on corpus case %s (rc=%d): sanitizer or crash" % (f, rc))
            process(out, "corpus/" + f)
            ncorpus += 1
    for sd in seeds:
        rc, out = vlib.sh([hbin, "gen", str(sd), str(ntr), str(nops)] + pargs, env=vlib.ASAN_ENV, timeout=1500)
        if rc not in (0, 3):
            # sanitizer abort: keep the ops of the last trace as replay
            traces, _ = split_traces(out)
            content = "# h1_uspsc gen %d %d %d %s aborted rc=%d\n# %s\n%s" % (
                sd, ntr, nops, " ".join(pargs), rc, out[-1500:].replace("\n", "\n# "), ops_only(traces[-1]) if traces else "")
            ck.violation("abort_seed%d" % sd, content, "harness aborted (rc=%d): sanitizer report or crash while driving the real unbounded queue" % rc)
        process(out, "gen seed=%d" % sd)

    if orders_seen[0]:
        b, u = ex["bounded"], ex["unbounded"]
        want = [b["wStore"], b["wLoad"], b["rStore"], b["rLoad"], None, u["nextLoad"], None]
        names = ["wStore", "wLoad", "rStore", "rLoad", "nextStore", "nextLoad", "nextLoad(empty)"]
        for w, s, nm in zip(want, orders_seen[0], names):
            if w is not None and s not in ("-", w):
                ps["broken"].append("extraction disagrees with run-time order for %s: extracted %s, observed %s" % (nm, w, s))
        ns = orders_seen[0][4]
        if ns not in ("-", u["nextStoreGrow"]) and ns not in ("-", u["nextStoreShrink"]) and ns != "mixed":
            ps["broken"].append("extraction disagrees with run-time order for nextStore: observed %s" % ns)

    _mM.stream(ck, prop, tier, ps)   # arithmetic / constructor stream of bundle M

    if st["known_hits"]:
        listed = [f for f in vlib.known_findings(prop) if f.get("id") == "F10"]
        if listed:
            ck.known("F10 non-power-of-two unbounded_queue_max_capacity: a record in (capacity, max] is neither granted nor rejected (%d drained-state refusals reproduced on the real queue)" % st["known_hits"])
        else:
            oracle_hits.append(("gen", "ORACLE unbounded-drained-refuses class=non-pow2-max (not listed)", [], 0))

    if oracle_hits:
        label, ln, tr, i = oracle_hits[0]
        content = "# %s\n# property oracle on the real code: %s\n# replay: python3 tools/check.py %s --replay <this file>\n%s" % (
            label, ln, prop, ops_only(tr, i))
        ck.violation("oracle", content, "property fails on the real code: %s (%d oracle hits in this run)" % (ln, len(oracle_hits)))
    if mismatches and not oracle_hits:
        label, ln, by_id = mismatches[0]
        m = re.search(r"trace=(\S+)", ln)
        tr = by_id.get(m.group(1)) if m else None
        content = "# correspondence stream `uspsc` (harness h1_uspsc vs Lean driver) no longer agrees\n# %s\n# %s\n%s" % (
            label, ln, ops_only(tr) if tr else "")
        ck.violation("correspondence", content,
                     "model and implementation disagree (%d lines), no property oracle fired: %s" % (len(mismatches), ln), no_input=True)
    if ps["broken"] and not oracle_hits:
        found = False
        rc, sout = vlib.driver(["uspsc", "search", "4", "64", "0"] + pargs + ["9"], timeout=900)
        if "UNSAFE-SCHEDULE" in sout:
            sched = "\n".join(l for l in sout.split("\n") if not l.startswith("UNSAFE-SCHEDULE")) + "\n"
            rp = ck.replay_path("model_schedule")
            open(rp, "w").write(sched)
            rc2, hout = vlib.sh([hbin, "replay", rp] + pargs, env=vlib.ASAN_ENV, timeout=300)
            hits = [l for l in hout.split("\n") if l.startswith("ORACLE") and KNOWN_CLASS not in l]
            if hits or rc2 not in (0, 3):
                ck.violation("model_schedule", "# found by the model-side search with the extracted parameters; replayed on the real queue: %s\n%s" % (
                    hits[:1] or ["abort rc=%d" % rc2], sched),
                    "proof obligation broken (%s) and the failing schedule reproduces on the real code: %s" % (ps["broken"][0][:200], (hits or ["abort"])[0]))
                found = True
        if not found and not ck.violations:
            ck.violation("proof_broken", "theorems/obligations that no longer check:\n" + "\n".join(ps["broken"]) + "\n",
                         "proof side broken, no failing input found: " + ps["broken"][0][:300], no_input=True)

    ck.cov.update({
        "evaluations": st["lines"],
        "traces_validated_against_impl": st["traces"],
        "distinct_nontrivial": st["nontrivial"],
        "rule": "one case = one generated unbounded-queue life (initial/max capacity, ~%d scheduled API calls with a stale-load choice for every atomic load); non-trivial iff it contains a growth, a consumer switch, a stale load choice and a refused reservation; distinct by construction (PRNG stream)" % nops,
        "samples": samples,
        "corpus_cases": ncorpus,
        "harness_stats": stats_lines,
        "orders_seen_at_runtime": orders_seen[0],
        "extracted": {"bounded": ex["bounded"], "unbounded": ex["unbounded"]},
        "mismatching_lines": len(mismatches),
        "oracle_hits": len(oracle_hits),
        "known_finding_hits": st["known_hits"],
        "read_passes_validated": st["read_passes"],
        "read_passes_following_more_than_one_switch": st["chained_read_passes"],
    })
    return ck.finish()


def replay(prop, path):
    if _mM.is_math_replay(path):
        return _mM.replay(prop, path)
    ok, hbin, log = vlib.build_harness("h1_uspsc", ["h1_uspsc.cpp"], extra_flags=["-fno-access-control"])
    if not ok:
        print(log)
        return 2
    ex = vlib.run_extract()
    rc, out = vlib.sh([hbin, "replay", path] + params_args(ex), env=vlib.ASAN_ENV)
    print(out)
    rc2, dout = vlib.driver(["uspsc", "anypub"], stdin_data=out.encode())
    print(dout)
    bad = [l for l in out.split("\n") if l.startswith("ORACLE") and KNOWN_CLASS not in l]
    return 1 if bad or rc not in (0, 3) else 0
