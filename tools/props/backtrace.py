"""C18 (backtrace statements are held back, then replayed: most recent N, in order, once).
Proof: Props/C18.lean (+ Backtrace/Proofs.lean, Backtrace/Refine.lean) + Obligations/Backtrace.lean.
Tie: extraction of the structure of BacktraceStorage::store/process/set_capacity, of the backtrace branches of
_process_transit_event and of the LogLevel enum order; harness H3 (real BacktraceStorage driven by generated and
small-scope-exhaustive histories; real Logger / LOG_* macros / ManualBackendWorker / recording sink end to end)
vs the Lean driver `backtrace`. The scheduler-level (several threads) end-to-end check is the coordinator's."""
import hashlib
import os
import re

import vlib

PROPS = ["C18"]

MANIFEST = {
    "C18": dict(
        technique="Lean 4 proof: refinement of the (vector, index, capacity) ring to a last-N list specification by induction over every store/process/set_capacity history with a rotation invariant; backend decision function theorems and whole-event-sequence refinement; extraction of the ring/decision structure and the level enum; differential correspondence on the real BacktraceStorage and on the real Logger/ManualBackendWorker path",
        text="Machine-checked proof (Lean 4) that for every history of store / process / set_capacity calls of BacktraceStorage (any capacity including 0 and 1, any length, ring wrapped any number of times) every process() hands the callback exactly the last min(capacity, n) of the n events stored since the previous flush-or-resize, oldest first, each once, touches no out-of-range slot and leaves the store empty (refinement to a last-N list specification through the invariant 'the vector read cyclically from the index is the last cap pending events'); and that for every sequence of statements, backtrace statements, init_backtrace, flush_backtrace and flush-level changes on any number of loggers, _process_transit_event writes nothing for a backtrace statement, writes a triggering statement first and the replay immediately after it, and triggers iff explicit flush or level >= flush level (decision function theorems + event-sequence refinement). The unrepaired variants (index kept across a flush = F1, no capacity-0 guard = F2, walk from slot 0, no clear, wrap bound off by one, strict comparison) are proved wrong by concrete witnesses. Tied to the code by (1) extracting those structural facts, the comparison operator and the LogLevel enum order from the headers and re-proving the side conditions for them, (2) driving the real BacktraceStorage with every store/flush history up to a length bound for capacities 0..4 plus generated histories (bursts around k*capacity, repeated and empty flushes, set_capacity in the middle, large capacities) and the real Logger + LOG_BACKTRACE/LOG_<level>/LOG_DYNAMIC/flush_backtrace/init_backtrace + ManualBackendWorker + recording sink with one or two loggers, diffing every observation against the Lean model, (3) an independent reference deque / documented severity order oracle on the real outputs, under ASan+UBSan with libstdc++ vector annotations.",
        note="Single frontend thread here (the backend serialises events; several threads are covered by the scheduler-level check). set_capacity with a different capacity drops the stored events (the specification says 'since the previous flush-or-resize'); re-initialising with the same capacity keeps them. The flush level compared is the one in force when the backend processes the statement (init_backtrace stores it on the caller's thread at once).",
        ref="§5 C18, §7 F1 F2"),
}

THEOREMS = {
    "C18": ["Backtrace.C18_ring_refines", "Backtrace.C18_flush_emits_lastN", "Backtrace.C18_replays_form_a_subsequence", "Backtrace.C18_cycle_after_flush",
            "Backtrace.C18_cycle_after_resize", "Backtrace.C18_lastN_is_most_recent", "Backtrace.C18_trigger_iff",
            "Backtrace.C18_stored_iff", "Backtrace.C18_written_iff", "Backtrace.C18_backend_refines",
            "Backtrace.C18_backtrace_statement_not_written", "Backtrace.C18_replay_follows_trigger", "Backtrace.C18_other_loggers_untouched",
            "Backtrace.C18_pinned_ring_partial", "Backtrace.C18_F1_index_not_reset", "Backtrace.C18_F1_index_out_of_range", "Backtrace.C18_F2_capacity_zero_ub",
            "Backtrace.C18_neg_walk_from_zero", "Backtrace.C18_neg_no_clear", "Backtrace.C18_neg_wrap_late",
            "Backtrace.C18_neg_wrap_early", "Backtrace.C18_neg_strict_comparison",
            "Obligations.bt_extraction_complete", "Obligations.bt_resets_index_on_flush",
            "Obligations.bt_guards_zero_capacity", "Obligations.bt_ring_ok", "Obligations.bt_flush_cmp_ge",
            "Obligations.bt_dispatch_structure", "Obligations.bt_levels_ok", "Obligations.bt_trigger_table",
            "Obligations.C18_ring_extracted", "Obligations.C18_flush_extracted", "Obligations.C18_backend_extracted"],
}
MODULES = {"C18": ["QuillModel.Props.C18"]}
OBLIG = ["QuillModel.Obligations.Backtrace"]

HARNESS = ("h3_backtrace", ["h3_backtrace.cpp"], ["-D_GLIBCXX_SANITIZE_VECTOR"])
CMPW = {">=": "ge", ">": "gt", "<=": "le", "<": "lt", "==": "eq", "!=": "ne"}
SEV = ["TraceL3", "TraceL2", "TraceL1", "Debug", "Info", "Notice", "Warning", "Error", "Critical"]


def params_args(ex):
    b = ex.get("backtrace") or {}
    r = b.get("ring") or {}
    be = b.get("backend") or {}
    lv = b.get("levels") or []
    f = lambda k: "1" if r.get(k) else "0"
    return [f("resetsIndexOnFlush"), f("guardsZeroCapacity"), f("startsAtIndex"), f("clearsOnFlush"),
            str(r.get("wrapSlack", 1)), CMPW.get(be.get("flushCmp", ">="), "ge"), ",".join(lv) if lv else "-"]


def split_cases(text):
    """harness output -> list of cases (each a list of lines starting with its `init` line), tail lines"""
    cases, cur, tail = [], None, []
    for ln in text.split("\n"):
        if ln.startswith("init "):
            cur = [ln]
            cases.append(cur)
        elif ln.startswith("STATS"):
            tail.append(ln)
        elif cur is not None and ln.strip():
            cur.append(ln)
    return cases, tail


ARITY = {"init": 3, "cap": 2, "st": 2, "pr": 1, "ib": 4, "lg": 4, "ld": 4, "lgx": 4, "bt": 3, "btx": 3, "fb": 2, "poll": 1}


def op_words(ln):
    """the call named by a harness line (the harness prints `op ` before the call and `=> obs` after it, so the
    last line before a sanitizer abort is an op followed by the report); None for anything else"""
    ws = ln.split(" =>")[0].split()
    if not ws or ws[0] not in ARITY or len(ws) < ARITY[ws[0]]:
        return None
    return ws[:ARITY[ws[0]]]   # for `init`: the parameters are re-read from the tree at replay time


def ops_only(lines, upto=None):
    out = []
    for ln in (lines if upto is None else lines[:upto]):
        ws = op_words(ln)
        if ws:
            out.append(" ".join(ws))
    return "\n".join(out) + "\n"


# parameters of "the repaired code plus exactly this listed defect" (order as in params_args)
DEFECT_FLAG = {"F1": 0, "F2": 1}   # F1: resetsIndexOnFlush = 0 ; F2: guardsZeroCapacity = 0


def explained_by_known(known_ids, case, upto, aborted, levels):
    """Input class of a listed finding = the cases on which the real code behaves exactly like the model of the
    repaired code with only the listed defect(s) switched on, and that model deviates from the specification
    there (MODEL-SPEC-DIFF / MODEL-UB). Anything else that goes wrong shows up as a MISMATCH against that model
    and is not excused. Returns the finding id, or None."""
    ids = [k for k in known_ids if k in DEFECT_FLAG]
    if not ids:
        return None
    par = ["1", "1", "1", "1", "1", "ge"]
    for k in ids:
        par[DEFECT_FLAG[k]] = "0"
    w0 = op_words(case[0])
    if not w0:
        return None
    head = " ".join(w0 + par + ([levels] if w0[2] == "e2e" else []))
    body = []
    for ln in case[1:upto]:
        ws = op_words(ln)
        if not ws:
            continue
        body.append(ln if " => " in ln else " ".join(ws) + " => ?")
    if aborted and body and not body[-1].endswith("=> ?"):
        return None
    rc, dout = vlib.driver(["backtrace", "trace"], stdin_data=("\n".join([head] + body) + "\n").encode())
    last = len(body) + 1
    deviates, ub_at_store = False, False
    for ln in dout.split("\n"):
        if ln.startswith(("MISMATCH", "BAD-", "NO-INIT")):
            m = re.search(r"line=(\d+)", ln)
            if aborted and m and int(m.group(1)) == last:
                continue   # the call that died has no observation
            return None
        if ln.startswith("MODEL-SPEC-DIFF"):
            deviates = True
        if ln.startswith("MODEL-UB"):
            deviates = True
            ub_at_store = bool(re.search(r": (st|bt|btx) ", ln + " ")) or "store evaluates" in ln
    if not deviates:
        return None
    if len(ids) == 1:
        return ids[0]
    return "F2" if ub_at_store else "F1"


def sanitizer_summary(out):
    m = re.search(r"(SUMMARY: [^\n]*|runtime error: [^\n]*|AddressSanitizer[^\n]*)", out)
    return m.group(1)[:240] if m else "no sanitizer summary (crash)"


def run(prop, tier):
    ck = vlib.Check(prop, tier, level="proof")
    ck.assumptions = [
        "the backend processes the events of all threads as one sequence (BackendWorker is single-threaded); which sequence is the subject of C05/C03, not of this check",
        "an event id is carried in TransitEvent::timestamp / the formatted message; the stored thread id and name strings are checked for integrity by the harness, not modelled",
        "set_capacity's reserve(capacity) does not throw (it allocates capacity * sizeof(StoredTransitEvent) eagerly; a capacity too large to allocate leaves the new capacity in force and reports through the error notifier — not modelled)",
        "capacities and indices are uint32_t in the code and Nat in the model: index < capacity < 2^32 always, so no wrap-around of the integers themselves (the only subtraction that could, `_capacity - 1` with capacity 0, is behind the extracted guard)",
    ]
    ps = ck.proof_side(MODULES[prop], THEOREMS[prop], OBLIG)
    ex = ck.extracted
    pargs = params_args(ex)
    for b in ps["broken"]:
        ck.log("PROOF SIDE BROKEN: " + b)

    ok, hbin, log = vlib.build_harness(HARNESS[0], HARNESS[1], extra_flags=HARNESS[2])
    if not ok:
        ck.violation("harness_build", log, "harness h3_backtrace no longer compiles against the current tree (correspondence broken): " + log[-300:], no_input=True)
        return ck.finish()

    known = {f["id"]: f for f in vlib.known_findings(prop)}
    state = dict(lines=0, traces=0, nontrivial=set(), kinds={}, mismatches=[], oracle=[], aborts=[], samples=[],
                 stats=[], done=[], known_hits={})

    def handle_failure(label, what, case, upto, tag):
        fid = explained_by_known(sorted(known), case, len(case), tag == "aborts", pargs[6]) if known else None
        if fid:
            state["known_hits"].setdefault(fid, (label, what, case, upto))
            state["known_count"] = state.get("known_count", 0) + 1
            return
        state[tag].append((label, what, case, upto))

    def process(text, rc, label):
        cases, tail = split_cases(text)
        for t in tail:
            state["stats"].append(label + ": " + t)
        aborted = rc not in (0, 3)
        # the driver gets the completed calls only (an aborted run ends with the call that died + the report)
        dtext = "\n".join(ln for ln in text.split("\n") if ln.startswith("init ") or (" => " in ln and op_words(ln))) + "\n"
        rc2, dout = vlib.driver(["backtrace", "trace"], stdin_data=dtext.encode())
        by_id = {c[0].split()[1]: c for c in cases}
        model_dev = {}
        for ln in dout.split("\n"):
            if ln.startswith("TRACE "):
                state["traces"] += 1
                parts = ln.split()
                kv = dict(x.split("=") for x in parts[2:])
                state["lines"] += int(kv["lines"])
                state["kinds"][kv["kind"]] = state["kinds"].get(kv["kind"], 0) + 1
                if int(kv["wrapped"]) > 0 and int(kv["postwrap"]) > 0:
                    c = by_id.get(parts[1])
                    state["nontrivial"].add(hashlib.sha1(ops_only(c[1:] if c else [ln]).encode()).hexdigest())
            elif ln.startswith("DONE"):
                state["done"].append(label + ": " + ln)
            elif ln.startswith(("MISMATCH", "BAD-", "NO-INIT")):
                m = re.search(r"trace=(\S+)", ln)
                state["mismatches"].append((label, ln, by_id.get(m.group(1)) if m else None))
            elif ln.startswith("MODEL-"):
                # the model (with the extracted parameters) leaves the specification: the real code, which it
                # mirrors, must have failed the oracle / aborted on the same case — checked below
                m = re.search(r"trace=(\S+)", ln)
                model_dev.setdefault(m.group(1) if m else "?", ln)
        failed_ids = set()
        for c in cases:
            for i, ln in enumerate(c):
                if ln.startswith("ORACLE"):
                    handle_failure(label, ln, c, i, "oracle")
                    failed_ids.add(c[0].split()[1])
                    break
        if rc not in (0, 3) and cases:
            failed_ids.add(cases[-1][0].split()[1])
        for tid, ln in model_dev.items():
            if tid not in failed_ids:
                state["mismatches"].append((label, ln + "  [model leaves the specification but the oracle on the real code did not fire]", by_id.get(tid)))
        if aborted and cases:
            c = cases[-1]
            what = "harness aborted (rc=%d) while driving the real code: %s" % (rc, sanitizer_summary(text))
            handle_failure(label, what, c, len(c), "aborts")
        elif aborted:
            state["aborts"].append((label, "harness aborted before the first case (rc=%d): %s" % (rc, sanitizer_summary(text)), ["init none ring"], 1))
        for c in cases:
            if len(state["samples"]) < 4 and len(c) > 8 and (c[0].split()[2] == "e2e") == (len(state["samples"]) % 2 == 1):
                state["samples"].append({"source": label, "trace": c[:14]})

    # corpus first
    cdir = os.path.join(vlib.VERIF, "corpus", prop)
    ncorpus = 0
    if os.path.isdir(cdir):
        for f in sorted(os.listdir(cdir)):
            rc, out = vlib.sh([hbin, "replay", os.path.join(cdir, f)] + pargs, env=vlib.ASAN_ENV, timeout=300)
            process(out, rc, "corpus/" + f)
            ncorpus += 1
    if tier == "quick":
        plans = [(ck.seed, 600, 400, 11)]
    else:
        plans = [(ck.seed, 4000, 2500, 15), (ck.seed + 1000, 4000, 2500, 0), (ck.seed + 2000, 4000, 2500, 0)]
    for sd, nring, ne2e, exh in plans:
        rc, out = vlib.sh([hbin, "gen", str(sd), str(nring), str(ne2e), str(exh)] + pargs, env=vlib.ASAN_ENV, timeout=3000)
        process(out, rc, "gen seed=%d" % sd)

    # --- verdicts -----------------------------------------------------------------------------
    fails = state["oracle"] or state["aborts"]
    if state["oracle"]:
        label, ln, case, i = state["oracle"][0]
        content = "# %s\n# property oracle on the real code: %s\n# replay: python3 tools/check.py %s --replay <this file>\n%s" % (
            label, ln, prop, ops_only(case, i))
        ck.violation("oracle", content, "property fails on the real code: %s (%d failing cases in this run)" % (ln[:400], len(state["oracle"])))
    if state["aborts"]:
        label, what, case, i = state["aborts"][0]
        content = "# %s\n# %s\n# the call that died is the last line below\n# replay: python3 tools/check.py %s --replay <this file>\n%s" % (
            label, what, prop, ops_only(case, i))
        ck.violation("abort", content, what)
    if state["mismatches"] and not fails:
        label, ln, case = state["mismatches"][0]
        content = "# correspondence stream `backtrace` (harness h3_backtrace vs Lean driver) no longer agrees\n# %s\n# %s\n%s" % (
            label, ln, ops_only(case) if case else "")
        ck.violation("correspondence", content,
                     "model and implementation disagree (%d lines), no property oracle fired: %s" % (len(state["mismatches"]), ln[:300]), no_input=True)
    attributable = False
    if ps["broken"] and state["known_hits"] and not ex.get("failures"):
        # is every deviation of the extracted structure one of the listed defects?
        want = ["1", "1", "1", "1", "1", "ge"]
        attributable = all(pargs[i] == want[i] or (pargs[i] == "0" and i in [DEFECT_FLAG[k] for k in known if k in DEFECT_FLAG])
                           for i in range(6))
        if attributable:
            ck.notes.append("proof obligations broken only by the listed finding(s) %s (extracted structure otherwise as required)" % sorted(state["known_hits"]))
    if ps["broken"] and not fails and not attributable:
        # model-side search with the extracted parameters, replayed on the real code
        found = False
        rc, sout = vlib.driver(["backtrace", "search"] + pargs + ["12"], timeout=900)
        chunks = re.split(r"^FAILING-HISTORY[^\n]*\n", sout, flags=re.M)[1:]
        for ch in chunks:
            sched = "\n".join(l for l in ch.split("\n") if l and not l.startswith(("NO-FAILING", "LEVEL-TABLE"))) + "\n"
            rp = ck.replay_path("model_history")
            with open(rp, "w") as f:
                f.write(ops_only(sched.split("\n")))
            rc2, hout = vlib.sh([hbin, "replay", rp] + pargs, env=vlib.ASAN_ENV, timeout=300)
            hits = [l for l in hout.split("\n") if l.startswith("ORACLE")]
            if hits or rc2 not in (0, 3):
                what = hits[0] if hits else "abort rc=%d: %s" % (rc2, sanitizer_summary(hout))
                ck.violation("model_history", "# found by the model-side search with the extracted parameters; replayed on the real code: %s\n%s" % (
                    what, ops_only(sched.split("\n"))),
                    "proof obligation broken (%s) and the failing history reproduces on the real code: %s" % (ps["broken"][0][:200], what[:300]))
                found = True
                break
        if not found and tier == "quick":
            # search harder: the thorough generators
            for sd in (ck.seed + 7000, ck.seed + 8000):
                rc, out = vlib.sh([hbin, "gen", str(sd), "2000", "1200", "12"] + pargs, env=vlib.ASAN_ENV, timeout=3000)
                before = len(state["oracle"]) + len(state["aborts"])
                process(out, rc, "gen(deeper) seed=%d" % sd)
                if len(state["oracle"]) + len(state["aborts"]) > before:
                    label, ln, case, i = (state["oracle"] or state["aborts"])[0]
                    ck.violation("oracle_deeper", "# %s\n# %s\n%s" % (label, ln, ops_only(case, i)),
                                 "proof obligation broken (%s) and a failing history was found by the deeper generators: %s" % (ps["broken"][0][:200], ln[:300]))
                    found = True
                    break
        if not found and not ck.violations:
            ck.violation("proof_broken", "theorems/obligations that no longer check:\n" + "\n".join(ps["broken"]) + "\n",
                         "proof side broken, no failing input found: " + ps["broken"][0][:300], no_input=True)
    for fid, (label, what, case, upto) in sorted(state["known_hits"].items()):
        ck.known("%s reproduces (%s): %s" % (fid, known[fid].get("line", ""), what[:200]))

    ck.cov.update({
        "evaluations": state["lines"],
        "traces_validated_against_impl": state["traces"],
        "cases_by_kind": state["kinds"],
        "distinct_nontrivial": len(state["nontrivial"]),
        "rule": "one case = one life of a BacktraceStorage (ring) or of one/two real Loggers driven through the ManualBackendWorker (e2e); "
                "non-trivial iff it contains a flush of a wrapped ring (more stored than a capacity >= 1) followed, in the same capacity epoch, "
                "by a later non-empty flush; distinct = distinct op sequences (SHA-1 of the case text)",
        "samples": state["samples"],
        "corpus_cases": ncorpus,
        "harness_stats": state["stats"],
        "driver_totals": state["done"],
        "extracted": ex.get("backtrace"),
        "mismatching_lines": len(state["mismatches"]),
        "oracle_hits": len(state["oracle"]),
        "aborts": len(state["aborts"]),
        "failing_cases_in_the_class_of_a_listed_finding": state.get("known_count", 0),
    })
    return ck.finish()


def replay(prop, path):
    ok, hbin, log = vlib.build_harness(HARNESS[0], HARNESS[1], extra_flags=HARNESS[2])
    if not ok:
        print(log)
        return 2
    ex = vlib.run_extract()
    pargs = params_args(ex)
    rc, out = vlib.sh([hbin, "replay", path] + pargs, env=vlib.ASAN_ENV)
    print(out)
    rc2, dout = vlib.driver(["backtrace", "trace"], stdin_data=out.encode())
    print(dout)
    bad = [l for l in out.split("\n") if l.startswith("ORACLE")]
    return 1 if bad or rc not in (0, 3) else 0
