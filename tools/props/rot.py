"""C14 (size rotation: statements whole, ordered, bounded) and C15 (time rotation separates statements at the
configured points). Proof: Props/C14.lean, Props/C15.lean + Obligations/Rot.lean. Tie: extraction of the structure of
RotatingSink.h (extractors/rot.py) + harness H3 (the real RotatingFileSink in a scratch directory, explicit start
instant and record timestamps) vs the Lean driver `rot`; independent oracle = the properties themselves evaluated on
the real directory after every operation."""
import os
import re

import vlib

PROPS = ["C14", "C15"]

MANIFEST = {
    "C14": dict(
        technique="Lean 4 proof: inductive invariants of the rotation model (abstract file system, _created_files, rename chain): over all op sequences for the Index scheme, under monotone-date premises for Date/DateAndTime, with proved counter-witnesses for what fails without them; extraction of the structure of RotatingSink.h; differential correspondence on the real RotatingFileSink in a scratch directory + property oracle on the real directory",
        text="Machine-checked proof (Lean 4) about a model of RotatingSink (constructor with clean-up/recovery scan, write_log, _size_rotation, _time_rotation, _rotate_files): for the Index scheme and every sequence of writes (any size, any timestamp) and restarts (any limit, backup count, overwrite flag, open mode a / w-with-clean-up, frequency), with unrelated files present: every statement is appended whole to exactly one file and stays in exactly one file (renames move whole files, a rename never lands on an existing file); reading the retained files oldest to newest (strictly decreasing index, then the current file) gives the written sequence minus a prefix made of whole deleted files (nothing is deleted when overwriting is off); the current file exceeds the limit only if it holds a single statement or rotation has stopped; the number of rotated files never rises above max_backup_files and, with the extracted while-loop deletion (repair of F18), every rotation that takes place leaves at most max_backup_files rotated files even when the start recovered more; an append-mode restart recovers exactly the existing index sequence and continues it; unrelated files are never touched. Date/DateAndTime (…_partial): under the premises that the civil day/second of start instant and record timestamps never decreases and that unrecovered dated files in the directory are strictly older than the start, an inductive invariant gives, within a run and again after each restart, existence of all tracked files, deque order = name order of the scheme (earlier date older, same date larger index older), retained sequence = written sequence minus a prefix of whole deleted files, and rename targets absent or already vacated; proved counter-witnesses show what fails without the premises: non-monotone timestamps (F14), the cross-restart backup bound (F15); for the pinned one-deletion-per-rotation rule a proved counter-witness (F18, since repaired) shows a recovered set larger than max_backup_files never shrinking. Tied to the code by extracting the deletion rule (while vs if) and ~30 structural facts of RotatingSink.h (trigger comparisons, order of rename/delete/open, oldest-first loop, recovery rules, defaults, validation) whose obligations are re-proved on every run, and by driving the real RotatingFileSink with generated op sequences (sizes limit±1, restarts, planted files) and comparing directory listing, per-file statement ids, _created_files, _file_size with the model after every operation; every (re)start of a directory spells the sink's path differently (relative, ./-prefixed, x/../x, absolute canonical, through a symlink, trailing /., bare file name from inside the directory) — the model has no spelling parameter, so recovery and continuation must be invariant under it.",
        note="Naming scheme and base file name fixed for the life of a directory (its spelling varies per restart: std::filesystem's path resolution itself — canonical, directory_iterator, rename through '.', '..' and symlinks — is trusted, the invariance of the sink under the spelling is what the harness tests; the working directory does not change while a sink is alive); FilenameAppendOption::None; fopen/rename failures not injected; uint64 wrap of timestamps ignored; w-mode restart without clean-up (remove_old_files=false) orphans the previous run's files — modelled and exercised, outside the Index theorem's premise.",
        ref="§5 C14, §7 F14 F15"),
    "C15": dict(
        technique="Lean 4 proof: grid invariant of _next_rotation_time for every start instant and every timestamp sequence, separation / sharing theorems on the rotation model, composition with the C14 invariant; extraction of the advance rule of _time_rotation; differential correspondence + schedule oracle (libc calendar arithmetic) on the real RotatingFileSink",
        text="Machine-checked proof (Lean 4) that for every start instant, every valid frequency/interval/daily time and every sequence of record timestamps, _next_rotation_time is always the first point of the schedule (first point computed from the start instant, then every period) strictly after every record seen so far; a record at or after that point starts a fresh file (unless rotation has stopped at the backup limit with overwriting off) and records before it are appended to the current file unless size rotation intervenes; the file rotated away is renamed to the suffix of its opening instant and keeps that suffix; all C14 invariants hold for time rotation too. The pinned advance rule record_ts + period is proved to violate the grid (F9 witness: start 22:13, daily 02:00, records at +9 h and +29 h). Tied to the code by extracting the shape of _time_rotation (>= trigger, loop from the scheduled point), _calculate_rotation_tp and _calculate_initial_rotation_tp, and by driving the real sink with timestamps at the rotation points ±1 ns and gaps of many periods, in GMT and in local time under several TZ zones, comparing _next_rotation_time, _open_file_timestamp and the directory after every write; an independent oracle recomputes the schedule with libc (timegm/mktime) and checks separation, sharing, suffixes and the grid.",
        note="Theorems are for a constant UTC offset; in zones with DST the code adds 24 h, so a daily HH:MM schedule drifts by the DST shift (finding F19, exercised by the harness); a time rotation that finds the current file empty is skipped (the file keeps its earlier opening instant) — modelled, stated in the theorems.",
        ref="§5 C15, §7 F9"),
}

THEOREMS = {
    "C14": ["Rot.C14_index_invariant", "Rot.C14_index_sequence", "Rot.C14_index_write", "Rot.C14_index_exactly_one_file",
            "Rot.C14_index_backup_bound", "Rot.C14_index_backup_bound_run", "Rot.C14_index_backup_bound_after_rotation",
            "Rot.C14_index_no_clobber", "Rot.C14_index_no_loss_without_overwrite", "Rot.C14_index_write_keeps_all_within_backup",
            "Rot.C14_index_append_restart_recovers", "Rot.C14_limit", "Rot.C14_unrelated_untouched",
            "Rot.C14_any_scheme_write", "Rot.C14_dated_run_partial", "Rot.C14_dated_no_clobber_partial",
            "Rot.C14_dated_restart_partial", "Rot.monoSfx_of_sorted", "Rot.rotate_generic", "Rot.chain_generic",
            "Rot.C14_F14_nonmonotone_order_fails", "Rot.C14_F15_restart_bound_fails",
            "Rot.C14_F18_lowered_max_never_shrinks", "Rot.rotate_index", "Rot.restart_inv", "Rot.applyMoves_get",
            # Date / DateAndTime through restarts with configuration changes (Props/C14Dated.lean)
            "Rot.C14_dated_invariant", "Rot.C14_dated_invariant_from_start", "Rot.C14_dated_no_clobber_run",
            "Rot.C14_dated_exactly_one_file", "Rot.C14_dated_write_keeps_all_without_overwrite", "Rot.C14_dated_restart_leaves_files",
            "Rot.C14_dated_same_second_restart_clobbers", "Rot.C14_dated_backwards_restart_breaks_order",
            "Rot.C14_dated_backup_bound_across_restarts_fails",
            "Rot.C14_dated_sequence", "Rot.C14_dated_untracked_untouched", "Rot.restart_dated_diskSeq_suffix",
            # audit round (Props/C14More.lean): the sequence as an equation, named exclusions, the JSON sink's two sizes
            "Rot.C14_index_sequence_eq", "Rot.write_dropped", "Rot.C14_index_nothing_dropped_without_overwrite",
            "Rot.C14_junk_removed_by_cleanup", "Rot.C14_write_mode_without_cleanup_overwrites",
            "Rot.C14_F30_json_counts_statement_size", "Rot.writeC_self",
            "Rot.write_limInv_dated", "Rot.C14_index_all_files_within_limit", "Rot.write_limInv", "Rot.restart_limInv", "Rot.C14_stopped_file_rotated_oversized",
            # rendered names for any base file name (Props/C14Render.lean)
            "Rot.C14_render_injective", "Rot.C14_render_collides_across_schemes", "Rot.C14_rendered_names_distinct_partial",
            "Rot.C14_rendered_names_distinct", "Rot.renderSfx_inj", "Rot.renderSfx_dotFree_ne_nil", "Rot.civil_eq",
            "Rot.C14_scan_sees_rotated", "Rot.C14_F28_no_extension_scan_blind", "Rot.C14_F29_append_option_scan_blind",
            "Rot.C14_F28_blind_restart_loses_statements", "Rot.splitExt_spec", "Rot.getFilename_ext", "Rot.getFilename_noext",
            "Obligations.rot_extraction_complete", "Obligations.rot_size_facts_hold", "Obligations.rot_defaults", "Obligations.rot_enums",
            "Obligations.rot_deletes_all_excess", "Obligations.C14_bound_extracted", "Obligations.C14_extracted"],
    "C15": ["Rot.C15_grid", "Rot.C15_grid_least", "Rot.C15_first_point", "Rot.C15_separates", "Rot.C15_shares",
            "Rot.C15_suffix_of_opening_instant", "Rot.C15_composes_with_C14", "Rot.C15_F9_record_anchored_breaks_grid",
            "Rot.advance_loop", "Rot.gridInv_step",
            "Rot.C15_separates_across_restarts", "Rot.C15_not_due_across_restarts", "Rot.C15_composition_index",
            "Rot.C15_composition_dated", "Rot.run_append",
            "Rot.C15_separates_on_schedule", "Rot.C15_not_due_on_schedule", "Rot.pre_nil_of_pos",
            "Obligations.rot_time_extraction_complete", "Obligations.rot_time_facts_hold", "Obligations.rot_advances_from_schedule",
            "Obligations.C15_extracted"],
}
MODULES = {"C14": ["QuillModel.Props.C14", "QuillModel.Props.C15Schedule", "QuillModel.Props.C14Dated", "QuillModel.Props.C14Render", "QuillModel.Props.C14More", "QuillModel.Props.C14DatedLimit"], "C15": ["QuillModel.Props.C15", "QuillModel.Props.C15Schedule", "QuillModel.Props.C15Compose"]}
OBLIG = {"C14": ["QuillModel.Obligations.RotSize"], "C15": ["QuillModel.Obligations.RotTime"]}

C14_ORACLES = ("dup-id", "torn", "not-in-cur", "order", "not-suffix", "over-limit", "backup-bound", "backup-shrink", "ow-off-deleted")
C15_ORACLES = ("time-merge", "time-split", "suffix", "grid", "dst-drift")
C15_COMPOSITION = ("dup-id", "torn", "not-in-cur", "order", "not-suffix", "backup-bound", "ow-off-deleted", "over-limit")

# known-finding classes, recognised by the *input class* printed on the ORACLE line
FINDING_TEXT = {
    "F14": "Date/DateAndTime naming with non-monotone statement timestamps: a newer file gets an earlier date, name order no longer reproduces write order",
    "F15": "start-up recovery skipped (DateAndTime) / limited to today's files (Date): rotated files of earlier runs are not counted against max_backup_files across append-mode restarts, and the file deleted is not the oldest on disk",
    "F18": "only one file is deleted per rotation: when an append-mode start finds more rotated files than max_backup_files the set never shrinks to the limit (repaired in /repo by if -> while; fires only if that fix is reverted)",
    "F28": "base file name without an extension (or a hidden file such as .log): the start-up scans compare the entry's extension with the base's empty one, recover and clean nothing; after an append-mode restart the rotations overwrite the previous run's rotated files",
    "F29": "FilenameAppendOption set: the start-up scans use the name handed to the constructor, not the name the sink writes to (stem_<stamp>): nothing is recovered or cleaned, an append-mode restart with the same stamp overwrites the previous run's rotated files",
    "F30": "RotatingJsonFileSink counts log_statement.size() in _file_size while the JSON line is what is written: a file passes rotation_max_file_size holding many statements",
    "F31": "base file name whose stem ends in .<number> (x.1.log): the append-mode recovery of the Index scheme takes the current file itself for rotated file #1 of x.log; the next rotation renames the current file to x.2.log, outside the sink's family",
    "F19": "daily rotation adds 24 h: in a zone with DST the HH:MM schedule drifts by the DST shift after a transition",
}


def oracle_fields(line):
    """the fixed key=value head of an ORACLE line: case op scheme nonmono arestarts unrecovered dst overstart spell base sink
    fa mixed blind.
    (`spell=` follows them for information only: the finding classes F14/F15/F18/F19 are keyed by scheme, timestamp
    monotonicity and what recovery skips by design — never by how the path was spelled.)"""
    w = line.split()
    d = {"kind": w[1]}
    for x in w[2:16]:
        if "=" in x:
            k, v = x.split("=", 1)
            d[k] = v
    return d


def classify(line):
    """-> finding id of the input class this oracle hit falls into, or None"""
    f = oracle_fields(line)
    k, sch = f["kind"], f.get("scheme")
    if k == "dst-drift" and f.get("dst") == "1":
        return "F19"
    # (ow-off-deleted under a dated scheme: a rotation renamed onto a file the sink does not track — same date/second
    #  reached again by a backwards timestamp (F14) or left untracked by the start-up recovery (F15); witnesses
    #  C14_dated_same_second_restart_clobbers / C14_dated_backwards_restart_breaks_order)
    if sch in ("D", "T") and f.get("nonmono") == "1" and k in ("order", "not-suffix", "backup-bound", "backup-shrink", "not-in-cur", "dup-id", "ow-off-deleted"):
        return "F14"
    if sch in ("D", "T") and f.get("unrecovered") == "1" and k in ("not-suffix", "backup-bound", "backup-shrink", "ow-off-deleted"):
        return "F15"
    # the classes found with other base names / sinks (input class = what is printed about the case, never the oracle text)
    lost = ("ow-off-deleted", "not-suffix", "order", "dup-id", "backup-bound", "backup-shrink")
    if k == "over-limit" and f.get("sink") == "J":
        return "F30"
    if f.get("fa", "N") != "N" and f.get("blind") == "1" and k in lost:
        return "F29"
    # same defect, other face: the start-up scan uses the UN-appended constructor name, so it is not only blind to the sink's own
    # files, it also recovers files of the un-appended family (a planted / foreign log.5.log) into _created_files: they count as
    # backups, rotation stops early with overwrite off, the current file grows past the limit (thorough seed 1, case s1z258)
    if f.get("fa", "N") != "N" and k == "over-limit":
        return "F29"
    if f.get("base") in ("noext", "hidden") and f.get("blind") == "1" and k in lost:
        return "F28"
    if f.get("base") == "numstem" and sch == "I" and int(f.get("arestarts", "0") or 0) >= 1 and k in lost + ("not-in-cur",):
        return "F31"
    if k == "backup-shrink" and f.get("overstart") == "1":
        return "F18"
    return None


def belongs(prop, line):
    f = oracle_fields(line)
    k = f["kind"]
    if prop == "C14":
        return k in C14_ORACLES
    if k in C15_ORACLES:
        return True
    # composition with C14: losing / reordering statements under time rotation — but not the C14 findings' classes
    return k in C15_COMPOSITION and classify(line) is None


def spellings(stat_lines):
    """spell_<name>=n counters of the harness STATS lines, summed"""
    tot = {}
    for ln in stat_lines:
        for k, v in re.findall(r"\b(spell_\w+|append_restart_over_\w+|start_changes_scheme|fa_base_moved)=(\d+)", ln):
            tot[k] = tot.get(k, 0) + int(v)
    return tot


def split_cases(text):
    cases, cur, tail = [], None, []
    for ln in text.split("\n"):
        if ln.startswith("case "):
            cur = [ln]
            cases.append(cur)
        elif ln.startswith("STATS"):
            tail.append(ln)
        elif cur is not None and ln.strip():
            cur.append(ln)
    return cases, tail


def ops_only(lines, upto=None):
    out = []
    for ln in lines[:upto]:
        if ln.startswith(("ORACLE", "NOTE")):
            continue
        out.append(ln.split(" => ")[0])
    return "\n".join(out) + "\n"


def relevant_mismatch(prop, kind, fields):
    """which differing observation fields concern which property"""
    fs = set(fields.split(","))
    if prop == "C14":
        if kind == "cfg":
            return "cfg" in fs
        return bool(fs - {"next"})
    if kind == "cfg":
        return "cfg" in fs
    if kind.startswith("mixed"):
        return "next" in fs
    return True


def driver_args(ex):
    r = ex.get("rot", {})
    return ["rot", "trace", "1" if r.get("advancesFromSchedule") else "0", str(r.get("minLimit", 512)),
            "1" if r.get("deletesAllExcess") else "0"]


HARNESS = ("h3_rot", ["h3_rot.cpp"], ["-fno-access-control"])


def run(prop, tier):
    ck = vlib.Check(prop, tier, level="proof")
    ck.assumptions = [
        "the abstract file system (rename replaces the target, fails silently on a missing source; fopen w truncates, a keeps) renders POSIX for the calls the sink makes; fopen/rename/remove failures are not injected",
        "theorems: naming scheme and base file name fixed for the life of a directory, a base name whose rotated files the start-up scan can see (non-empty extension: `scanSees_rotated`; the others are finding F28, reproduced by the model through `restartBlind`), FilenameAppendOption::None, one size per statement (FileSink). The harness additionally drives, with the property oracle only: restarts that change the naming scheme, RotatingJsonFileSink (F30), the FilenameAppendOptions (F29: the name carries the wall-clock date)",
        "std::filesystem resolves every spelling of the directory (relative, ./, x/../x, symlink, trailing /.) to the same directory; the model has no spelling parameter — that the sink's recovery and rotation do not depend on it is tested by the harness (op parameter sp=, ignored by the driver), not proved",
        "timestamps are natural numbers of nanoseconds (no uint64 wrap); the zone is a constant UTC offset in the theorems (mktime = local seconds − offset)",
        "names are structured values (suffix, index) in the invariants; their rendering for any base file name (extract_stem_and_extension, _append_string/_index_to_filename, _get_filename) is part of the model (Rot/Render.lean), proved injective on the names of one scheme for every base name given an injective, dot-free suffix rendering (`C14_render_injective`), and every listing / _created_files entry is compared as a rendered string; the calendar strings %Y%m%d[_%H%M%S] are proved dot-free and injective from the epoch on (`renderSfx_inj`, via the C13 civil round trip) and compared with the real sink's by the harness",
    ]
    ps = ck.proof_side(MODULES[prop], THEOREMS[prop], OBLIG[prop])
    ex = ck.extracted
    for b in ps["broken"]:
        ck.log("PROOF SIDE BROKEN: " + b)
    ok, hbin, log = vlib.build_harness(*HARNESS[:2], extra_flags=HARNESS[2])
    if not ok:
        ck.violation("harness_build", log, "harness h3_rot no longer compiles against the current tree (correspondence broken): " + log[-300:], no_input=True)
        return ck.finish()

    ncases, nops = (45, 40) if tier == "quick" else (500, 60)
    seeds = [ck.seed] if tier == "quick" else [ck.seed, ck.seed + 1000, ck.seed + 2000]
    st = dict(lines=0, cases=0, nontrivial=0, skipped_dst=0, mism=[], hits=[], known_hits={}, ignored_other_prop=0, samples=[], stats=[], stats_full=[],
              kinds={}, totals={})
    known = {f["id"]: f for f in vlib.known_findings(prop)}

    def process(text, label):
        cases, tail = split_cases(text)
        for t in tail:
            st["stats"].append(label + ": " + t[:1500])
            st["stats_full"].append(t)
        rc, dout = vlib.driver(driver_args(ex), stdin_data=text.encode())
        by_id = {c[0].split()[1]: c for c in cases}
        kind_of = {c[0].split()[1]: c[0].split()[4] for c in cases}
        if rc not in (0, 1) or "DONE" not in dout:
            st["mism"].append((label, "DRIVER-FAILED rc=%d %s" % (rc, dout[-300:]), None))
        for ln in dout.split("\n"):
            if ln.startswith("TRACE "):
                kv = dict(x.split("=") for x in ln.split()[2:])
                st["cases"] += 1
                st["kinds"][kv["kind"]] = st["kinds"].get(kv["kind"], 0) + 1
                if kv["skipped"] == "1":
                    st["skipped_dst"] += 1
                    continue
                for k in ("writes", "timerot", "sizerot", "emptyskip", "stopped", "deletions", "restarts", "gaps", "bumps"):
                    st["totals"][k] = st["totals"].get(k, 0) + int(kv[k])
                if prop == "C14":
                    nt = int(kv["sizerot"]) >= 2 and (int(kv["deletions"]) + int(kv["stopped"])) >= 1 and int(kv["restarts"]) >= 2
                else:
                    nt = int(kv["timerot"]) >= 2 and int(kv["gaps"]) >= 1
                st["nontrivial"] += 1 if nt else 0
            elif ln.startswith("DONE"):
                m = re.search(r"lines=(\d+)", ln)
                st["lines"] += int(m.group(1)) if m else 0
            elif ln.startswith("MISMATCH"):
                m = re.search(r"case=(\S+) line=\d+ fields=(\S+)", ln)
                cid, fields = (m.group(1), m.group(2)) if m else ("?", "?")
                if relevant_mismatch(prop, kind_of.get(cid, "?"), fields):
                    st["mism"].append((label, ln[:700], by_id.get(cid)))
            elif ln.startswith(("BAD-OP", "NO-CASE", "NO-START")):
                st["mism"].append((label, ln[:300], None))
        for c in cases:
            for i, ln in enumerate(c):
                if not ln.startswith("ORACLE"):
                    continue
                if not belongs(prop, ln):
                    st["ignored_other_prop"] += 1
                    continue
                fid = classify(ln)
                if fid and fid in known:
                    st["known_hits"].setdefault(fid, []).append((label, ln))
                else:
                    st["hits"].append((label, ln, c, i, fid))
        if cases and len(st["samples"]) < 3:
            pick = [c for c in cases if len(c) > 6][:1] or cases[:1]
            st["samples"].append({"source": label, "trace": [x[:300] for x in pick[0][:8]]})

    cdir = os.path.join(vlib.VERIF, "corpus", prop)
    ncorpus = 0
    if os.path.isdir(cdir):
        for f in sorted(os.listdir(cdir)):
            rc, out = vlib.sh([hbin, "replay", os.path.join(cdir, f)], env=vlib.ASAN_ENV, timeout=300)
            if rc not in (0, 3):
                ck.violation("corpus_" + f, out[-3000:], "harness aborted on corpus case %s (rc=%d): sanitizer or crash" % (f, rc))
            process(out, "corpus/" + f)
            ncorpus += 1
    for sd in seeds:
        rc, out = vlib.sh([hbin, "gen", str(sd), str(ncases), str(nops), prop], env=vlib.ASAN_ENV, timeout=3000)
        if rc not in (0, 3):
            ck.violation("abort_seed%d" % sd, "h3_rot gen %d %d %d %s\n\n%s" % (sd, ncases, nops, prop, out[-4000:]),
                         "harness aborted (rc=%d): sanitizer report or crash while driving the real RotatingFileSink" % rc)
        process(out, "gen seed=%d" % sd)

    # proof side broken or correspondence lost, and no failing input yet: search harder before giving up
    if (ps["broken"] or st["mism"]) and not st["hits"] and tier == "quick":
        for sd in (ck.seed + 500, ck.seed + 501, ck.seed + 502):
            rc, out = vlib.sh([hbin, "gen", str(sd), "150", "60", prop], env=vlib.ASAN_ENV, timeout=3000)
            process(out, "gen (deeper search) seed=%d" % sd)
            if st["hits"]:
                break

    # ---- verdicts --------------------------------------------------------------------------------
    if st["hits"]:
        # prefer a hit outside every finding class; otherwise the first unlisted finding
        f9 = not ex.get("rot", {}).get("advancesFromSchedule", True)
        f18 = not ex.get("rot", {}).get("deletesAllExcess", True)
        st["hits"].sort(key=lambda h: (not ((f9 and "f9_daily_gap" in h[0]) or (f18 and "f18_lowered_max" in h[0])), h[4] is not None))
        label, ln, c, i, fid = st["hits"][0]
        content = "# %s\n# property oracle on the real code: %s\n# replay: python3 tools/check.py %s --replay <this file>\n%s" % (
            label, ln, prop, ops_only(c))
        what = ("finding %s (%s), not listed in known_findings.json" % (fid, FINDING_TEXT[fid])) if fid else "property fails on the real code"
        ck.violation("oracle" + ("_" + fid if fid else ""), content, "%s: %s (%d oracle hits in this run)" % (what, ln[:400], len(st["hits"])))
    if st["mism"] and not st["hits"]:
        label, ln, c = st["mism"][0]
        content = "# correspondence stream `rot` (harness h3_rot vs Lean driver) no longer agrees\n# %s\n# %s\n%s" % (
            label, ln, ops_only(c) if c else "")
        ck.violation("correspondence", content,
                     "model and implementation disagree (%d lines), no property oracle fired: %s" % (len(st["mism"]), ln[:400]), no_input=True)
    if ps["broken"] and not st["hits"] and not ck.violations:
        ck.violation("proof_broken", "theorems/obligations that no longer check:\n" + "\n".join(ps["broken"]) + "\n",
                     "proof side broken, no failing input found: " + ps["broken"][0][:300], no_input=True)
    for fid, lst in sorted(st["known_hits"].items()):
        ck.known("%s still reproduces (%d oracle hits, e.g. %s): %s" % (fid, len(lst), lst[0][1].split(" case=")[0].replace("ORACLE ", ""), known[fid].get("line", FINDING_TEXT[fid])))

    r = ex.get("rot", {})
    ck.cov.update({
        "evaluations": st["lines"],
        "traces_validated_against_impl": st["cases"] - st["skipped_dst"],
        "distinct_nontrivial": st["nontrivial"],
        "rule": ("one case = one scratch directory life (naming scheme, zone, planted files, ~%d operations: writes with sizes/timestamps built "
                 "relative to the sink state, restarts with new configurations); " % nops) +
                ("non-trivial iff it has >= 2 size rotations, a deletion or a stop at the backup limit, and >= 2 process starts"
                 if prop == "C14" else "non-trivial iff it has >= 2 time rotations and a gap of more than one period") +
                "; cases are distinct by construction (PRNG stream)",
        "samples": st["samples"],
        "corpus_cases": ncorpus,
        "case_kinds": st["kinds"],
        "path_spellings_of_starts": spellings(st["stats_full"]),
        "model_event_totals": st["totals"],
        "cases_skipped_by_driver_dst_zone": st["skipped_dst"],
        "harness_stats": st["stats"][-4:],
        "extracted": {"advancesFromSchedule": r.get("advancesFromSchedule"), "deletesAllExcess": r.get("deletesAllExcess"), "minLimit": r.get("minLimit"),
                      "facts_false": [k for k, v in r.get("sizeFacts" if prop == "C14" else "timeFacts", {}).items() if not v],
                      "facts": len(r.get("sizeFacts" if prop == "C14" else "timeFacts", {}))},
        "mismatching_lines": len(st["mism"]),
        "oracle_hits_unlisted": len(st["hits"]),
        "oracle_hits_known_classes": {k: len(v) for k, v in st["known_hits"].items()},
        "oracle_hits_of_other_property_ignored": st["ignored_other_prop"],
    })
    return ck.finish()


def replay(prop, path):
    ok, hbin, log = vlib.build_harness(*HARNESS[:2], extra_flags=HARNESS[2])
    if not ok:
        print(log)
        return 2
    ex = vlib.run_extract()
    rc, out = vlib.sh([hbin, "replay", path], env=vlib.ASAN_ENV)
    print(out)
    rc2, dout = vlib.driver(driver_args(ex), stdin_data=out.encode())
    print(dout)
    known = {f["id"] for f in vlib.known_findings(prop)}
    bad = [l for l in out.split("\n") if l.startswith("ORACLE") and belongs(prop, l) and classify(l) not in known]
    return 1 if bad or rc not in (0, 3) else 0
