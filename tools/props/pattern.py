"""C12 (sink line = pattern with every attribute substituted; multi-line; rejection; MacroMetadata; runtime metadata).
Proof: Props/C12.lean + Obligations/Pattern.lean. Tie: extraction of the attribute tables / scanner facts / accessors /
multi-line guard / separator + harness H3 (real PatternFormatter, real backend dispatch through ManualBackendWorker)
vs the Lean driver `pattern`, with an independent reference substitution as oracle."""
import os
import re

import vlib

PROPS = ["C12"]

MANIFEST = {
    "C12": dict(
        technique="Lean 4 proof: two-stage implementation (rewrite to an fmt string + slot table, then a model of fmt's vformat and string specs) equals direct substitution, by induction over the pattern; loop/`splitOn` equivalence for multi-line; extraction of the attribute tables; differential correspondence on the real PatternFormatter and backend with an independent reference oracle",
        text="Machine-checked proof (Lean 4) that for every pattern that is a list of literal chunks and %(attr[:spec]) fields (each attribute at most once, specs [[fill]align][width][.precision], any literal text free of '%(' and of braces) and every attribute valuation, the model of PatternFormatter (in-place rewrite to '{:spec}', order_index slots, lazily filled arguments, fmt's parse_format_string / parse_format_specs / write_padded for strings) returns the direct substitution plus a newline; that this holds for every call of a sequence of calls through one formatter instance (the _args member persists between calls: the outcome of a call is proved independent of the calls handled before, so %(time) is the timestamp formatter's text for the statement's own timestamp — the first call, repeated timestamps and timestamp 0 included; the variant that refreshes the time slot only when the timestamp differs from a remembered one initialised to 0 is refuted by a decided witness); that the constructor accepts every such pattern and throws exactly at the first field with an unknown name or without a closing parenthesis; that the multi-line loop yields msg.splitOn('\\n') after removing at most one trailing newline (option on, no named args) and one statement otherwise; that the pattern a sink's line is formatted with is the sink's override pattern if it has one, else its logger's, in every state of the backend's formatter cache (which loggers were dispatched first, which loggers share one formatter because their options are equal) — the variant that creates the override formatters only where a logger's formatter is created is refuted by a decided two-logger history; that MacroMetadata's file name / line / full path / short location are the expected pieces of 'dir/base:line'; and that the runtime-metadata split recovers message, file:line and function. Literal braces (finding F7) are outside the theorem: the negation of the unrestricted statement is proved with the witness '%(message) {lit}'. Tied to the code by extracting the five attribute tables, 30 structural facts, the default pattern and the separator and re-proving by `decide` that they are the model's, and by running the real PatternFormatter / ManualBackendWorker on generated patterns, values and messages (malformed stream included; timestamp sequences 0,0,t,0 / t,t,t' / decreasing through one formatter with %(time) with and without width/alignment, every call observed as the last call of a fresh formatter; cases with two or three loggers with equal and different options, sinks with and without override pattern, some attached to two loggers, calls in every order of first use) and diffing every returned line, error kind and sink statement against the model, while an independent C++ reference substitution judges the property itself.",
        note="fmt's width is modelled for ASCII only; spec types s/?/p and dynamic width are outside the modelled subset (reported as unsupported, not compared); the empty pattern formats to the empty string (documented special case); with named arguments a message is never split (pinned by quill's own tests). Finding F7 (brace in literal pattern text) is a known-finding candidate.",
        ref="§5 C12, §7 F7"),
}

THEOREMS = [
    "Pattern.C12_format_eq_substitution_partial", "Pattern.C12_full_statement_false", "Pattern.C12_empty_pattern",
    "Pattern.F7_brace_literal_throws", "Pattern.F7_double_brace_collapses", "Pattern.F7_empty_braces_steal_slot",
    "Pattern.C12_accepts", "Pattern.C12_rejects_unterminated", "Pattern.C12_rejects_unknown",
    "Pattern.C12_rejects_unknown_with_spec", "Pattern.C12_constructor_error_kinds", "Pattern.generate_never_fuel",
    "Pattern.duplicate_attribute_throws", "Pattern.C12_duplicate_attribute_always_throws",
    "Pattern.C12_multiline_on", "Pattern.C12_multiline_off", "Pattern.multiline_named_args_not_split",
    "Pattern.C12_statements_partial", "Pattern.C12_metadata_views", "Pattern.joinNamed_eq",
    "Pattern.C12_runtime_metadata", "Pattern.C12_runtime_metadata_views",
    "Pattern.C12_call_independent_of_earlier_calls", "Pattern.C12_every_call_eq_substitution_partial",
    "Pattern.C12_time_function_of_timestamp", "Pattern.C12_first_call_timestamp_zero", "Pattern.C12_memoised_time_fails",
    "Pattern.fill_persist", "Pattern.run_false", "Pattern.formatCalls_eq",
    "Pattern.C12_sink_pattern_rule", "Pattern.C12_sink_pattern_independent_of_history", "Pattern.C12_sink_lines",
    "Pattern.C12_override_hoisted_fails", "Pattern.dispatch1_pinned", "Pattern.runHistory_pinned",
    "Pattern.parseSpec_print", "Pattern.generate_items", "Pattern.vfmt_items", "Pattern.fillArgs_get",
    "Pattern.multiLine_eq_splitOn",
    "Obligations.pattern_extraction_complete", "Obligations.pattern_enum", "Obligations.pattern_arg_names",
    "Obligations.pattern_attr_map", "Obligations.pattern_set_arg_seq", "Obligations.pattern_format_seq",
    "Obligations.pattern_scanner_facts", "Obligations.pattern_metadata_facts", "Obligations.pattern_backend_facts",
    "Obligations.pattern_magic_separator", "Obligations.pattern_default_is_wellformed",
    "Obligations.C12_default_pattern_extracted",
]
MODULES = ["QuillModel.Props.C12"]
OBLIG = ["QuillModel.Obligations.Pattern"]

# finding classes this check recognises by input class (DESIGN §7). Until the coordinator lists F7 in
# known_findings.json the candidate below is reported as KNOWN-FINDING (exit 0); a `fixed` entry turns it back into a violation.
CANDIDATE_FINDINGS = {
    "F7": dict(oracle_class="brace-literal", key="brace in literal pattern text"),
}


def unx(t):
    try:
        return bytes.fromhex(t[1:]).decode("latin1") if t.startswith("x") else t
    except ValueError:
        return t


def kv_of(line):
    d = {}
    for w in line.split(" => ")[0].split()[1:]:
        if "=" in w:
            k, v = w.split("=", 1)
            d[k] = v
    return d


def brace_in_literal(pattern):
    """independent re-check of the input class: a `{` or `}` outside every %(...) field"""
    i, n = 0, len(pattern)
    while i < n:
        if pattern.startswith("%(", i):
            j = pattern.find(")", i + 2)
            if j < 0:
                return False
            i = j + 1
            continue
        if pattern[i] in "{}":
            return True
        i += 1
    return False


def f7_status():
    """'known' | 'fixed' | 'candidate'"""
    import json
    p = os.path.join(vlib.VERIF, "known_findings.json")
    try:
        data = json.load(open(p))
    except (OSError, ValueError):
        return "candidate"
    for f in data.get("findings", []):
        if f.get("id") == "F7" and f.get("property") == "C12":
            return "known" if f.get("status") == "known" else "fixed"
    return "candidate"


class Acc:
    def __init__(self):
        self.cases = 0
        self.mismatches = []       # (label, driver line, case line)
        self.oracle_known = []     # (label, oracle line, case line)
        self.oracle_other = []
        self.notes = 0
        self.unsupported = 0
        self.out_of_model = 0
        self.distinct = set()
        self.nontrivial = set()
        self.stats = {}
        self.done = []
        self.samples = []
        self.aborts = []


def process(acc, label, out, f7):
    """harness output -> driver -> classify"""
    lines = out.split("\n")
    case_lines = []
    prev_case = None
    for ln in lines:
        if ln.startswith(("fmt ", "be ", "mb ")):
            case_lines.append(ln)
            prev_case = ln
            acc.cases += 1
            kv = kv_of(ln)
            key = ln.split(" => ")[0]
            acc.distinct.add(hash(key))
            pat = unx(kv.get("p", "x"))
            nfields = pat.count("%(")
            obs = ln.split(" => ")[1] if " => " in ln else ""
            if ln.startswith("fmt "):
                if nfields >= 2 and ":" in pat and obs.startswith("line "):
                    acc.nontrivial.add(hash(key))
            elif ln.startswith("mb "):
                # several loggers of which two have equal options, and a sink with an override pattern
                lg = [x.split(":", 1)[1] for x in kv.get("loggers", "").split(",") if ":" in x]
                if len(set(lg)) < len(lg) and re.search(r"(^|,)[01]:x", kv.get("sinks", "")):
                    acc.nontrivial.add(hash(key))
            else:
                m = re.search(r" n=(\d+)", obs)
                if m and int(m.group(1)) >= 2 and nfields >= 1:
                    acc.nontrivial.add(hash(key))
            if len(acc.samples) < 4 and nfields >= 3 and obs.startswith("line ") and len(ln) < 1500:
                acc.samples.append({"source": label, "pattern": pat, "message": unx(kv.get("msg", "x")),
                                    "line": unx(obs[5:])})
        elif ln.startswith("ORACLE "):
            cls = ln.split()[1]
            pat = unx(kv_of(prev_case).get("p", "x")) if prev_case else ""
            if cls == CANDIDATE_FINDINGS["F7"]["oracle_class"] and brace_in_literal(pat) and f7 in ("known", "candidate"):
                acc.oracle_known.append((label, ln, prev_case))
            else:
                acc.oracle_other.append((label, ln, prev_case))
        elif ln.startswith("NOTE "):
            acc.notes += 1
        elif ln.startswith("STATS"):
            for w in ln.split()[1:]:
                k, v = w.split("=")
                acc.stats[k] = acc.stats.get(k, 0) + int(v)
    rc, dout = vlib.driver(["pattern", "check"], stdin_data=("\n".join(case_lines) + "\n").encode(), timeout=3000)
    for ln in dout.split("\n"):
        if ln.startswith("MISMATCH"):
            m = re.search(r"line=(\d+)", ln)
            idx = int(m.group(1)) - 1 if m else -1
            acc.mismatches.append((label, ln, case_lines[idx] if 0 <= idx < len(case_lines) else ""))
        elif ln.startswith("UNSUPPORTED"):
            acc.unsupported += 1
        elif ln.startswith("OUT-OF-MODEL"):
            acc.out_of_model += 1
        elif ln.startswith("DONE"):
            acc.done.append(label + ": " + ln)
    if rc not in (0, 1) or not any(l.startswith("DONE") for l in dout.split("\n")):
        acc.mismatches.append((label, "driver failed rc=%d: %s" % (rc, dout[-300:]), ""))


def replay_text(label, oracle_or_mismatch, case_line, prop):
    return "# %s\n# %s\n# replay: python3 tools/check.py %s --replay <this file>\n%s\n" % (
        label, oracle_or_mismatch[:1500], prop, (case_line or "").split(" => ")[0])


def run(prop, tier):
    ck = vlib.Check(prop, tier, level="proof")
    ck.assumptions = [
        "the model of fmt (parse_format_string, parse_replacement_field, parse_format_specs for string arguments, write_padded) renders the bundled fmt for ASCII text and the spec subset [[fill]align][width][.precision]; spec types s/?/p and dynamic width/precision are reported as unsupported and not compared",
        "attribute values are byte strings without NUL; the time attribute is whatever TimestampFormatter returns for the statement's own timestamp (C13's subject): the reference is a fresh TimestampFormatter per text, the model takes the text as a function tf of the timestamp",
        "source locations have the form path:line with fewer than 65536 bytes (MacroMetadata stores uint16_t offsets)",
        "patterns have at most sixteen fields (more is undefined behaviour in the constructor: _args written out of bounds)",
    ]
    ps = ck.proof_side(MODULES, THEOREMS, OBLIG)
    for b in ps["broken"]:
        ck.log("PROOF SIDE BROKEN: " + b)

    ok, hbin, log = vlib.build_harness("h3_pattern", ["h3_pattern.cpp"])
    if not ok:
        ck.violation("harness_build", log, "harness h3_pattern no longer compiles against the current tree (correspondence broken): " + log[-300:], no_input=True)
        return ck.finish()

    f7 = f7_status()
    acc = Acc()

    cdir = os.path.join(vlib.VERIF, "corpus", prop)
    ncorpus = 0
    if os.path.isdir(cdir):
        for f in sorted(os.listdir(cdir)):
            rc, out = vlib.sh([hbin, "replay", os.path.join(cdir, f)], env=vlib.ASAN_ENV, timeout=600)
            if rc not in (0, 3):
                ck.violation("corpus_" + f, out[-3000:], "harness aborted on corpus case %s (rc=%d): sanitizer or crash" % (f, rc))
            process(acc, "corpus/" + f, out, f7)
            ncorpus += 1

    if tier == "quick":
        plan = [(ck.seed, 20000, 2500, False)]
    else:
        plan = [(ck.seed, 60000, 6000, True), (ck.seed + 1000, 60000, 6000, False), (ck.seed + 2000, 60000, 6000, False)]
    for sd, nfmt, nbe, exh in plan:
        args = [hbin, "gen", str(sd), str(nfmt), str(nbe)] + (["exh"] if exh else [])
        rc, out = vlib.sh(args, env=vlib.ASAN_ENV, timeout=3000)
        if rc not in (0, 3):
            ck.violation("abort_seed%d" % sd, "%s\n\n%s" % (" ".join(args[1:]), out[-4000:]),
                         "harness aborted (rc=%d): sanitizer report or crash while driving the real PatternFormatter / backend" % rc)
        process(acc, "gen seed=%d" % sd, out, f7)

    # ---- verdicts -------------------------------------------------------------------------------
    if acc.oracle_other:
        label, ln, case = acc.oracle_other[0]
        ck.violation("oracle", replay_text(label, ln, case, prop),
                     "property fails on the real code: %s (%d oracle hits outside the known classes in this run)" % (ln[:300], len(acc.oracle_other)))
    need_search = (acc.mismatches or ps["broken"]) and not acc.oracle_other
    if need_search:
        # search harder: a deeper generated stream judged by the independent reference on the real code
        found = None
        for sd in (ck.seed + 7, ck.seed + 77):
            rc, out = vlib.sh([hbin, "gen", str(sd), "40000", "4000"], env=vlib.ASAN_ENV, timeout=3000)
            a2 = Acc()
            process(a2, "search seed=%d" % sd, out, f7)
            if a2.oracle_other:
                found = a2.oracle_other[0]
                break
        if found:
            label, ln, case = found
            ck.violation("search", replay_text(label, ln, case, prop),
                         "%s; a failing input was found by the deeper search: %s" % (
                             ("proof obligation broken (%s)" % ps["broken"][0][:200]) if ps["broken"] else "model and implementation disagree", ln[:300]))
        elif acc.mismatches:
            label, ln, case = acc.mismatches[0]
            ck.violation("correspondence", replay_text(label, ln, case, prop),
                         "correspondence stream `pattern` (harness h3_pattern vs Lean driver) no longer agrees (%d lines), the reference oracle did not fire: %s" % (
                             len(acc.mismatches), ln[:300]), no_input=True)
        else:
            ck.violation("proof_broken", "theorems/obligations that no longer check:\n" + "\n".join(ps["broken"]) + "\n",
                         "proof side broken, no failing input found: " + ps["broken"][0][:300], no_input=True)
    if acc.oracle_known:
        label, ln, case = acc.oracle_known[0]
        pat = unx(kv_of(case).get("p", "x")) if case else "?"
        got = ln.split(" got=")[-1][:40] if " got=" in ln else ln.split(" got ")[-1][:40]
        ck.known("F7 %s: literal '{'/'}' of the format pattern are handed to fmt (%d cases in this run; e.g. pattern %r -> %s); replay=corpus/C12/f7_brace_literal.txt%s" % (
            CANDIDATE_FINDINGS["F7"]["key"], len(acc.oracle_known), pat[:60], got,
            "" if f7 == "known" else " [candidate: not yet listed in known_findings.json]"))
    elif f7 in ("known", "candidate") and not ck.violations:
        ck.notes.append("F7 witness did not reproduce in this run")

    ck.cov.update({
        "evaluations": acc.cases,
        "traces_validated_against_impl": acc.cases - acc.unsupported - acc.out_of_model,
        "distinct_nontrivial": len(acc.nontrivial),
        "distinct_cases": len(acc.distinct),
        "rule": "one case = one (pattern, attribute values, timestamps of the earlier calls) triple: a freshly constructed real PatternFormatter "
                "(or, mb, one set-up of 2-3 loggers and 1-4 sinks with a call order, non-trivial iff two loggers have equal options and a sink has an override) "
                "handles the earlier calls (decoy values) and then the observed one; or one log call "
                "(pattern, option, kind, message) through the real backend; non-trivial iff (fmt) the pattern has >= 2 fields, a spec and "
                "formats to a line, or (be) the call yields >= 2 statements through a pattern with a field; distinct by full input text",
        "samples": acc.samples,
        "corpus_cases": ncorpus,
        "harness_distribution": acc.stats,
        "driver_totals": acc.done,
        "unsupported_not_compared": acc.unsupported,
        "out_of_model": acc.out_of_model,
        "mismatching_lines": len(acc.mismatches),
        "oracle_hits_known_class": len(acc.oracle_known),
        "oracle_hits_other": len(acc.oracle_other),
        "notes_named_args_not_split": acc.notes,
        "f7_status": f7,
        "extracted": {k: v for k, v in ck.extracted.get("pattern", {}).items() if not isinstance(v, list) or len(v) <= 3},
    })
    return ck.finish()


def replay(prop, path):
    ok, hbin, log = vlib.build_harness("h3_pattern", ["h3_pattern.cpp"])
    if not ok:
        print(log)
        return 2
    vlib.run_extract()
    vlib.lake_build(["driver"])
    rc, out = vlib.sh([hbin, "replay", path], env=vlib.ASAN_ENV)
    print(out)
    acc = Acc()
    f7 = f7_status()
    process(acc, "replay", out, f7)
    for _, ln, _ in acc.mismatches:
        print(ln)
    for d in acc.done:
        print(d)
    if acc.oracle_known:
        print("KNOWN-FINDING: property=%s F7 %s (%d oracle lines)" % (prop, CANDIDATE_FINDINGS["F7"]["key"], len(acc.oracle_known)))
    return 1 if acc.oracle_other or acc.mismatches or rc not in (0, 3) else 0
