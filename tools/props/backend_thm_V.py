"""Stream-sink bundle: the sink's half of C06 — after flush_sink() returns, everything written to the sink so far can be read
from the file, for every sequence of write_log (with or without a before_write callback) / flush_sink / run_periodic_tasks,
given that every writing path of StreamSink::write_log sets the dirty flag (extracted).
Model FileSink/Model.lean, theorems Props/C06Sink.lean, obligations Obligations/FileSink.lean (extraction
tools/extractors/filesink.py); correspondence stream tools/filesink_stream.py (harness h3_filesink, driver `filesink`)."""
THEOREMS = {"C06": ["FileSink.C06_sink_flush_makes_readable", "FileSink.C06_sink_readable_after_flush", "FileSink.C06_sink_conservation",
                    "FileSink.C06_sink_hook_path_forgets_flag", "FileSink.C06_sink_plain_path_forgets_flag",
                    "FileSink.sinv_step", "FileSink.dirty_step",
                    "Obligations.filesink_extraction_complete", "Obligations.filesink_params_ok", "Obligations.filesink_structure",
                    "Obligations.C06_sink_flush_makes_readable_extracted"]}
MODULES = {"C06": ["QuillModel.Props.C06Sink"]}
OBLIG = ["QuillModel.Obligations.FileSink"]
OBLIG_BY_PROP = {"C06": ["QuillModel.Obligations.FileSink"]}
