"""Fault bundle Y (w2_faults): the backend machine with fault KINDS (std::exception with text / with EMPTY text / not a
std::exception), sinks whose override pattern cannot be built, and exceptions that escape the read pass (throwing decoder of a
user-defined type). Model lean/QuillModel/Backend/Fault.lean (what `driver backend trace` replays), theorems Props/Faults.lean,
extraction tools/extractors/faults.py -> Obligations/Faults.lean."""
_LOCAL = ["Backend.C10_write_fault_kind", "Backend.C10_fault_reported_kind", "Backend.C10_flush_fault_reported_kind",
          "Backend.C10_empty_text_lost_without_notifyAlways", "Backend.C10_pattern_fault_local", "Backend.C16_rejecting_sink_absent",
          "Backend.writeToSinksF_append", "Backend.processLowestF_pop",
          "Backend.C10_pattern_fault_in_loop_witness", "Backend.C10_hoisted_pattern_creation_violates",
          "Backend.C10_empty_text_reported_witness", "Backend.C10_report_if_nonempty_violates",
          "Obligations.faults_extraction_complete", "Obligations.override_formatter_created_in_loop_after_filter",
          "Obligations.process_handlers_notify_unconditionally", "Obligations.C10_fault_reported_kind_extracted",
          "Obligations.C16_dispatch_is_loop_extracted"]
_ABORT = ["Backend.C05_aborted_poll_is_the_pass", "Backend.C05_aborted_poll_keeps_order_witness", "Backend.C05_catch_per_queue_violates",
          "Obligations.read_pass_has_no_catch", "Obligations.C05_aborted_poll_extracted"]
THEOREMS = {"C10": _LOCAL, "C16": ["Backend.C10_pattern_fault_local", "Backend.C16_rejecting_sink_absent",
                                   "Backend.C10_hoisted_pattern_creation_violates", "Obligations.override_formatter_created_in_loop_after_filter",
                                   "Obligations.C16_dispatch_is_loop_extracted"],
            "C05": _ABORT, "C03": ["Backend.C05_aborted_poll_is_the_pass", "Obligations.read_pass_has_no_catch"]}
MODULES = {p: ["QuillModel.Props.Faults"] for p in THEOREMS}
OBLIG = ["QuillModel.Obligations.Faults"]
OBLIG_BY_PROP = {p: ["QuillModel.Obligations.Faults"] for p in THEOREMS}
