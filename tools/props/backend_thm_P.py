"""C16 also rests on the pattern bundle's rule for per-sink override patterns (which pattern a sink's line is formatted with):
theorem + extraction obligation, audited under C16 as well (own obligation module)."""
THEOREMS = {"C16": ["Pattern.C12_sink_pattern_rule", "Pattern.C12_sink_pattern_independent_of_history",
                    "Obligations.sink_override_on_write_path", "Obligations.C16_sink_pattern_extracted"]}
MODULES = {"C16": ["QuillModel.Props.C12"]}
OBLIG = ["QuillModel.Obligations.SinkOverridePattern"]
OBLIG_BY_PROP = {"C16": ["QuillModel.Obligations.SinkOverridePattern"]}
