"""Proof bundle U: C05 on the unbounded queue — the backend's read of one unbounded frontend queue
(`_read_unbounded_frontend_queue`, finding F25) is complete: "nothing" only when the whole chain of buffers is drained.
Model: lean/QuillModel/Uspsc/ReadPass.lean on top of the C02 chain model."""
THEOREMS = {
    "C05": ["Uspsc.C05_unbounded_read_complete", "Uspsc.C05_unbounded_read_is_next_record",
            "Uspsc.C05_unbounded_read_incomplete_without_follow", "Uspsc.C05_unbounded_read_follows",
            "Uspsc.f25_reachable", "Uspsc.apiRead_spec", "Uspsc.prepareRead_spec",
            "Obligations.unbounded_read_follows", "Obligations.C05_unbounded_read_complete_extracted",
            "Obligations.f25_read_extracted"],
}
MODULES = {"C05": ["QuillModel.Props.C05Unbounded"]}
OBLIG = ["QuillModel.Obligations.UnboundedRead"]
