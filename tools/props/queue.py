"""C01 (bounded SPSC: exactly once, in order, intact, no overwrite) and C09 queue level (no stall on a drained
queue). Proof: Props/C01.lean, Props/C09.lean + Obligations/Queue.lean. Tie: extraction of the memory orders /
drain rule + harness H1 (real BoundedSPSCQueueImpl<uint8_t|uint16_t|size_t> under the atomic shim) vs the Lean driver."""
import os
import re

import vlib

PROPS = ["C01", "C09"]

MANIFEST = {
    "C01": dict(
        technique="Lean 4 proof: inductive invariant over all schedules and stale loads (view semantics) + wrap-around refinement; extraction of memory orders; differential correspondence under an atomic shim",
        text="Machine-checked proof (Lean 4) that in every state reachable by any interleaving and any legal stale atomic load, every enabled producer/consumer step of the bounded queue is safe (no torn/early/overwritten byte, records contiguous, FIFO exactly-once), for every capacity, batch threshold, publication policy and size sequence, and that the 2^w-modular arithmetic of the C++ refines the free-running model through any number of wraps. Tied to the code by (1) extracting the four memory orders from the header and re-proving OrdersOK for them, (2) running the real BoundedSPSCQueueImpl<uint8_t|uint16_t|size_t> under an atomic shim with the same schedules as the Lean model and diffing every observation, (3) a happens-before race detector and payload/FIFO oracle on the real code.",
        note="Assumes the store-history view semantics renders C++11 release/acquire for single-writer atomics; QUILL_X86ARCH cache-flush intrinsics not modelled.",
        ref="§5 C01, Appendix A.1"),
    "C09": dict(
        technique="Lean 4 proof: progress lemma on the queue invariant (drained queue publishes, reload grants any n ≤ capacity); extraction of the drain rule; differential correspondence + drained-state probes on the real queue",
        text="Machine-checked proof that in every reachable drained state commit_read publishes the reader position and a producer reload of the newest value is followed by a grant for every 0 < n ≤ capacity (so no stall on an empty queue), plus a proved counter-witness for the batching-only rule of the pinned tree (finding F3, repaired by a fix: commit). Tied to the code by extracting the drain rule from commit_read, by differential execution of the real queue against the model (every grant/deny and every publication compared) and by probing every drained state the generator reaches with boundary sizes. The end-to-end retry loop is covered by the backend checks.",
        note="End to end on the backend model (prover bundle B, audited by this check): C09_drain_publishes (after quiet polls past the grace period the caller's context is drained AND its reader position published), C09_blocked_call_resumes (a call parked on the retry of a refused reservation that fits the capacity is granted at its next retry: the statement is appended to the accepted history and the call returns ret=1), C09_call_after_drain_accepted (a new call after the drain is accepted on either queue type, never dropped), C09_drain_rule_needed (decide: without the publish-when-drained rule, F3, the retry is refused for ever on an empty queue); C09_reads_committed (every reachable state, arbitrary injections: a context with nothing left to read has its reader position published, so no hypothesis on the prefix schedule is left). Queue level in this check; 'finitely many polls' relies on the fairness assumption that a store eventually becomes visible to an acquire load.",
        ref="§5 C09, §7 F3"),
}

THEOREMS = {
    "C01": ["Spsc.C01_reachable_safe", "Spsc.C01_fifo", "Spsc.C01_trace_fifo", "Spsc.C01_grant_fits", "Spsc.C01_wrap", "Spsc.wrap_refines",
            "Spsc.step_inv", "Spsc.step_safe", "Spsc.weak_wLoad_unsafe", "Spsc.weak_rLoad_unsafe",
            "Obligations.bounded_orders_ok", "Obligations.extraction_complete", "Obligations.C01_extracted"],
    "C09": ["Spsc.C09_drained_grants", "Spsc.drained_grants_of_inv", "Spsc.C09_batch_only_stalls",
            "Uspsc.C02_null_means_at_max_partial", "Uspsc.C02_alloc_within_cap", "Uspsc.C02_throw_iff",
            "Obligations.bounded_orders_ok", "Obligations.bounded_drain_publish", "Obligations.extraction_complete",
            "Obligations.C09_extracted"],
}
MODULES = {"C01": ["QuillModel.Props.C01"], "C09": ["QuillModel.Props.C09", "QuillModel.Props.C02"]}
OBLIG = ["QuillModel.Obligations.Queue"]
OBLIG_BY_PROP = {"C01": list(OBLIG), "C09": list(OBLIG)}
# C09 end to end on the backend model (a blocked log call resumes once the backend drained its queue; a call after the drain
# is accepted, never dropped): theorems of prover bundle B, picked up when that bundle lists them
try:
    import importlib
    _bB = importlib.import_module("props.backend_thm_B")
    if getattr(_bB, "THEOREMS", {}).get("C09"):
        THEOREMS["C09"] = THEOREMS["C09"] + list(_bB.THEOREMS["C09"])
        MODULES["C09"] = MODULES["C09"] + list(_bB.MODULES.get("C09", []))
        OBLIG_BY_PROP["C09"] = OBLIG_BY_PROP["C09"] + list((getattr(_bB, "OBLIG_BY_PROP", None) or {}).get("C09", getattr(_bB, "OBLIG", [])))
except Exception:  # the queue-level theorems stand on their own
    pass
# C09 for the unbounded queue inside the backend model (bundle X: refused at the maximum capacity, granted after the drain)
try:
    _bX = importlib.import_module("props.backend_thm_X")
    THEOREMS["C09"] = THEOREMS["C09"] + list(_bX.THEOREMS.get("C09", []))
    MODULES["C09"] = MODULES["C09"] + [m for m in _bX.MODULES.get("C09", []) if m not in MODULES["C09"]]
except Exception:
    pass

# bundle M (tools/props/math_thm_M.py): MathUtilities.h + what the bounded constructor makes of a requested capacity, attached to C01
import props.math_thm_M as _mM
_mM.attach("C01", THEOREMS["C01"], MODULES["C01"], OBLIG_BY_PROP["C01"])

# which ORACLE lines belong to which property
C09_ORACLES = ("drained-queue-refuses",)


def oracle_belongs(prop, line):
    is9 = any(k in line for k in C09_ORACLES)
    return is9 if prop == "C09" else not is9


def params_args(ex):
    b = ex["bounded"]
    return [b["wStore"], b["wLoad"], b["rStore"], b["rLoad"], "1" if b["drainPublish"] else "0"]


def split_traces(text):
    """harness output -> list of (id, [lines]) ; tail lines (ORDERS-SEEN, STATS) returned separately"""
    traces, cur, tail = [], None, []
    for ln in text.split("\n"):
        if ln.startswith("init "):
            cur = [ln]
            traces.append(cur)
        elif ln.startswith("ORDERS-SEEN") or ln.startswith("STATS"):
            tail.append(ln)
        elif cur is not None and ln.strip():
            cur.append(ln)
    return traces, tail


def ops_only(lines, upto=None):
    out = []
    for ln in lines[:upto]:
        if ln.startswith("ORACLE"):
            continue
        out.append(ln.split(" => ")[0])
    return "\n".join(out) + "\n"


def run(prop, tier):
    ck = vlib.Check(prop, tier, level="proof")
    ck.assumptions = [
        "view semantics for single-writer atomics (a load returns any store not older than the last one observed; acquire-of-release synchronises) renders the C++11 memory model for this code",
        "each queue member function performs at most one cross-thread atomic access, so API-call granularity + stale loads covers every interleaving (the shim counts accesses per call)",
        "QUILL_X86ARCH cache-line flush intrinsics are not modelled",
    ]
    ps = ck.proof_side(MODULES[prop], THEOREMS[prop], OBLIG_BY_PROP[prop])
    ex = ck.extracted
    pargs = params_args(ex)
    for b in ps["broken"]:
        ck.log("PROOF SIDE BROKEN: " + b)

    ok, hbin, log = vlib.build_harness("h1_spsc", ["h1_spsc.cpp"], extra_flags=["-fno-access-control"])
    if not ok:
        ck.violation("harness_build", log, "harness h1_spsc no longer compiles against the current tree (correspondence broken): " + log[-300:], no_input=True)
        return ck.finish()

    ntr, nops = (150, 250) if tier == "quick" else (1500, 400)
    seeds = [ck.seed] if tier == "quick" else [ck.seed, ck.seed + 1000, ck.seed + 2000]
    total_lines = 0
    nontrivial = 0
    traces_total = 0
    mismatches = []
    oracle_hits = []
    samples = []
    orders_seen = None
    stats_lines = []

    def process(text, label):
        nonlocal total_lines, nontrivial, traces_total, orders_seen
        traces, tail = split_traces(text)
        for t in tail:
            if t.startswith("ORDERS-SEEN"):
                orders_seen = t.split()[1:]
            if t.startswith("STATS"):
                stats_lines.append(label + ": " + t)
        rc, dout = vlib.driver(["spsc", "trace" if prop == "C09" else "anypub"], stdin_data=text.encode())
        by_id = {tr[0].split()[1]: tr for tr in traces}
        for ln in dout.split("\n"):
            if ln.startswith("TRACE "):
                traces_total += 1
                kv = dict(x.split("=") for x in ln.split()[2:])
                total_lines += int(kv["lines"])
                if int(kv["denies"]) > 0 and int(kv["stale"]) > 0 and int(kv["physwraps"]) > 0 and int(kv["reads"]) > 0:
                    nontrivial += 1
            elif ln.startswith(("MISMATCH", "MODEL-", "BAD-", "NO-INIT")):
                if prop == "C09" and ln.startswith("MODEL-UNSAFE"):
                    continue  # happens-before safety is C01's subject
                mismatches.append((label, ln, by_id))
        for tr in traces:
            for i, ln in enumerate(tr):
                if ln.startswith("ORACLE") and oracle_belongs(prop, ln):
                    oracle_hits.append((label, ln, tr, i))
        if traces and len(samples) < 2:
            samples.append({"source": label, "trace": traces[0][:12]})

    # corpus first
    cdir = os.path.join(vlib.VERIF, "corpus", prop)
    ncorpus = 0
    if os.path.isdir(cdir):
        for f in sorted(os.listdir(cdir)):
            rc, out = vlib.sh([hbin, "replay", os.path.join(cdir, f)] + pargs, env=vlib.ASAN_ENV, timeout=300)
            if rc not in (0, 3):
                ck.violation("corpus_" + f, out[-3000:], "harness aborted on corpus case %s (rc=%d): sanitizer or crash" % (f, rc))
            process(out, "corpus/" + f)
            ncorpus += 1
    for sd in seeds:
        rc, out = vlib.sh([hbin, "gen", str(sd), str(ntr), str(nops)] + pargs, env=vlib.ASAN_ENV, timeout=1500)
        if rc not in (0, 3):
            path = ck.violation("abort_seed%d" % sd, "h1_spsc gen %d %d %d %s\n\n%s" % (sd, ntr, nops, " ".join(pargs), out[-4000:]),
                                "harness aborted (rc=%d): sanitizer report or crash while driving the real queue" % rc)
        process(out, "gen seed=%d" % sd)

    # C09 also speaks about the unbounded queue ("its maximum capacity for unbounded queues"): drained-state probes
    # on the real UnboundedSPSCQueue; a refusal with a power-of-two maximum is a C09 violation (a non-power-of-two
    # maximum is finding F10, listed under C02).
    if prop == "C09":
        import props.uqueue as uq
        oku, ubin, ulog = vlib.build_harness("h1_uspsc", ["h1_uspsc.cpp"], extra_flags=["-fno-access-control"])
        if not oku:
            ck.violation("harness_build_u", ulog, "harness h1_uspsc no longer compiles against the current tree", no_input=True)
        else:
            upargs = uq.params_args(ex)
            for sd in seeds:
                rcu, outu = vlib.sh([ubin, "gen", str(sd), str(ntr // 2), str(nops)] + upargs, env=vlib.ASAN_ENV, timeout=1500)
                utraces, _ = uq.split_traces(outu)
                for tr in utraces:
                    for i, ln in enumerate(tr):
                        if ln.startswith("ORACLE unbounded-drained-refuses class=pow2-max"):
                            oracle_hits.append(("unbounded gen seed=%d (replay with: python3 tools/check.py C02 --replay <file>)" % sd, ln, tr, i))
                probes = sum(1 for tr in utraces for ln in tr if ln.startswith("pw "))
                stats_lines.append("unbounded seed=%d: %d traces, %d reservations probed" % (sd, len(utraces), probes))

    # C09 end to end: a blocked log call of the real frontend must have resumed once the backend drained (H2 scripts)
    if prop == "C09":
        try:
            import props.backend as be
            bres = be.collect(ck, tier, ex)
            if "build_error" not in bres:
                for o in bres["oracle"]:
                    if o["prop"] == "C09":
                        sc = bres.get("scripts", {}).get(o["case"]) or []
                        oracle_hits.append(("H2 end-to-end case %s (replay with: python3 tools/check.py C03 --replay <file>)" % o["case"],
                                            "ORACLE " + o["msg"], [""] + sc, len(sc) + 1))
                # the correspondence of the blocking / dropping / growth behaviour with the Lean backend machine (bounded and
                # unbounded builds): a disagreement about a parked call, a grant, a capacity is C09's broken tie
                mm9 = [m for m in bres["mismatches"] if "C09" in m["props"] and len(m["props"]) < 8]
                if mm9 and not oracle_hits:
                    m0 = mm9[0]
                    sc = bres.get("scripts", {}).get(m0["case"]) or []
                    ck.violation("h2_correspondence", "# H2 correspondence stream `backend` disagrees (case %s): %s impl=[%s] model=[%s]\n%s\n" % (
                        m0["case"], m0["op"], m0["impl"], m0["model"], "\n".join(sc)),
                        "backend model and implementation disagree on a blocked/granted/grown reservation (%d lines): %s impl=[%s] model=[%s]" % (
                            len(mm9), m0["op"], m0["impl"][:120], m0["model"][:120]), no_input=True)
                stats_lines.append("H2 end-to-end: %d lines compared with the backend machine (bounded and unbounded builds), %d disagree on C09 matters" % (bres["lines"], len(mm9)))
                stats_lines.append("H2 end-to-end: %d scripted lives, %d parked calls observed, %d refused after the backend found every queue empty" % (
                    bres["cases"], bres["stats"].get("parks", 0), sum(1 for o in bres["oracle"] if o["prop"] == "C09")))
        except Exception as exn:  # the backend bundle is optional for this check
            stats_lines.append("H2 end-to-end stream not available: %r" % (exn,))

    # memory orders observed at run time vs the regex extraction
    if orders_seen:
        b = ex["bounded"]
        want = [b["wStore"], b["wLoad"], b["rStore"], b["rLoad"]]
        for w, s, nm in zip(want, orders_seen, ["wStore", "wLoad", "rStore", "rLoad"]):
            if s not in ("-", w):
                ps["broken"].append("extraction disagrees with run-time order for %s: extracted %s, observed %s" % (nm, w, s))

    if prop == "C01":
        _mM.stream(ck, prop, tier, ps)   # arithmetic / constructor stream of bundle M (own violations, coverage in ck.cov["math_stream"])

    # --- verdicts -----------------------------------------------------------------------------
    if oracle_hits:
        label, ln, tr, i = oracle_hits[0]
        content = "# %s\n# property oracle on the real code: %s\n# replay: python3 tools/check.py %s --replay <this file>\n%s" % (
            label, ln, prop, ops_only(tr, i))
        ck.violation("oracle", content, "property fails on the real code: %s (%d oracle hits in this run)" % (ln, len(oracle_hits)))
    if mismatches and not oracle_hits:
        label, ln, by_id = mismatches[0]
        m = re.search(r"trace=(\S+)", ln)
        tr = by_id.get(m.group(1)) if m else None
        content = "# correspondence stream `spsc` (harness h1_spsc vs Lean driver) no longer agrees\n# %s\n# %s\n%s" % (
            label, ln, ops_only(tr) if tr else "")
        ck.violation("correspondence", content,
                     "model and implementation disagree (%d lines), no property oracle fired: %s" % (len(mismatches), ln), no_input=True)
    if ps["broken"] and not oracle_hits:
        # search the model with the extracted parameters for an unsafe schedule and replay it on the real code
        found = False
        for cap, batch, depth in ((2, 0, 9), (4, 1, 8)):
            rc, sout = vlib.driver(["spsc", "search", str(cap), str(batch), "256"] + pargs + [str(depth)], timeout=600)
            if "UNSAFE-SCHEDULE" in sout:
                sched = "\n".join(l for l in sout.split("\n") if not l.startswith("UNSAFE-SCHEDULE")) + "\n"
                rp = ck.replay_path("model_schedule")
                open(rp, "w").write(sched)
                rc2, hout = vlib.sh([hbin, "replay", rp] + pargs, env=vlib.ASAN_ENV, timeout=300)
                hits = [l for l in hout.split("\n") if l.startswith("ORACLE") and oracle_belongs(prop, l)]
                if hits or rc2 not in (0, 3):
                    ck.violation("model_schedule", "# found by the model-side search with the extracted parameters; replayed on the real queue: %s\n%s" % (
                        hits[:1] or ["abort rc=%d" % rc2], sched),
                        "proof obligation broken (%s) and the failing schedule reproduces on the real code: %s" % (ps["broken"][0][:200], (hits or ["abort"])[0]))
                    found = True
                    break
        if not found and prop == "C09" and not ex["bounded"]["drainPublish"]:
            # the drained-queue witness of C09_batch_only_stalls, on the real code
            rp = os.path.join(vlib.VERIF, "corpus", "C09", "f3_drained_refuses.txt")
            rc2, hout = vlib.sh([hbin, "replay", rp] + pargs, env=vlib.ASAN_ENV, timeout=300)
            hits = [l for l in hout.split("\n") if l.startswith("ORACLE") and oracle_belongs(prop, l)]
            if hits:
                ck.violation("drained", open(rp).read(), "obligation bounded_drain_publish broken and the stall reproduces: " + hits[0])
                found = True
        if not found and not ck.violations:
            ck.violation("proof_broken", "theorems/obligations that no longer check:\n" + "\n".join(ps["broken"]) + "\n",
                         "proof side broken, no failing input found: " + ps["broken"][0][:300], no_input=True)

    ck.cov.update({
        "evaluations": total_lines,
        "traces_validated_against_impl": traces_total,
        "distinct_nontrivial": nontrivial,
        "rule": "one case = one generated queue life (integer type, capacity, batch percent, ~%d scheduled API calls with stale-load choices); "
                "non-trivial iff it contains a refused reservation, a stale load choice, a wrap of the physical offset and a read; "
                "cases are distinct by construction (PRNG stream)" % nops,
        "samples": samples,
        "corpus_cases": ncorpus,
        "harness_stats": stats_lines,
        "orders_seen_at_runtime": orders_seen,
        "extracted": {"bounded": ex["bounded"]},
        "mismatching_lines": len(mismatches),
        "oracle_hits": len(oracle_hits),
    })
    return ck.finish()


def replay(prop, path):
    if _mM.is_math_replay(path):
        return _mM.replay(prop, path)
    if open(path).readline().startswith("# H2 "):
        import props.backend as be
        return be.replay(prop, path)
    ok, hbin, log = vlib.build_harness("h1_spsc", ["h1_spsc.cpp"], extra_flags=["-fno-access-control"])
    if not ok:
        print(log)
        return 2
    ex = vlib.run_extract()
    rc, out = vlib.sh([hbin, "replay", path] + params_args(ex), env=vlib.ASAN_ENV)
    print(out)
    rc2, dout = vlib.driver(["spsc", "trace" if prop == "C09" else "anypub"], stdin_data=out.encode())
    print(dout)
    bad = [l for l in out.split("\n") if l.startswith("ORACLE") and oracle_belongs(prop, l)]
    return 1 if bad or rc not in (0, 3) else 0
