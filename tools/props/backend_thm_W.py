"""Audit bundle (statement review round): theorems added beside the prover bundles, in NEW Props files only.
C03: delivery (every accepted statement is popped after a quiet drain) — the liveness half the safety theorems of bundle A lack.
C10: proved witness that a sink fault during a backtrace replay makes the next flush replay already-written statements again
     (level-9 statements are outside every `isOrd` theorem of bundle A)."""
import os

_HAVE_A = os.path.exists(os.path.join(os.path.dirname(os.path.abspath(__file__)), "backend_thm_A.py"))
THEOREMS = {
    "C03": ["Backend.C03_delivered_after_quiet_drain"],
    "C10": ["Backend.C10_replay_fault_duplicates", "Backend.C10_replay_without_fault_once"],
} if _HAVE_A else {}
MODULES = {"C03": ["QuillModel.Props.C03Delivery"], "C10": ["QuillModel.Props.C10Replay"]} if _HAVE_A else {}
OBLIG = []
OBLIG_BY_PROP = {}
