"""Audit bundle (statement review round): theorems added beside the prover bundles, in NEW Props files only.
C03: delivery (every accepted statement is popped after a quiet drain) — the liveness half the safety theorems of bundle A lack.
C10: finding F26 — a sink fault during a backtrace replay. Witness for the pinned callback (the next flush replays
     already-written statements again; level-9 statements are outside every `isOrd` theorem of bundle A), and for the
     repaired callback (extracted flag `replayCatchesPerEvent`): the replay is per event, never lets an exception escape,
     always clears the ring, writes each stored statement at most once per sink (level-inclusive count `bwcount`)."""
import os

_HAVE_A = os.path.exists(os.path.join(os.path.dirname(os.path.abspath(__file__)), "backend_thm_A.py"))
THEOREMS = {
    "C03": ["Backend.C03_delivered_after_quiet_drain"],
    "C10": ["Backend.C10_replay_fault_duplicates", "Backend.C10_replay_fault_repaired", "Backend.C10_replay_without_fault_once",
            "Backend.C10_replay_is_per_event", "Backend.C10_replay_never_escapes", "Backend.C10_replay_clears_ring",
            "Backend.C10_replay_twice_writes_nothing", "Backend.C10_replay_once_per_flush",
            "Obligations.C10_replay_extracted", "Obligations.C10_replay_schedule_extracted"],
} if _HAVE_A else {}
MODULES = {"C03": ["QuillModel.Props.C03Delivery"], "C10": ["QuillModel.Props.C10Replay"]} if _HAVE_A else {}
OBLIG = ["QuillModel.Obligations.BackendW_C10"] if _HAVE_A else []
OBLIG_BY_PROP = {"C10": ["QuillModel.Obligations.BackendW_C10"]} if _HAVE_A else {}
# lift round (w2_lifts): the whole-log bound of Props/C10Replay.lean closed (Props/C10ReplayWhole.lean, helpers
# Backend/LiftRing{Pot,Pop,Top}.lean: new bundle-A Closed instance InvRg — log writes + ring potential <= pops)
if _HAVE_A:
    THEOREMS["C10"] += ["Backend.C10_ring_potential", "Backend.C10_log_at_most_once_any_level",
                        "Backend.C10_backtrace_at_most_once_per_flush", "Backend.C10_nothing_handed_before_pop",
                        "Backend.C10_backtrace_once_or_never", "Backend.c10ReplayInit_start",
                        "Backend.C10_whole_bound_false_pinned", "Backend.PA.InvRg.closed"]
    MODULES["C10"] += ["QuillModel.Props.C10ReplayWhole"]
# lift round (w2_lifts), C03: delivery composed with the pop-time dispatch into an equality over whole runs
# (Props/C03Whole.lean, helpers Backend/LiftOnce{,Nodup}.lean: bundle-A Closed instance WInv), and the loop fuel of
# `readQueue` (Props/C03ReadFuel.lean, helpers Backend/LiftFuel{,Front}.lean: fuel monotonicity, sufficiency under the
# decidable premise `site3Ops table <= 63`, observable exhaustion `populateObs`, exhaustion witnesses)
if _HAVE_A:
    THEOREMS["C03"] += ["Backend.C03_whole_run_count", "Backend.C03_dispatchCount_le_one", "Backend.C03_dispatchCount_eq_one_iff",
                        "Backend.C03_exactly_once_after_drain", "Backend.C03_exactly_once_after_drain_nodup",
                        "Backend.c03TightInit_fresh", "Backend.PA.WInv.closed",
                        "Backend.C03_read_fuel_mono", "Backend.C03_read_fuel_quiet", "Backend.C03_read_fuel_budget",
                        "Backend.C03_read_fuel_no_site3", "Backend.C03_read_fuel_sufficient", "Backend.populateObs_fst",
                        "Backend.C03_fuel_never_exhausted", "Backend.C03_pollFuelOK", "Backend.C03_read_fuel_exhaustible",
                        "Backend.C03_read_fuel_exhaustible_populate"]
    MODULES["C03"] += ["QuillModel.Props.C03Whole", "QuillModel.Props.C03ReadFuel"]
