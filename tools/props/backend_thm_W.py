"""Audit bundle (statement review round): theorems added beside the prover bundles, in NEW Props files only.
C03: delivery (every accepted statement is popped after a quiet drain) — the liveness half the safety theorems of bundle A lack.
C10: finding F26 — a sink fault during a backtrace replay. Witness for the pinned callback (the next flush replays
     already-written statements again; level-9 statements are outside every `isOrd` theorem of bundle A), and for the
     repaired callback (extracted flag `replayCatchesPerEvent`): the replay is per event, never lets an exception escape,
     always clears the ring, writes each stored statement at most once per sink (level-inclusive count `bwcount`)."""
import os

_HAVE_A = os.path.exists(os.path.join(os.path.dirname(os.path.abspath(__file__)), "backend_thm_A.py"))
THEOREMS = {
    "C03": ["Backend.C03_delivered_after_quiet_drain"],
    "C10": ["Backend.C10_replay_fault_duplicates", "Backend.C10_replay_fault_repaired", "Backend.C10_replay_without_fault_once",
            "Backend.C10_replay_is_per_event", "Backend.C10_replay_never_escapes", "Backend.C10_replay_clears_ring",
            "Backend.C10_replay_twice_writes_nothing", "Backend.C10_replay_once_per_flush",
            "Obligations.C10_replay_extracted", "Obligations.C10_replay_schedule_extracted"],
} if _HAVE_A else {}
MODULES = {"C03": ["QuillModel.Props.C03Delivery"], "C10": ["QuillModel.Props.C10Replay"]} if _HAVE_A else {}
OBLIG = ["QuillModel.Obligations.BackendW_C10"] if _HAVE_A else []
OBLIG_BY_PROP = {"C10": ["QuillModel.Obligations.BackendW_C10"]} if _HAVE_A else {}
