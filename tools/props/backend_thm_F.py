"""Filter-concurrency bundle: Sink::add_filter / set_log_level_filter against Sink::apply_all_filters under the view
semantics (lean/QuillModel/Filt, Props/C16Filt.lean, Obligations/Filt.lean; harness h1_filters + `driver filt trace`)."""
THEOREMS = {"C16": ["Filt.C16_filter_lock_exclusive", "Filt.C16_filter_visibility", "Filt.C16_no_rejected_statement_accepted",
                    "Filt.trylock_variant_leaks", "Filt.stale_flag_without_happens_before", "Filt.relaxed_lock_races",
                    "Filt.step_inv", "Filt.reachable_inv",
                    "Obligations.filt_extraction_complete", "Obligations.filt_orders_ok", "Obligations.filt_no_try_lock",
                    "Obligations.filt_structure_ok", "Obligations.C16_filter_lock_exclusive_extracted",
                    "Obligations.C16_filter_visibility_extracted"]}
MODULES = {"C16": ["QuillModel.Props.C16Filt"]}
OBLIG = ["QuillModel.Obligations.Filt"]
