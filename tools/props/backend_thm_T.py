"""Transit-buffer bundle (coordinator): theorems that justify modelling each thread's transit buffer as a FIFO list.
They support C03 but do not decide it alone, so they are listed only once the conservation bundle (backend_thm_A.py) exists."""
import os

_HAVE_A = os.path.exists(os.path.join(os.path.dirname(os.path.abspath(__file__)), "backend_thm_A.py"))
THEOREMS = {"C03": ["Transit.C03_transit_refines", "Transit.C03_transit_observations", "Transit.C03_transit_shrink_keeps_content",
                    "Transit.expand_from_zero_reorders", "Transit.step_abs", "Transit.step_inv"]} if _HAVE_A else {}
MODULES = {"C03": ["QuillModel.Props.C03Transit"]} if _HAVE_A else {}
OBLIG = []
