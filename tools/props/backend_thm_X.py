"""Proof bundle X: the unbounded queue inside the backend model (Backend/UQueue.lean, USched.lean, UOps.lean — the machine
`driver backend trace` runs for the UnboundedBlocking / UnboundedDropping builds of H2). Theorems: Props/C03U.lean over the
chain lemmas of Backend/UQueueProofs.lean and Backend/UThread.lean. The `_partial` ones are proved for every context state and
every queue operation of the machine; the induction over `runOpsU` (walk of pollU / exitLoopU) is not done."""
_T = ["Backend.C03U_conservation", "Backend.C03U_queue_coherent", "Backend.C03U_fresh_state", "Backend.US.runOpsU_closed", "Backend.US.UI.closed",
      "Backend.C03U_enqueue_keeps", "Backend.C03U_shrink_keeps", "Backend.C03U_read_keeps",
      "Backend.C03U_offer_means_pending", "Backend.C03U_commit_pop_keep", "Backend.tryEnqU_answer",
      "Backend.UQ.uRead_spec", "Backend.UQ.uPrepareRead_spec", "Backend.UQ.TI.enq", "Backend.UQ.TI.prepareWrite"]
THEOREMS = {
    "C03": _T,
    "C20": ["Backend.C07U_exit_leaves_only_drained", "Backend.C07U_exit_loop_leaves_only_drained", "Backend.US.allEmptyU_sound",
            "Backend.C20U_empty_test_sound_run", "Backend.C20U_empty_test_sound", "Backend.C03U_shrink_keeps", "Backend.UQ.TI.empty_sound"],
    "C08": ["Backend.C08U_counter_never_reset", "Backend.C08U_fresh_state", "Backend.US.ctr_closedU"],
    "C09": ["Backend.C09U_blocked_call_granted_after_drain", "Backend.C09U_drain_publishes", "Backend.qPrepareWrite_drained",
            "Backend.C09U_parked_call_resumes_partial", "Backend.C09U_reads_committed", "Backend.C09U_parked_call_resumes_drained",
            "Backend.C09U_fresh_state", "Backend.US.pi_closed", "Backend.US.uRead_complete", "Backend.uPrepareWrite_drained_grants"],
}
MODULES = {"C08": ["QuillModel.Props.C08U"], "C03": ["QuillModel.Props.C03U"], "C20": ["QuillModel.Props.C03U", "QuillModel.Props.C07U"], "C09": ["QuillModel.Props.C03U", "QuillModel.Props.C09U", "QuillModel.Backend.UProg"]}
OBLIG = []
OBLIG_BY_PROP = {}
