"""Registration / failure-counter bundle (builder-reg): the two small frontend/backend protocols of
core/ThreadContextManager.h under the view semantics — a newly registered thread context is never lost between the
manager's list and the backend's cache (C20, also what C03's delivery rests on), and the failure counter is conserved (C08).
The obligation modules are listed per property (MODULES), not in the shared OBLIG list, so that a change that breaks one
protocol does not alarm the other backend properties."""
THEOREMS = {
    "C20": ["Reg.C20_registration_not_lost", "Reg.C20_registered_cached_or_flagged", "Reg.C20_next_update_picks_up",
            "Reg.C20_all_returned_lock_free", "Reg.C20_flag_before_push_lost", "Reg.C20_reset_after_copy_lost",
            "Reg.C20_relaxed_unlock_races", "Reg.step_inv", "Reg.finishUpdate_spec",
            "Obligations.reg_extraction_complete", "Obligations.reg_register_program_ok", "Obligations.reg_update_program_ok",
            "Obligations.reg_lock_orders_ok", "Obligations.reg_cfg_ok", "Obligations.C20_registration_extracted",
            "Obligations.C20_next_update_extracted"],
    "C08": ["Ctr.C08_counter_conservation", "Ctr.C08_counter_final_pass", "Ctr.C08_load_store_loses_increment",
            "Ctr.C08_nonatomic_increment_duplicates", "Ctr.step_inv", "Obligations.ctr_extraction_complete",
            "Obligations.ctr_cfg_ok", "Obligations.C08_counter_extracted"],
}
MODULES = {"C20": ["QuillModel.Props.C20Reg", "QuillModel.Obligations.Reg"],
           "C08": ["QuillModel.Props.C08Counter", "QuillModel.Obligations.Counter"]}
OBLIG = []
