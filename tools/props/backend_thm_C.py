"""Theorem bundle C (prover w_pc): C16, C17, C20 and the drain part of C07. Picked up by tools/props/backend.py."""

THEOREMS = {
    "C16": ["Backend.C16_shouldLog_iff", "Backend.C16_below_level_nothing", "Backend.C16_below_level_threads",
            "Backend.C16_no_handle_noop", "Backend.C16_at_level_enqueued", "Backend.C16_sinks_exact",
            "Backend.C16_sink_iff", "Backend.C16_sink_independent", "Backend.C16_sink_prefix",
            "Backend.C16_level_reported", "Backend.C16_process_is_dispatch",
            "Obligations.BackendC.level_order", "Obligations.BackendC.level_ranks",
            "Obligations.BackendC.level_compare_is_rank_compare", "Obligations.BackendC.c16_structure",
            "Obligations.BackendC.C16_frontend_extracted", "Obligations.BackendC.C16_sinks_extracted"],
    "C20": ["Backend.C20_counter", "Backend.C20_counter_exact", "Backend.C20_early_return_iff",
            "Backend.C20_zero_counter_noop", "Backend.C20_live_contexts_registered",
            "Backend.C20_idle_poll_reclaims", "Backend.C20_idle_poll_retains_live",
            "Backend.C20_quiet_idle_poll_retains_live", "Backend.C20_reclaimed_delivered", "Backend.C20_narrow_counter_1bit",
            "Backend.C20_narrow_counter_2bit", "Backend.PC.CInv_runOps",
            "Obligations.BackendC.invalid_counter_wide", "Obligations.BackendC.c20_structure",
            "Obligations.BackendC.C20_counter_extracted", "Obligations.BackendC.C20_early_return_extracted",
            # shrink half (unbounded-queue chain model, Props/C20Shrink.lean, shared with C02)
            "Uspsc.C20_shrink_reported_capacity", "Uspsc.C20_shrink_at_most_half", "Uspsc.C20_shrink_noop",
            "Uspsc.C02_shrink_reports", "Uspsc.C20_shrink_capacity_one_degenerate", "Uspsc.C20_shrink_loses_nothing",
            "Uspsc.C20_shrink_old_node_freed_after_drained", "Uspsc.C02_nextPow2_spec", "Uspsc.C02_trace_fifo"],
    "C17": ["Backend.C17_erased_logger_has_no_record", "Backend.C17_erase_only_when_drained",
            "Backend.C17_erase_step_guarded", "Backend.C17_hoisted_check_erases_queued_logger",
            "Backend.C17_dead_sink_unreferenced", "Backend.C17_no_use_after_dtor", "Backend.C17_alive_sink_no_dtor",
            "Backend.C17_parked_removal_exclusive", "Backend.C17_removal_flag_after_erase_partial", "Backend.C17_flag_wait",
            "Backend.C17_removal_flag_after_erase", "Backend.C17_remove_blocking_returns_after_erase",
            "Backend.PC.FRI_runOps", "Obligations.BackendC.C17_removal_flag_after_erase_extracted",
            "Backend.C17_create_returns_existing",
            "Backend.C17_create_fresh_object", "Backend.C17_create_waits_for_erase", "Backend.C17_remove_busy_noop",
            "Backend.PC.FInv_runOps", "Obligations.BackendC.c17_structure",
            "Obligations.BackendC.C17_erased_logger_has_no_record_extracted",
            # audit gaps (a)-(d): Props/C17Destroy.lean
            "Backend.C17_unreferenced_sink_destroyed", "Backend.C17_sink_destroyed_iff_unreferenced",
            "Backend.C17_cleanup_reaps_released_sinks", "Backend.C17_erase_after_everything_popped",
            "Backend.C17_erased_logger_statements_popped", "Backend.C17_recreate_after_removal",
            "Backend.C17_ids_in_range", "Backend.PC.PR_runOps", "Backend.PC.FD_runOps",
            # pending blocking removals are served by the pass that erases their logger, none is forgotten (Props/C17Flags.lean)
            "Backend.C17_cleanup_serves_erased", "Backend.C17_clear_all_forgets_second_caller"],
    "C07": ["Backend.C07_conservation", "Backend.C07_unregistered_empty", "Backend.C07_exit_drains",
            "Backend.C07_exit_flushes_last", "Backend.C07_exit_never_adds", "Backend.C07_pop_progress",
            "Backend.C07_exit_terminates_partial", "Backend.C07_exit_terminates", "Backend.C07_exit_drains_everything",
            "Backend.PC.TCInv_runOps",
            "Obligations.BackendC.c07_structure", "Obligations.BackendC.C07_exit_drains_extracted"],
}
MODULES = {
    "C07": ["QuillModel.Props.C07Drain"],
    "C16": ["QuillModel.Props.C16"],
    "C17": ["QuillModel.Props.C17", "QuillModel.Props.C17Removal", "QuillModel.Props.C17Destroy", "QuillModel.Props.C17Flags"],
    "C20": ["QuillModel.Props.C20", "QuillModel.Props.C20Shrink"],
}
OBLIG = ["QuillModel.Obligations.BackendC"]
OBLIG_BY_PROP = {"C16": ["QuillModel.Obligations.BackendC_C16", "QuillModel.Obligations.BackendC_Common"], "C20": ["QuillModel.Obligations.BackendC_C20", "QuillModel.Obligations.BackendC_Common"],
                 "C17": ["QuillModel.Obligations.BackendC_C17", "QuillModel.Obligations.BackendC_Common"], "C07": ["QuillModel.Obligations.BackendC_C07", "QuillModel.Obligations.BackendC_Common"]}
# w2_prog: the exit loop read as unbounded, every tick > 0 (Props/C07Unbounded.lean)
THEOREMS["C07"] += ["Backend.C07_exit_terminates_unbounded", "Backend.C07_exit_limit_form", "Backend.C07_exit_fuel_immaterial",
                    "Backend.C07_exit_drains_everything_unbounded", "Backend.C07_exit_flushes_last_unbounded"]
MODULES["C07"] += ["QuillModel.Props.C07Unbounded"]
# w2_prog: the caller parked by remove_logger_blocking has its removal record in the ghost history (Props/C17Parked.lean)
THEOREMS["C17"] += ["Backend.C17_accepted_history_grows", "Backend.C17_parking_call_committed_its_request",
                    "Backend.C17_remove_blocking_parks_on_its_record", "Backend.C17_remove_blocking_contract"]
MODULES["C17"] += ["QuillModel.Props.C17Parked"]
THEOREMS["C17"] += ["Backend.C17_parked_flag_has_record", "Backend.C17_parked_removal_contract"]
