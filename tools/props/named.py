"""C19 — named placeholders: matching text, ordered key/value pairs, one JSON object per line.
Proof: Props/C19.lean + Obligations/Named.lean. Tie: extraction (separator, JSON literals and slot order, scanner
characters and loop shape, cache key, LOGJ_ helper shape) + harness H3 (`h3_named.cpp`: the real scanner functions on
generated templates; the real backend + recording sink + real JsonFileSink end to end) vs the Lean driver `named`.
Independent oracles: grammar structure of the generated template, fmtquill::format with positional arguments,
per-argument formatting (in the harness), and Python's `json` module on every JSON line (here).
Third stream `faults` (C19 "one JSON object per line" + C10 "a throwing sink disturbs nothing else"): a JsonFileSink subclass
whose generate_json_message override / before_write hook throws on chosen statements; the file must hold exactly the lines
of the statements that did not fault (Props/C19Json.lean: Named.jsonWrite, the sink's line buffer across statements)."""
import json
import os
import shutil
import tempfile

import vlib

PROPS = ["C19"]

MANIFEST = {
    "C19": dict(
        technique="Lean 4 proof: loop-level transcription of both brace scanners + induction over the template grammar; split∘join on an unbordered separator; JSON line structure; cache transparency by induction over lookup histories; extraction of separator / JSON literals / scanner characters; differential correspondence on the real scanners, the real backend and the real JsonFileSink; Python json oracle",
        text="Machine-checked proof (Lean 4) that for every template of the grammar (text | {{ | }} | {[ident][:spec]})* — in the class where no placeholder is directly followed by an escaped }} — the string handed to fmt is the template with the names erased and the specs kept and the key list is the placeholder names in order, one per placeholder; that the compile-time flag is true iff a named placeholder occurs (unconditionally on the property's own grammar, and for mixed positional/named templates in the class where a positional placeholder is followed by a literal character); that split(join(values)) = values for every value list not containing the separator (the separator being non-empty and unbordered, re-proved for the extracted QUILL_MAGIC_SEPARATOR), so pair i holds argument i rendered by its own spec; that the JSON line is `{` + the seven fixed members in fixed order + the pairs in order + `}\\n`, contains a newline before the final one iff a run-time value does (the template's newlines are rewritten to spaces); that LOGJ_ generated templates with identifier arguments are in both good classes; and that the template cache returns what fresh processing returns for every history of lookups. The excluded classes are finding F11, proved as counter-witnesses in the model and reproduced on the real code. Tied to the code by extraction + obligations, by running the real scanner functions on exhaustive small scopes and generated templates against the model (every flag / positional string / key list compared), and by running ~45 compile-time call sites through the real backend, a recording sink and the real JsonFileSink for every order of first sightings of sampled template triples. One object per line also when the sink throws: JsonSink::write_log is modelled with its line buffer carried across statements (clear; generate_json_message; append; base write) and proved, for every sequence of statements and every schedule of faults (the generate_json_message customisation point throwing after any number of bytes of the record, the before_write hook / base write throwing), to leave in the file exactly the lines of the statements that did not fault, given that the buffer is emptied before generate_json_message (extracted; the variant that empties it after the write is refuted by witnesses); tied by a third stream that drives a JsonFileSink subclass with such an override and hook through the real backend (sequences of 4-8 statements with 0-3 faults) with the model recomputing the bytes written per statement and Python json parsing the resulting file.",
        note="fmt itself is not modelled beyond its top level ({{, }}, automatic indexing); 'value i rendered by its own spec' is checked on the real code against fmtquill::format per argument. Templates with nested replacement fields inside a spec, numbered fields, or names not starting with a letter are outside the grammar. uint32_t position overflow of _contains_named_args (templates ≥ 4 GiB) not modelled.",
        ref="§5 C19, §7 F11"),
}

THEOREMS = {
    "C19": ["Named.C19_detect_partial", "Named.C19_detect_named_only", "Named.C19_detect_false_negative",
            "Named.C19_detect_false_negative_close", "Named.C19_detect_false_positive",
            "Named.C19_positional_partial", "Named.C19_positional_iff", "Named.C19_one_key_per_field_partial", "Named.C19_positional_counter",
            "Named.C19_positional_counter_text", "Named.C19_split_join", "Named.C19_split_counter",
            "Named.C19_split_bordered_counter", "Named.C19_genFormat", "Named.C19_pairs", "Named.C19_pairs_exact_partial", "Named.C19_statement_partial",
            "Named.C19_statement_unnamed_partial", "Named.fmtSubst_render",
            "Named.C19_json_members", "Named.C19_json_single_line", "Named.C19_template_newlines", "Named.C19_json_parses",
            "Named.C19_loops_run_to_completion", "Named.C19_cache_transparent", "Named.C19_lookup_transparent", "Named.C19_logj", "Named.C19_logj_colon_counter",
            "Named.C19_json_faults_leave_nothing", "Named.C19_json_faults_leave_nothing_from", "Named.C19_json_write_ignores_leftover",
            "Named.jsonWrite_clearFirst", "Named.C19_json_clear_after_leaks_partial_record", "Named.C19_json_clear_after_resends_failed_line",
            "Named.C19_json_no_clear_accumulates", "Obligations.named_json_clear_before_generate", "Obligations.C19_json_faults_extracted",
            "Obligations.named_extraction_complete", "Obligations.named_separator_ok", "Obligations.named_json_layout",
            "Obligations.named_json_literals", "Obligations.named_detect_chars", "Obligations.named_process_chars",
            "Obligations.named_cache_key", "Obligations.named_logj_shape", "Obligations.C19_split_join_extracted",
            "Obligations.C19_pairs_extracted", "Obligations.C19_json_extracted",
            "Obligations.C19_json_single_line_extracted", "Obligations.C19_json_parses_extracted"],
}
MODULES = {"C19": ["QuillModel.Props.C19", "QuillModel.Props.C19Json"]}
OBLIG = ["QuillModel.Obligations.Named"]

FIXED_KEYS = ["timestamp", "file_name", "line", "thread_id", "logger", "log_level", "message"]

# Known-finding candidates (DESIGN §7 F11), keyed by template class. Superseded by known_findings.json: an entry
# {"id": "F11…", "property": "C19", "status": "fixed"} switches the corresponding class back to "alarm".
F11_CLASSES = {
    "procOK": ("F11a", "template class: a placeholder directly followed by an escaped `}}` — "
                       "_process_named_args_format_message takes the `}` + `}}` run for an escape: e.g. `{{{a}}}` -> key `a}}`, fmt string `{{{}`"),
    "detectOK": ("F11b", "template class: a positional placeholder directly followed by a named placeholder, `{{` or `}}` before the first named one read in step — "
                         "_contains_named_args never examines the character after a placeholder: e.g. `{}{a}` not detected, `{}{{x` detected"),
    "logjArg": ("F11c", "LOGJ_ call site whose argument is not a plain identifier and is spelled with a `:` — the macro stringifies the "
                        "argument as written, so `LOGJ_INFO(l, \"qualified\", ns_q::val)` generates `qualified {ns_q::val}` = placeholder `ns_q` "
                        "with spec `:val`: key `ns_q`, fmt rejects the spec, the statement text is replaced by the error text"),
}


# ------------------------------------------------------------------------------------------------------------------
# independent re-implementation of the grammar and of the two class predicates (cross-checked against the driver's CLS)
# ------------------------------------------------------------------------------------------------------------------
def is_alpha(b):
    return 97 <= b <= 122 or 65 <= b <= 90


def ident(b):
    return is_alpha(b) or 48 <= b <= 57 or b == 95


def parse(t):
    """bytes -> list of pieces ('T', byte) | ('O',) | ('C',) | ('F', name, spec|None), or None if not in the grammar"""
    ps, i, n = [], 0, len(t)
    while i < n:
        c = t[i]
        if c == 0x7b:
            if i + 1 < n and t[i + 1] == 0x7b:
                ps.append(("O",))
                i += 2
                continue
            j = i + 1
            while j < n and t[j] not in (0x7b, 0x7d):
                j += 1
            if j >= n or t[j] != 0x7d:
                return None
            inside = t[i + 1:j]
            k = inside.find(b":")
            name = inside if k < 0 else inside[:k]
            spec = None if k < 0 else inside[k + 1:]
            if name and not (is_alpha(name[0]) and all(ident(b) for b in name)):
                return None
            ps.append(("F", name, spec))
            i = j + 1
        elif c == 0x7d:
            if i + 1 < n and t[i + 1] == 0x7d:
                ps.append(("C",))
                i += 2
                continue
            return None
        else:
            ps.append(("T", c))
            i += 1
    return ps


def proc_ok(ps):
    return not any(p[0] == "F" and i + 1 < len(ps) and ps[i + 1][0] == "C" for i, p in enumerate(ps))


def detect_ok(ps):
    after_positional = False    # the previous piece was a positional placeholder read in step: next character skipped
    for p in ps:
        if not after_positional:
            if p[0] == "F":
                if p[1]:
                    return True
                after_positional = True
        else:
            if p[0] == "T":
                after_positional = False
            elif p[0] == "F":
                if p[1]:
                    return False
                after_positional = False
            else:
                return False
    return True


def classify(hex_t):
    t = b"" if hex_t == "-" else bytes.fromhex(hex_t)
    ps = parse(t)
    if ps is None:
        return None
    return {"procOK": proc_ok(ps), "detectOK": detect_ok(ps), "named": any(p[0] == "F" and p[1] for p in ps)}


def kv(words):
    out = {}
    for w in words:
        if "=" in w:
            k, v = w.split("=", 1)
            out[k] = v
    return out


def unhex(h):
    return b"" if h in ("-", "") else bytes.fromhex(h)


def dec_pairs(s):
    if s == "-":
        return []
    out = []
    for item in s.split(","):
        k, v = item.split("/")
        out.append((unhex(k), unhex(v)))
    return out


def needs_escaping(b):
    if any(c < 0x20 or c == 0x22 or c == 0x5c or c == 0x7f for c in b):
        return True
    try:
        b.decode("utf-8")
    except UnicodeDecodeError:
        return True
    return False


def json_oracle(op_words, obs):
    """property-level checks of one JSON line with Python's json module. returns (list of failures, stats)"""
    fails, st = [], {}
    tmpl = unhex(op_words[3])
    line = unhex(obs.get("json", ""))
    pairs = dec_pairs(obs.get("pairs", "-"))
    hdr = [unhex(h) for h in obs.get("hdr", "").split(",")]
    if not line.endswith(b"}\n") or not line.startswith(b"{"):
        fails.append("json line is not `{…}\\n`")
        return fails, st
    body = line[:-1]
    nl_in_values = any(b"\n" in k or b"\n" in v for k, v in pairs) or any(b"\n" in h for h in hdr)
    if (b"\n" in body) != nl_in_values:
        fails.append("single-line: newline inside the object = %s but newline in a run-time value = %s" % (b"\n" in body, nl_in_values))
    st["multi_line"] = int(b"\n" in body)
    want_msg = tmpl.replace(b"\n", b" ")
    strings = [want_msg] + hdr + [x for p in pairs for x in p]
    if any(needs_escaping(s) for s in strings):
        st["needs_escaping"] = 1
        return fails, st
    try:
        obj = json.loads(line.decode("utf-8"), object_pairs_hook=list)
    except Exception as ex:  # noqa: BLE001
        fails.append("does not parse as JSON although nothing needs escaping: %r" % (ex,))
        return fails, st
    st["parsed"] = 1
    keys = [k for k, _ in obj]
    want_keys = FIXED_KEYS + [k.decode("utf-8") for k, _ in pairs]
    if keys != want_keys:
        fails.append("key order %r, expected %r" % (keys, want_keys))
        return fails, st
    vals = [v for _, v in obj]
    want_vals = [h.decode("utf-8") for h in hdr] + [want_msg.decode("utf-8")] + [v.decode("utf-8") for _, v in pairs]
    if any(not isinstance(v, str) for v in vals) or vals != want_vals:
        fails.append("values %r, expected %r" % (vals, want_vals))
    return fails, st


def jsonfault_oracle(stmts):
    """one case of the `faults` stream: stmts = [(op words of the jlog line, observation dict)]. The bytes that reached the file
    must be exactly one line per statement that did not fault, in order, each one JSON object (Python json) holding the seven
    fixed members and the statement's own pairs; nothing of a faulted statement (its unique marker) anywhere. Returns failures."""
    fails = []
    data = b"".join(unhex(o.get("wrote", "-")) for _, o in stmts)
    lines = data.split(b"\n")
    if lines and lines[-1] == b"":
        lines.pop()
    else:
        fails.append("file does not end with a newline")
    want = []
    for w, o in stmts:
        marker = unhex(w[2].split(",")[0])
        if w[3] != "ok":
            if marker and marker in data:
                fails.append("marker %r of a statement whose write threw (%s) is in the file" % (marker.decode("latin-1"), w[3]))
            continue
        pairs = dec_pairs(o_pairs(w))
        hdr = [unhex(h) for h in o_hdr(w).split(",")]
        msg = unhex(w[4]).replace(b"\n", b" ")
        want.append((FIXED_KEYS + [k.decode("utf-8") for k, _ in pairs],
                     [h.decode("utf-8") for h in hdr] + [msg.decode("utf-8")] + [v.decode("utf-8") for _, v in pairs]))
    if len(lines) != len(want):
        fails.append("%d lines in the file, %d statements did not fault" % (len(lines), len(want)))
    for i, ln in enumerate(lines):
        try:
            obj = json.loads(ln.decode("utf-8"), object_pairs_hook=list)
        except Exception as ex:  # noqa: BLE001
            fails.append("line %d is not one JSON object: %r: %r" % (i + 1, ex, ln[:160]))
            continue
        if i < len(want) and ([k for k, _ in obj], [v for _, v in obj]) != want[i]:
            fails.append("line %d holds %r, expected keys %r values %r" % (i + 1, obj, want[i][0], want[i][1]))
    return fails, len(lines)


def o_pairs(w):
    return next((x[6:] for x in w if x.startswith("pairs=")), "-")


def o_hdr(w):
    return next((x[4:] for x in w if x.startswith("hdr=")), "")


# ------------------------------------------------------------------------------------------------------------------
class Run:
    """accumulates harness + driver output of one stream"""

    def __init__(self, prop, fixed_classes):
        self.prop = prop
        self.fixed = fixed_classes
        self.violations = []      # (tag, replay_content, text)
        self.known = {}           # class -> [count, sample]
        self.mismatches = []      # (label, line, replay)
        self.stats = {}
        self.cov = {"driver_lines": 0, "scan_lines": 0, "e2e_statements": 0, "json_parsed": 0, "json_needs_escaping": 0,
                    "json_multi_line": 0, "first_sighting_orders": 0, "cache_dumps": 0, "theorem_instances_checked": 0,
                    "cls_crosschecked": 0, "jsonfault_cases": 0, "jsonfault_statements": 0, "jsonfault_faults": 0,
                    "jsonfault_lines_parsed": 0, "jsonfault_cases_with_statement_after_fault": 0}
        self.templates = set()
        self.nontrivial = set()
        self.e2e_cases = set()
        self.samples = []
        self.harness_stats = []
        self.traces = 0
        self.outside = {"procOK": set(), "detectOK": set()}     # scan templates outside a class (model's CLS lines)
        self.wrong = {"procOK": set(), "detectOK": set()}       # scan templates on which the reference oracle fired
        self.jf_nontrivial = set()

    def note_known(self, cls, sample):
        k = self.known.setdefault(cls, [0, sample])
        k[0] += 1

    def oracle_verdict(self, what, hex_t, line, replay, idx=None):
        c = classify(hex_t)
        if c is not None and idx is not None and idx >= 50 and what in ("message", "pairs") and "logjArg" not in self.fixed:
            # LOGJ_ never generates a spec: a `:` inside a placeholder of a LOGJ_ template comes from the argument spelling
            ps = parse(unhex(hex_t))
            if any(p[0] == "F" and p[2] is not None for p in ps):
                self.note_known("logjArg", line)
                return
        relevant = {"detect": ["detectOK"], "positional": ["procOK"], "keys": ["procOK"],
                    "message": ["procOK", "detectOK"], "pairs": ["procOK", "detectOK"]}.get(what, [])
        if c is not None:
            for cl in relevant:
                if not c[cl] and cl not in self.fixed:
                    self.note_known(cl, line)
                    return
        self.violations.append(("oracle_" + what, replay,
                                "property fails on the real code outside the known F11 template classes: " + line[:400]))

    def process(self, label, hout, dout):
        lines = hout.split("\n")
        jf_case = []
        seg_start = 0         # index of the last cache-clear
        prefix_ops = []       # e2e-init / san lines seen so far
        dlines = dout.split("\n")
        cls_driver = {}
        for dl in dlines:
            if dl.startswith("CLS "):
                w = dl.split()
                d = kv(w[2:])
                cls_driver[w[1]] = d
            elif dl.startswith("TRACE"):
                self.traces += 1
                d = kv(dl.split()[2:])
                if "theorem_instances_checked" in d:
                    self.cov["theorem_instances_checked"] += int(d["theorem_instances_checked"])
            elif dl.startswith("DONE"):
                d = kv(dl.split()[1:])
                self.cov["driver_lines"] += int(d.get("lines", 0))
            elif dl.startswith(("MISMATCH", "BAD-", "THEOREM-INSTANCE-FAILS")):
                ln = None
                for tok in dl.replace(":", " ").split():
                    if tok.startswith("line="):
                        ln = int(tok[5:])
                if ln is None and dl.startswith("BAD-"):
                    try:
                        ln = int(dl.split()[2].rstrip(":"))
                    except Exception:  # noqa: BLE001
                        ln = None
                self.mismatches.append((label, dl, self.replay_for(lines, ln - 1) if ln else ""))
        # cross-check the class predicates of the model with the independent ones here
        for hx, d in cls_driver.items():
            c = classify(hx)
            self.cov["cls_crosschecked"] += 1
            for cl in ("procOK", "detectOK"):
                if d.get(cl) == "0":
                    self.outside[cl].add(hx)
            if c is None or int(c["procOK"]) != int(d["procOK"]) or int(c["detectOK"]) != int(d["detectOK"]):
                self.mismatches.append((label, "class predicates disagree for template %s: model %r, checker %r" % (hx, d, c),
                                        "scan %s\n" % hx))
        for i, ln in enumerate(lines):
            if ln.startswith("scan "):
                w = ln.split()
                self.cov["scan_lines"] += 1
                self.templates.add(w[1])
                if len(self.samples) < 2 and len(w[1]) > 16 and w[2] != "-":
                    self.samples.append({"source": label, "line": ln})
            elif ln.startswith("log "):
                op, _, ob = ln.partition(" => ")
                w = op.split()
                obs = kv(ob.split())
                self.cov["e2e_statements"] += 1
                self.e2e_cases.add((w[1], w[2]))
                if len(self.samples) < 4 and obs.get("pairs", "-") != "-" and len(self.samples) >= 2:
                    self.samples.append({"source": label, "line": ln[:600]})
                if "json" in obs:
                    fails, st = json_oracle(w, obs)
                    self.cov["json_parsed"] += st.get("parsed", 0)
                    self.cov["json_needs_escaping"] += st.get("needs_escaping", 0)
                    self.cov["json_multi_line"] += st.get("multi_line", 0)
                    for f in fails:
                        self.violations.append(("oracle_json", self.replay_for(lines, i),
                                                "JSON line of the real JsonFileSink violates the property (template %s): %s" % (w[3], f)))
            elif ln.startswith("cache-dump"):
                self.cov["cache_dumps"] += 1
            elif ln.startswith("jf-begin"):
                jf_case = []
            elif ln.startswith("jlog "):
                op, _, ob = ln.partition(" => ")
                jf_case.append((op.split(), kv(ob.split())))
                self.cov["jsonfault_statements"] += 1
                self.cov["jsonfault_faults"] += int(op.split()[3] != "ok")
            elif ln.startswith("jf-end"):
                self.cov["jsonfault_cases"] += 1
                kinds = [w[3] != "ok" for w, _ in jf_case]
                if any(a and not b for a, b in zip(kinds, kinds[1:])):
                    self.cov["jsonfault_cases_with_statement_after_fault"] += 1
                    self.jf_nontrivial.add(tuple((w[1], w[3]) for w, _ in jf_case))
                if all("wrote" in o for _, o in jf_case):
                    fails, nlines = jsonfault_oracle(jf_case)
                    self.cov["jsonfault_lines_parsed"] += nlines
                    for f in fails[:1]:
                        self.violations.append(("oracle_jsonfault", self.replay_for(lines, i),
                                                "property fails on the real code: a throwing JSON sink left something behind / the file is not one object per delivered statement: " + f))
                if len(self.samples) < 6 and any(kinds) and len(self.samples) >= 4:
                    self.samples.append({"source": label, "case": [" ".join(w[:1] + w[3:4]) + " => " + " ".join("%s=%s" % (k, v[:60]) for k, v in o.items()) for w, o in jf_case]})
            elif ln.startswith("ORACLE jf-"):
                self.violations.append(("oracle_jsonfault", self.replay_for(lines, i - 1),
                                        "property fails on the real code: a throwing JSON sink left something behind: " + ln[:400]))
            elif ln.startswith("ORACLE "):
                w = ln.split()
                d = kv(w[2:])
                if w[1] in ("positional", "keys"):
                    self.wrong["procOK"].add(d.get("tmpl", "-"))
                elif w[1] == "detect":
                    self.wrong["detectOK"].add(d.get("tmpl", "-"))
                self.oracle_verdict(w[1], d.get("tmpl", "-"), ln, self.replay_for(lines, i - 1),
                                    int(d["idx"]) if d.get("idx", "").isdigit() else None)
            elif ln.startswith("STATS"):
                self.harness_stats.append(label + ": " + ln)
                d = kv(ln.split()[1:])
                self.cov["first_sighting_orders"] += int(d.get("e2e_first_sighting_orders", 0))

    @staticmethod
    def replay_for(lines, i):
        """ops needed to reproduce line i of a harness output"""
        if i is None or i < 0 or i >= len(lines):
            return ""
        ln = lines[i]
        if ln.startswith("ORACLE") and i > 0:
            return Run.replay_for(lines, i - 1)
        if ln.startswith("scan "):
            return ln.split(" => ")[0] + "\n"
        if ln.startswith(("jlog ", "jf-")):
            # fault stream: the statements of this case so far (call site, argument vector, fault)
            start = i
            while start > 0 and not lines[start].startswith("jf-begin"):
                start -= 1
            ops = ["e2e-init", "san 1"]
            for k in range(start, i + 1):
                l2 = lines[k]
                if l2.startswith("jlog "):
                    ops.append(" ".join(l2.split()[:4]))
                elif l2.startswith("jf-begin"):
                    ops.append(l2.strip())
            ops.append("jf-end")
            return "\n".join(ops) + "\n"
        # e2e: e2e-init, the last san, everything since the last cache-clear
        start = i
        while start > 0 and not lines[start].startswith("cache-clear"):
            start -= 1
        san = "san 1"
        for k in range(start, -1, -1):
            if lines[k].startswith("san "):
                san = lines[k]
                break
        ops = ["e2e-init", san]
        for k in range(start, i + 1):
            l2 = lines[k]
            if l2.startswith(("ORACLE", "STATS", "san ", "e2e-init")) or not l2.strip():
                continue
            ops.append(l2.split(" => ")[0])
        return "\n".join(ops) + "\n"

    def nontrivial_count(self):
        n = 0
        for hx in self.templates:
            t = unhex(hx)
            if b"{" in t and (b"{{" in t or b"}}" in t or b":" in t):
                n += 1
        return n


def fixed_classes():
    out = set()
    p = os.path.join(vlib.VERIF, "known_findings.json")
    if os.path.exists(p):
        for f in json.load(open(p)).get("findings", []):
            if f.get("property") == "C19" and f.get("status") == "fixed":
                for cl, (fid, _) in F11_CLASSES.items():
                    if f.get("id") in (fid, "F11"):
                        out.add(cl)
    return out


def harness_and_driver(hbin, args, timeout=1500):
    rc, out = vlib.sh([hbin] + args, env=vlib.ASAN_ENV, timeout=timeout)
    rc2, dout = vlib.driver(["named"], stdin_data=out.encode())
    return rc, out, dout


def run(prop, tier):
    ck = vlib.Check(prop, tier, level="proof")
    ck.assumptions = [
        "fmt (fmtquill) is trusted beyond its top level: `{{`/`}}` unescape, automatic indexing, literal text copied; per-argument rendering is an input of the model and is checked on the real code against fmtquill::format per argument",
        "strings are byte strings; templates shorter than 2^32 bytes (the detection scanner counts in uint32_t)",
        "the e2e stream uses one frontend thread and the ManualBackendWorker; check_printable_char is the default or disabled",
    ]
    ps = ck.proof_side(MODULES[prop], THEOREMS[prop], OBLIG)
    for b in ps["broken"]:
        ck.log("PROOF SIDE BROKEN: " + b)
    ok, hbin, log = vlib.build_harness("h3_named", ["h3_named.cpp"], extra_flags=["-fno-access-control"])
    if not ok:
        ck.violation("harness_build", log, "harness h3_named no longer compiles against the current tree (correspondence broken): " + log[-300:], no_input=True)
        return ck.finish()
    scratch = tempfile.mkdtemp(prefix="verif_named_")
    R = Run(prop, fixed_classes())
    try:
        cdir = os.path.join(vlib.VERIF, "corpus", prop)
        ncorpus = 0
        if os.path.isdir(cdir):
            for f in sorted(os.listdir(cdir)):
                rc, out, dout = harness_and_driver(hbin, ["replay", os.path.join(cdir, f), scratch], timeout=600)
                if rc not in (0, 3):
                    ck.violation("corpus_" + f, out[-3000:], "harness aborted on corpus case %s (rc=%d): sanitizer or crash" % (f, rc))
                R.process("corpus/" + f, out, dout)
                ncorpus += 1
        seeds = [ck.seed] if tier == "quick" else [ck.seed, ck.seed + 1000, ck.seed + 2000]
        for k, sd in enumerate(seeds):
            scan_tier = "1" if (tier == "thorough" and k == 0) else "0"
            rc, out, dout = harness_and_driver(hbin, ["scan", str(sd), scan_tier])
            if rc not in (0, 3):
                ck.violation("abort_scan_seed%d" % sd, "h3_named scan %d %s\n\n%s" % (sd, scan_tier, out[-4000:]),
                             "harness aborted (rc=%d) while driving the real scanners: sanitizer report or crash" % rc)
            R.process("scan seed=%d" % sd, out, dout)
            trials = 120 if tier == "quick" else 600
            rc, out, dout = harness_and_driver(hbin, ["e2e", str(sd), str(trials), scratch])
            if rc not in (0, 3):
                ck.violation("abort_e2e_seed%d" % sd, "h3_named e2e %d %d\n\n%s" % (sd, trials, out[-4000:]),
                             "harness aborted (rc=%d) while driving the real backend: sanitizer report or crash" % rc)
            R.process("e2e seed=%d" % sd, out, dout)
            ncases = 150 if tier == "quick" else 2500
            rc, out, dout = harness_and_driver(hbin, ["faults", str(sd), str(ncases), scratch])
            if rc not in (0, 3):
                ck.violation("abort_faults_seed%d" % sd, "h3_named faults %d %d\n\n%s" % (sd, ncases, out[-4000:]),
                             "harness aborted (rc=%d) while driving the throwing JSON sink: sanitizer report or crash" % rc)
            R.process("faults seed=%d" % sd, out, dout)
        # proof side broken and nothing found yet: look harder (deeper scopes, more seeds) for a failing input
        if ps["broken"] and not R.violations and tier == "quick":
            for sd in (ck.seed + 7000, ck.seed + 8000):
                rc, out, dout = harness_and_driver(hbin, ["scan", str(sd), "1"])
                R.process("search scan seed=%d" % sd, out, dout)
                rc, out, dout = harness_and_driver(hbin, ["e2e", str(sd), "300", scratch])
                R.process("search e2e seed=%d" % sd, out, dout)
                if R.violations:
                    break
    finally:
        shutil.rmtree(scratch, ignore_errors=True)

    # ---- verdicts --------------------------------------------------------------------------------------------
    seen = set()
    R.violations.sort(key=lambda v: len(v[1]) if v[0] == "oracle_jsonfault" else 0)   # shortest failing fault case first (stable)
    for tag, replay, text in R.violations:
        if tag in seen:
            continue
        seen.add(tag)
        content = "# property oracle on the real code\n# %s\n# replay: python3 tools/check.py %s --replay <this file>\n%s" % (text[:300], prop, replay)
        n = sum(1 for t, _, _ in R.violations if t == tag)
        ck.violation(tag, content, "%s (%d hits of this kind in this run)" % (text, n))
    if R.mismatches and not R.violations:
        label, ln, replay = R.mismatches[0]
        content = "# correspondence stream `named` (harness h3_named vs Lean driver) no longer agrees\n# %s\n# %s\n%s" % (label, ln[:500], replay)
        ck.violation("correspondence", content,
                     "model and implementation disagree (%d lines), no property oracle fired: %s" % (len(R.mismatches), ln[:400]), no_input=True)
    if ps["broken"] and not R.violations and not R.mismatches:
        ck.violation("proof_broken", "theorems/obligations that no longer check:\n" + "\n".join(ps["broken"]) + "\n",
                     "proof side broken, no failing input found: " + ps["broken"][0][:300], no_input=True)
    for cl, (cnt, sample) in sorted(R.known.items()):
        fid, text = F11_CLASSES[cl]
        ck.known("%s %s — %d oracle hits in this run, e.g. %s" % (fid, text, cnt, sample[:200]))

    ck.cov.update({
        "evaluations": R.cov["driver_lines"],
        "traces_validated_against_impl": R.traces,
        "distinct_nontrivial": R.nontrivial_count() + len(R.e2e_cases) + len(R.jf_nontrivial),
        "rule": "scan stream: distinct template strings that contain a placeholder and also an escaped brace pair or a spec "
                "(%d of %d distinct templates); e2e stream: distinct (call site, argument vector) statements pushed through the real "
                "backend and JsonFileSink (%d); faults stream: distinct (call sites, fault schedule) sequences of 4-8 statements through a throwing "
                "JsonFileSink subclass in which a fault is followed by a delivered statement (%d)" % (
                    R.nontrivial_count(), len(R.templates), len(R.e2e_cases), len(R.jf_nontrivial)),
        "samples": R.samples,
        "corpus_cases": ncorpus,
        "harness_stats": R.harness_stats,
        "counters": R.cov,
        "extracted": {k: ck.extracted.get("named", {}).get(k) for k in ("separator", "jsonLayout", "detectEqChars", "detectAlphaRanges",
                                                                     "detectTrailingInc", "processFindChars", "cacheKeyIsOriginalTemplate",
                                                                     "logjShapeOK", "jsonClearBefore", "jsonClearAfter", "jsonWriteOrderOK")},
        "mismatching_lines": len(R.mismatches),
        "oracle_violations": len(R.violations),
        "known_class_hits": {cl: v[0] for cl, v in R.known.items()},
        "class_tightness": {cl: {"templates_outside_class": len(R.outside[cl]),
                                 "of_which_scanner_really_wrong": len(R.outside[cl] & R.wrong[cl]),
                                 "wrong_but_inside_class": len(R.wrong[cl] - R.outside[cl])}
                            for cl in ("procOK", "detectOK")},
    })
    return ck.finish()


def replay(prop, path):
    ok, hbin, log = vlib.build_harness("h3_named", ["h3_named.cpp"], extra_flags=["-fno-access-control"])
    if not ok:
        print(log)
        return 2
    vlib.run_extract()
    vlib.lake_build(["driver"])
    scratch = tempfile.mkdtemp(prefix="verif_named_")
    try:
        rc, out, dout = harness_and_driver(hbin, ["replay", path, scratch], timeout=600)
    finally:
        shutil.rmtree(scratch, ignore_errors=True)
    print(out)
    print(dout)
    R = Run(prop, fixed_classes())
    R.process("replay", out, dout)
    for cl, (cnt, sample) in sorted(R.known.items()):
        print("KNOWN-FINDING: property=%s %s %s (%d hits)" % (prop, F11_CLASSES[cl][0], F11_CLASSES[cl][1], cnt))
    for tag, _, text in R.violations:
        print("REPLAY-VIOLATION %s: %s" % (tag, text))
    for label, ln, _ in R.mismatches:
        print("REPLAY-MISMATCH %s" % ln[:300])
    return 1 if (R.violations or R.mismatches or rc not in (0, 3)) else 0
