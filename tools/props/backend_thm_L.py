"""Logger-registry bundle: the by-name lookup of LoggerManager (vector of unique_ptr<LoggerBase> kept strictly sorted by
name, binary search) is the linear search by name, is idempotent, and is untouched by the removal and the clean-up of
other loggers, for every sequence of create_or_get / get / remove / clean-up (per-logger queue-check answers) / get_all /
count. Model LogReg/Model.lean, proofs LogReg/Proofs.lean, theorems Props/C17LogReg.lean, obligations
Obligations/LogReg.lean (extraction tools/extractors/logreg.py); correspondence stream tools/logreg_stream.py (harness
h3_logreg with a linear-search reference registry, driver `logreg`).
Supports C17; listed only once the logger-removal bundle (backend_thm_C.py) exists."""
import os

_HAVE_C = os.path.exists(os.path.join(os.path.dirname(os.path.abspath(__file__)), "backend_thm_C.py"))
THEOREMS = {"C17": ["LogReg.C17_logreg_sorted", "LogReg.C17_logreg_one_entry_per_name", "LogReg.C17_logreg_ids_fresh",
                    "LogReg.C17_logreg_find_is_linear_search", "LogReg.C17_logreg_get", "LogReg.C17_logreg_create_or_get",
                    "LogReg.C17_logreg_idempotent", "LogReg.C17_logreg_cleanup", "LogReg.C17_logreg_remove",
                    "LogReg.C17_logreg_recreate_after_erase", "LogReg.C17_logreg_unstable_cleanup_lookup_fails",
                    "LogReg.C17_logreg_upper_find_never_finds", "LogReg.C17_logreg_upper_insert_same_trace", "LogReg.rinv_step",
                    "Obligations.logreg_extraction_complete", "Obligations.logreg_params_ok",
                    "Obligations.logreg_comparators_ascending", "Obligations.logreg_structure",
                    "Obligations.logreg_cleanup_erases_in_place", "Obligations.C17_logreg_idempotent_extracted",
                    "Obligations.C17_logreg_sorted_extracted"]} if _HAVE_C else {}
MODULES = {"C17": ["QuillModel.Props.C17LogReg"]} if _HAVE_C else {}
OBLIG = ["QuillModel.Obligations.LogReg"] if _HAVE_C else []
