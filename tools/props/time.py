"""C13 — rendered time = strftime of the instant + exact fractional digits.

Proof: lean/QuillModel/Props/C13.lean over the model in lean/QuillModel/Time/*.lean; Obligations/Time.lean ties the
tables and constants of StringFromTime.h / TimestampFormatter.h (extracted on every run) to the model's.
Correspondence: harness/h3_time.cpp drives the real TimestampFormatter with generated (pattern, mode, zone, instant
sequence) cases; `driver time trace` recomputes every rendered string from the model; the harness's own oracle is
libc gmtime_r/localtime_r + strftime per call + snprintf of the fraction."""
import os
import re

import vlib

PROPS = ["C13"]

MANIFEST = {
    "C13": dict(
        technique="Lean 4 proof: invariant on the strftime cache (cached string = reference at the cached instant, field positions, "
                  "patch arithmetic, recalculation window) for every supported pattern and every history of instants; character-level "
                  "model of the pattern rewriting/splitting against a lexer-based C-locale strftime reference; extraction of the "
                  "special-cased modifier tables and recalculation constants; differential correspondence against the real "
                  "TimestampFormatter and a libc oracle over the tz database",
        text="Machine-checked proof (Lean 4) that for every supported pattern and every sequence of instants in 2001-2100 (any order, "
             "repeats, jumps backwards) the TimestampFormatter/StringFromTime cache machine renders exactly strftime of the broken-down "
             "instant with %Qms/%Qus/%Qns replaced by the zero-padded fraction, in GMT mode unconditionally and in local-time mode for "
             "every zone whose offset data is constant on the recalculation windows the code uses (decidable premise, checked against "
             "the tz database on every run); that %X, two different and (after the F21 repair) repeated fractional specifiers are rejected; with proved counter-witnesses "
             "for the accepted-but-stale conversions (F8), for a literal %% before r R T X Q (F20), for the unrepaired constructor accepting a "
             "repeated fractional specifier (F21, fixed) and for a zone transition off the quarter-hour grid (F22). Tied to the code by extracting the modifier / patch / rewrite / rejection tables, "
             "recalculation constants, conditions and fraction widths from the headers and re-proving they equal the model's, and by "
             "running the real formatter, the Lean model and libc on the same generated cases.",
        note="strftime/localtime_r/gmtime_r and the tz database are the reference, modelled for the C locale without glibc flag/width "
             "extensions; %s only for ten-digit epochs; local-time theorem carries the zone premise explicitly.",
        ref="§5 C13, §7 F8 F20 F21 F22"),
}

THEOREMS = ["Time.C13_gmt", "Time.C13_local", "Time.C13_rejects", "Time.C13_frac_writer", "Time.C13_patch_fields",
            "Time.C13_recalc_points", "Time.C13_civil_roundtrip", "Time.C13_F8_stale", "Time.C13_pctpct_miswritten",
            "Time.C13_dupfrac_unrepaired_accepted", "Time.C13_offgrid_transition_stale",
            "Obligations.time_extraction_complete", "Obligations.time_modifiers", "Obligations.time_patch_table", "Obligations.time_split_lowest",
            "Obligations.time_patch_args", "Obligations.time_rewrites", "Obligations.time_replace_loop", "Obligations.time_rejected",
            "Obligations.time_noon_midnight", "Obligations.time_hms", "Obligations.time_cached_seconds",
            "Obligations.time_conditions", "Obligations.time_frac_table", "Obligations.time_frac_ctor",
            "Obligations.time_strftime_buffer", "Obligations.time_local_period", "Obligations.time_rejects_repeated", "Obligations.C13_rejects_extracted", "Obligations.model_tables_coherent",
            "Obligations.model_patch_text", "Obligations.C13_extracted",
            "Time.SFT.step_spec", "Time.TF.step_spec", "Time.TF.init_spec", "Time.charsOf_lex", "Time.lex_charsOf", "Time.splitOnceCpp_eq", "Time.replaceAllCpp_eq"]
MODULES = ["QuillModel.Props.C13"]
OBLIG = ["QuillModel.Obligations.Time"]

QUICK_ZONES = ["UTC", "Europe/London", "America/New_York", "Asia/Kolkata", "Asia/Kathmandu", "Australia/Lord_Howe",
               "Pacific/Chatham", "America/St_Johns"]
ZONEINFO = "/usr/share/zoneinfo"

# input classes of the findings (F8: DESIGN §7; F20, F21, F22 found by this check) — keyed so that anything else still alarms.
# status: known_findings.json decides when it lists the id; otherwise the default below (F21 was repaired by a fix: commit).
FINDINGS = {
    "F8": "accepted but rendered stale: pattern uses one of %c %Ec %EX %OH %OI %OM %OS (time-of-day conversions the cache neither patches, rewrites nor rejects)",
    "F20": "a literal %% directly before r R T X or Q?s is read as a conversion by the substring searches (rewritten / rejected / fraction inserted)",
    "F21": "the same fractional specifier twice (e.g. %Qms…%Qms) is accepted; the second one is printed literally",
    "F22": "local time: zone whose offset changes inside a recalculation window (transition off the quarter-hour grid, e.g. America/St_Johns 2001-2011 at 00:01 local): hour, %z and %Z stay stale until the next recalculation point",
}
DEFAULT_STATUS = {"F8": "known", "F20": "known", "F21": "fixed", "F22": "known"}
ORDER = ("F8", "F20", "F21", "F22")  # pattern classes first


def all_zones():
    out = []
    for root, dirs, files in os.walk(ZONEINFO):
        dirs.sort()
        rel = os.path.relpath(root, ZONEINFO)
        top = rel.split(os.sep)[0]
        if top in ("posix", "right"):
            dirs[:] = []
            continue
        for f in sorted(files):
            p = os.path.join(root, f)
            try:
                with open(p, "rb") as fh:
                    if fh.read(4) != b"TZif":
                        continue
            except OSError:
                continue
            name = f if rel == "." else rel + "/" + f
            if name in ("posixrules", "localtime"):
                continue
            out.append(name)
    return out


# ---- an independent reading of the pattern (third implementation, Python) for the finding classes --------------

def py_tokens(p):
    toks, i, n = [], 0, len(p)
    while i < n:
        if p[i] != "%":
            toks.append(("lit", p[i]))
            i += 1
        elif i + 1 >= n:
            toks.append(("stray", "%"))
            i += 1
        elif p[i + 1] == "%":
            toks.append(("pct", "%%"))
            i += 2
        elif p[i + 1] == "Q" and p[i + 2:i + 4] in ("ms", "us", "ns"):
            toks.append(("frac", p[i:i + 4]))
            i += 4
        elif p[i + 1] in "EO" and i + 2 < n:
            toks.append(("mod", p[i + 1:i + 3]))
            i += 3
        else:
            toks.append(("conv", p[i + 1]))
            i += 2
    return toks


def classes_of(pattern):
    """set of finding classes the pattern belongs to"""
    t = py_tokens(pattern)
    out = set()
    for k, v in t:
        if (k == "conv" and v == "c") or (k == "mod" and v in ("Ec", "EX", "OH", "OI", "OM", "OS")):
            out.add("F8")
    for a, b in zip(t, t[1:]):
        if a[0] == "pct" and b[0] == "lit" and b[1] in "rRTXQ":
            out.add("F20")
    fr = [v for k, v in t if k == "frac"]
    if len(fr) >= 2 and len(set(fr)) == 1:
        out.add("F21")
    return out


def finding_status(fid):
    """'fixed' suppresses nothing; 'known' → KNOWN-FINDING. known_findings.json wins over the default table."""
    import json
    p = os.path.join(vlib.VERIF, "known_findings.json")
    try:
        for f in json.load(open(p)).get("findings", []):
            if f.get("id") == fid and f.get("property") == "C13":
                return f.get("status", "known")
    except Exception:
        pass
    return DEFAULT_STATUS.get(fid, "fixed")


def split_cases(text):
    """harness output → {id: [lines]} in order, plus ZONE / STATS lines"""
    cases, order, cur, zones, stats = {}, [], None, [], []
    for ln in text.split("\n"):
        if ln.startswith("case "):
            cid = ln.split()[1]
            cur = [ln]
            cases[cid] = cur
            order.append(cid)
        elif ln.startswith("ZONE "):
            zones.append(ln)
        elif ln.startswith("STATS"):
            stats.append(ln)
        elif cur is not None and ln.strip():
            cur.append(ln)
    return cases, order, zones, stats


def replay_text(lines, upto_ns=None, keep_last=None):
    """case + t lines (observations dropped); up to and including the instant `upto_ns`"""
    head = lines[0]
    ts = []
    for ln in lines[1:]:
        if ln.startswith("t "):
            ts.append(ln.split()[1])
            if upto_ns is not None and ts[-1] == upto_ns:
                break
    if keep_last is not None and len(ts) > keep_last:
        ts = ts[-keep_last:]
    return head + "\n" + "".join("t %s\n" % t for t in ts)


def unhex(h):
    return "" if h == "-" else bytes.fromhex(h).decode("latin-1")


def run(prop, tier):
    ck = vlib.Check(prop, tier, level="proof")
    ck.assumptions = [
        "libc gmtime_r/localtime_r/strftime/timegm and the tz database are the reference (modelled: proleptic Gregorian civil-from-days, C locale, no glibc flag/width extensions)",
        "local-time theorem: zone data (gmtoff, isdst, abbreviation) constant on every recalculation window [kP,(k+1)P) and gmtoff a multiple of P (P extracted, 900 s in the pinned tree) — checked per zone against the tz database by the harness, per case by the driver",
        "%s only for ten-digit epochs; libc's own %s is meaningful only in local-time mode or with a UTC process zone",
        "patterns: the conversions of the C locale without flags/widths; no literal %% directly before H M S I k l s (property's own exclusion)",
    ]
    ps = ck.proof_side(MODULES, THEOREMS, OBLIG)
    ex = ck.extracted
    P = int(ex.get("time", {}).get("localPeriod", 0) or 0)
    for b in ps["broken"]:
        ck.log("PROOF SIDE BROKEN: " + b)
    if P <= 0:
        P = 900  # the extraction failure is already recorded in ps["broken"]; keep the correspondence running
    RR = "1" if ex.get("time", {}).get("rejectsRepeatedSpecifier") else "0"
    env = dict(vlib.ASAN_ENV)
    env["H3_PERIOD"] = str(P)

    ok, hbin, log = vlib.build_harness("h3_time", ["h3_time.cpp"])
    if not ok:
        ck.violation("harness_build", log, "harness h3_time no longer compiles against the current tree (correspondence broken): " + log[-300:], no_input=True)
        return ck.finish()

    zq = os.path.join(vlib.CACHE, "zones_quick.txt")
    open(zq, "w").write("\n".join(QUICK_ZONES) + "\n")
    runs = []  # (label, argv)
    if tier == "quick":
        runs.append(("gen seed=%d quick zones" % ck.seed, [hbin, "gen", str(ck.seed), "1000", "40", zq]))
    else:
        za = os.path.join(vlib.CACHE, "zones_all.txt")
        zones = all_zones()
        open(za, "w").write("\n".join(zones) + "\n")
        for sd in (ck.seed, ck.seed + 1000, ck.seed + 2000):
            runs.append(("gen seed=%d quick zones deep" % sd, [hbin, "gen", str(sd), "3000", "48", zq]))
        runs.append(("gen seed=%d all %d zones" % (ck.seed + 3000, len(zones)), [hbin, "gen", str(ck.seed + 3000), "40", "40", za]))

    tot = dict(lines=0, cases=0, applies=0, nontrivial=0, mism=0, problems=0)
    counters = {}
    oracle_hits = []       # (label, line, case_lines)
    mismatches = []        # (label, line, case_lines)
    zone_lines = {}
    stats_lines = []
    samples = []
    aborts = []

    def process(text, label):
        cases, order, zones, stats = split_cases(text)
        for z in zones:
            zone_lines[z.split()[1]] = z
        stats_lines.extend(label + ": " + s for s in stats)
        rc, dout = vlib.driver(["time", "trace", str(P), RR], stdin_data=text.encode())
        done = False
        for ln in dout.split("\n"):
            if ln.startswith("TRACE "):
                kv = dict(x.split("=", 1) for x in ln.split()[2:])
                tot["cases"] += 1
                if kv["applies"] == "1":
                    tot["applies"] += 1
                    if int(kv["recalc"]) > 0 and int(kv["patch"]) > 0 and int(kv["fallback"]) > 0:
                        tot["nontrivial"] += 1
            elif ln.startswith(("MISMATCH", "MODEL-REF-DIFF", "BAD-", "NO-CASE")):
                m = re.search(r"case=(\S+)", ln)
                mismatches.append((label, ln, cases.get(m.group(1)) if m else None))
            elif ln.startswith("DONE"):
                done = True
                kv = dict(x.split("=", 1) for x in ln.split()[1:])
                tot["lines"] += int(kv["lines"])
                for k in ("recalc", "patch", "fallback", "same", "static", "rejected", "supported_cases", "refdiff_outside_theorem"):
                    counters[k] = counters.get(k, 0) + int(kv[k])
        if not done:
            mismatches.append((label, "driver did not finish (rc=%d): %s" % (rc, dout[-300:]), None))
        for cid in order:
            for ln in cases[cid]:
                if ln.startswith("ORACLE"):
                    oracle_hits.append((label, ln, cases[cid]))
        if order and len(samples) < 3:
            c = cases[order[0]]
            samples.append({"source": label, "pattern": unhex(c[0].split()[5]), "case": c[:6]})

    # corpus first
    cdir = os.path.join(vlib.VERIF, "corpus", prop)
    ncorpus = 0
    if os.path.isdir(cdir):
        for f in sorted(os.listdir(cdir)):
            rc, out = vlib.sh([hbin, "replay", os.path.join(cdir, f)], env=env, timeout=600)
            if rc not in (0, 3):
                aborts.append(("corpus/" + f, rc, out))
            process(out, "corpus/" + f)
            ncorpus += 1
    for label, argv in runs:
        rc, out = vlib.sh(argv, env=env, timeout=3000)
        if rc not in (0, 3):
            aborts.append((label, rc, out))
        process(out, label)

    # directed witnesses for zones that fail the premise: straddle the first off-grid transitions
    directed = []
    for z, ln in sorted(zone_lines.items()):
        m = re.search(r" at=([\d,]+)", ln)
        if "premise=0" in ln and m:
            for tr in m.group(1).split(",")[:2]:
                t = int(tr)
                if t % P == 0 or t % P < 2:
                    continue
                directed.append("case dir_%s_%d L %s sup %s\n" % (z.replace("/", "_"), t, z, "%H:%M:%S %z".encode().hex()) +
                                "".join("t %d\n" % (x * 10 ** 9) for x in (t - 2, t - 1, t, t + 1)))
    if directed:
        dp = os.path.join(vlib.CACHE, "c13_directed_%d.txt" % os.getpid())
        open(dp, "w").write("".join(directed))
        rc, out = vlib.sh([hbin, "replay", dp], env=env, timeout=600)
        os.remove(dp)
        if rc not in (0, 3):
            aborts.append(("directed", rc, out))
        process(out, "directed off-grid transitions")

    for label, rc, out in aborts:
        tail = out[-4000:]
        m = re.findall(r"^case .*$", out, re.M)
        ck.violation("abort", "# %s\n# harness aborted rc=%d (sanitizer report or crash) while running the real formatter\n%s\n\n%s" % (
            label, rc, m[-1] if m else "", tail),
            "harness aborted (rc=%d) in %s: sanitizer report or crash while driving the real TimestampFormatter" % (rc, label))

    # --- classify oracle hits -------------------------------------------------------------------------
    def live_classes(ln, clines):
        """finding classes (still open) that explain this oracle failure; [] = unexplained"""
        pat = unhex(clines[0].split()[5])
        cls = set(classes_of(pat))
        cause = re.search(r"cause=(\S+)", ln)
        if cause and cause.group(1) != "-":
            cls.add("F22")
        # a finding class only explains the kind of failure it produces
        if "accepted-should-reject" in ln:
            cls &= {"F21"}
        elif "rejected-should-accept" in ln:
            cls &= {"F20"}
        else:
            cls &= {"F8", "F20", "F22"}
        return [c for c in ORDER if c in cls and finding_status(c) != "fixed"]

    known_seen = {}
    unexplained = []
    for label, ln, clines in oracle_hits:
        live = live_classes(ln, clines)
        if live:
            known_seen.setdefault(live[0], []).append((label, ln, clines))
        else:
            unexplained.append((label, ln, clines))

    for fid in sorted(known_seen):
        label, ln, clines = known_seen[fid][0]
        ck.known("%s %s — %d oracle failures of this class in this run, e.g. %s" % (
            fid, FINDINGS[fid], len(known_seen[fid]), ln[:260]))

    def shrink(clines, ln):
        """smallest tail of the instants (ending at the failing one) that still makes the oracle fire"""
        m = re.search(r"\bns=(\d+)", ln)
        upto = m.group(1) if m else None
        best = replay_text(clines, upto)
        for k in (1, 2, 3, 5, 9):
            cand = replay_text(clines, upto, keep_last=k)
            rp = os.path.join(vlib.CACHE, "c13_shrink_%d.txt" % os.getpid())
            open(rp, "w").write(cand)
            rc, out = vlib.sh([hbin, "replay", rp], env=env, timeout=120)
            os.remove(rp)
            if "ORACLE" in out or rc not in (0, 3):
                return cand
        return best

    if unexplained:
        label, ln, clines = unexplained[0]
        content = "# %s\n# property oracle (libc strftime per call) on the real code: %s\n# replay: python3 tools/check.py C13 --replay <this file>\n%s" % (
            label, ln, shrink(clines, ln))
        ck.violation("oracle", content, "property fails on the real code: %s (%d oracle failures outside the known classes in this run)" % (ln[:300], len(unexplained)))
    if mismatches and not unexplained:
        label, ln, clines = mismatches[0]
        content = "# correspondence stream `time` (harness h3_time vs Lean driver) no longer agrees\n# %s\n# %s\n%s" % (
            label, ln, replay_text(clines) if clines else "")
        ck.violation("correspondence", content,
                     "model and implementation disagree (%d lines), no property oracle fired outside the known classes: %s" % (len(mismatches), ln[:300]),
                     no_input=True)
    if ps["broken"] and not unexplained and not ck.violations:
        # widen the search: deeper generated run on the quick zones with another seed
        rc, out = vlib.sh([hbin, "gen", str(ck.seed + 7777), "400", "48", zq], env=env, timeout=3000)
        cases, order, _, _ = split_cases(out)
        found = None
        for cid in order:
            for ln in cases[cid]:
                if ln.startswith("ORACLE") and not live_classes(ln, cases[cid]):
                    found = (ln, cases[cid])
                    break
            if found:
                break
        if found:
            ln, clines = found
            ck.violation("oracle_widened", "# found by the widened search after the proof side broke (%s)\n# %s\n%s" % (ps["broken"][0][:200], ln, shrink(clines, ln)),
                         "proof obligation broken (%s) and the property fails on the real code: %s" % (ps["broken"][0][:200], ln[:300]))
        else:
            ck.violation("proof_broken", "theorems/obligations that no longer check:\n" + "\n".join(ps["broken"]) + "\n",
                         "proof side broken, no failing input found: " + ps["broken"][0][:300], no_input=True)

    # zone premise summary
    bad_zones = sorted(z for z, ln in zone_lines.items() if "premise=0" in ln)
    if bad_zones and "F22" not in known_seen and not ck.violations:
        ck.violation("zone_premise", "zones violating the premise of C13_local (recalculation period %d):\n%s\n" % (P, "\n".join(zone_lines[z] for z in bad_zones)),
                     "the zone premise of the local-time theorem fails for %s and no failing input was found there" % ", ".join(bad_zones[:5]), no_input=True)

    dist = {}
    for s in stats_lines:
        for kv in s.split("STATS", 1)[1].split():
            k, v = kv.split("=")
            dist[k] = dist.get(k, 0) + int(v)
    ck.cov.update({
        "evaluations": tot["lines"],
        "traces_validated_against_impl": tot["cases"],
        "distinct_nontrivial": tot["nontrivial"],
        "rule": "one case = one generated (pattern, GMT/local mode, zone, history of ~40 instants); counted as non-trivial iff the pattern meets every "
                "hypothesis of the accept theorem and the history makes the cache recalculate, patch digits and fall back to strftime at least "
                "once each; cases are distinct by construction (PRNG stream)",
        "samples": samples,
        "corpus_cases": ncorpus,
        "theorem_applies_cases": tot["applies"],
        "model_branch_counters": counters,
        "generator_distribution": dist,
        "zones_checked": len(zone_lines),
        "zones_violating_premise": {z: zone_lines[z][:400] for z in bad_zones},
        "local_recalculation_period_extracted": P,
        "mismatching_lines": len(mismatches),
        "oracle_failures_known_classes": {k: len(v) for k, v in known_seen.items()},
        "oracle_failures_unexplained": len(unexplained),
        "extracted": ex.get("time", {}),
    })
    return ck.finish()


def replay(prop, path):
    ok, hbin, log = vlib.build_harness("h3_time", ["h3_time.cpp"])
    if not ok:
        print(log)
        return 2
    ex = vlib.run_extract()
    P = int(ex.get("time", {}).get("localPeriod", 0) or 900)
    env = dict(vlib.ASAN_ENV)
    env["H3_PERIOD"] = str(P)
    rc, out = vlib.sh([hbin, "replay", path], env=env)
    print(out)
    rc2, dout = vlib.driver(["time", "trace", str(P), "1" if ex.get("time", {}).get("rejectsRepeatedSpecifier") else "0"], stdin_data=out.encode())
    print(dout)
    bad = [l for l in out.split("\n") if l.startswith("ORACLE")]
    return 1 if bad or rc not in (0, 3) or rc2 != 0 else 0
