"""Proof bundle A of the backend properties: C03 (conservation, exactly-once dispatch, at most once per sink),
C10 (sink faults), C08 (dropping-queue accounting). Helper lemmas: lean/QuillModel/Backend/ConsProofs*.lean."""
THEOREMS = {
    "C03": ["Backend.C03_conservation", "Backend.C03_queue_coherent", "Backend.C03_empty_test_sound",
            "Backend.C03_removed_drained", "Backend.C03_registered_or_removed", "Backend.C03_live_context_valid",
            "Backend.C03_dispatch_exact", "Backend.C03_dispatch_no_fault", "Backend.C03_pop_emits_dispatch",
            "Backend.C03_ids_unique", "Backend.C03_at_most_once", "Backend.C03_writes_only_of_popped",
            "Backend.C03_popLog_merge", "Backend.C03_fresh_inv", "Backend.c03Init_fresh",
            "Backend.PA.runOps_closed", "Obligations.backendA_C03_structure", "Obligations.C03_extracted"],
    "C10": ["Backend.C10_conservation_under_faults", "Backend.C10_pop_on_every_path", "Backend.C10_process_makes_progress",
            "Backend.C10_write_fault_local", "Backend.C10_process_event_local", "Backend.C10_fault_schedule_constant",
            "Backend.C10_at_most_once_under_faults", "Backend.C10_flush_visits_every_sink",
            "Backend.C10_flush_fault_loses_nothing", "Backend.C10_flush_flag_raised", "Backend.C10_backtrace_without_init",
            "Backend.c10Init_fresh", "Backend.C03_dispatch_exact", "Obligations.backendA_C10_structure",
            "Obligations.C10_extracted"],
}
MODULES = {"C03": ["QuillModel.Props.C03"], "C10": ["QuillModel.Props.C10"]}
OBLIG = ["QuillModel.Obligations.BackendA"]
