"""Proof bundle A of the backend properties: C03 (conservation, exactly-once dispatch, at most once per sink),
C10 (sink faults), C08 (dropping-queue accounting). Helper lemmas: lean/QuillModel/Backend/ConsProofs*.lean."""
THEOREMS = {
    "C03": ["Backend.C03_conservation", "Backend.C03_queue_coherent", "Backend.C03_empty_test_sound",
            "Backend.C03_removed_drained", "Backend.C03_registered_or_removed", "Backend.C03_live_context_valid",
            "Backend.C03_dispatch_exact", "Backend.C03_dispatch_no_fault", "Backend.C03_pop_emits_dispatch",
            "Backend.C03_ids_unique", "Backend.C03_at_most_once", "Backend.C03_writes_only_of_popped",
            "Backend.C03_popLog_merge", "Backend.C03_nothing_written_before_pop", "Backend.C03_pop_writes_exactly",
            "Backend.C03_writes_frozen_after_pop", "Backend.C03_exactly_once", "Backend.C03_fresh_ordInv", "Backend.C03_thread_order_blocks",
            "Backend.C03_thread_order_at_sink", "Backend.C03_fresh_inv", "Backend.c03Init_fresh",
            "Backend.PA.runOps_closed", "Obligations.backendA_C03_structure", "Obligations.C03_extracted"],
    "C10": ["Backend.C10_conservation_under_faults", "Backend.C10_pop_on_every_path", "Backend.C10_process_makes_progress",
            "Backend.C10_write_fault_local", "Backend.C10_process_event_local", "Backend.C10_fault_schedule_constant",
            "Backend.C10_at_most_once_under_faults", "Backend.C10_flush_visits_every_sink",
            "Backend.C10_flush_fault_loses_nothing", "Backend.C10_flush_flag_raised", "Backend.C10_backtrace_without_init",
            "Backend.C10_unfaulted_exactly_once", "Backend.C10_order_under_faults", "Backend.C10_write_fault_reported",
            "Backend.C10_flush_fault_reported",
            "Backend.c10Init_fresh", "Backend.C03_dispatch_exact", "Obligations.backendA_C10_structure",
            "Obligations.C10_extracted"],
    "C08": ["Backend.C08_started_inv", "Backend.C08_cfg_constant", "Backend.C08_accounting",
            "Backend.C08_dropped_equals_reported_plus_pending", "Backend.C08_log_call_outcome",
            "Backend.C08_control_request_retried", "Backend.C08_retry_reattempts", "Backend.C08_control_kinds",
            "Backend.C08_dropped_call_id_unplaced", "Backend.C08_dropped_stalled_call_id_unplaced",
            "Backend.C08_unplaced_forever", "Backend.C08_discarded_never_written",
            "Backend.C08_removed_context_reported", "Backend.C08_fresh_reclaim_inv", "Backend.C08_cleanup_after_check",
            "Backend.C08_cache_covers_registry", "Backend.C08_idle_pass_drains_counters",
            "Backend.C08_quiescent_all_reported", "Backend.C08_empty_table_quiet",
            "Backend.C08_check_clears_counters",
            "Backend.C08_flush_cleanup_loses_count_unrepaired", "Backend.C08_flush_cleanup_reports_repaired",
            "Backend.C08_flush_cleanup_keeps_unreported", "Backend.C08_count_lost_between_check_and_cleanup",
            "Backend.C08_count_kept_until_reported", "Backend.c08Init_started",
            "Backend.C03_conservation", "Backend.C03_at_most_once",
            "Obligations.backendA_C08_structure", "Obligations.C08_extracted", "Obligations.C08_removed_extracted",
            "Obligations.C08_witnesses_extracted"],
}
MODULES = {"C03": ["QuillModel.Props.C03"], "C10": ["QuillModel.Props.C10", "QuillModel.Obligations.CodecStore", "QuillModel.Obligations.JsonSinkFaults"], "C08": ["QuillModel.Props.C08"]}
# C10 also rests on the codec fact that every statement is decoded into an EMPTY argument store (an unformattable statement is
# reported instead of borrowing another statement's arguments): theorem + extraction obligation of the codec bundle
THEOREMS["C10"] = THEOREMS["C10"] + ["Codec.C04_store_per_statement", "Obligations.codec_store_reset", "Obligations.C04_store_extracted",
                                       # and the one concrete sink with a buffer across statements (JSON sink): reset before the throwing customisation point
                                       "Named.C19_json_faults_leave_nothing", "Obligations.json_sink_clear_before_generate", "Obligations.C10_json_sink_faults_extracted"]
OBLIG = ["QuillModel.Obligations.BackendA"]
# per property (a broken fact of C08 is not C03's broken tie)
OBLIG_BY_PROP = {"C03": ["QuillModel.Obligations.BackendA_C03", "QuillModel.Obligations.BackendA_Common"], "C10": ["QuillModel.Obligations.BackendA_C10", "QuillModel.Obligations.BackendA_Common"],
                 "C08": ["QuillModel.Obligations.BackendA_C08", "QuillModel.Obligations.BackendA_Common"]}
# w2_prog: exactly once as one statement over the whole trace (Props/C03Trace.lean)
THEOREMS["C03"] += ["Backend.C03_exactly_once_trace", "Backend.C03_once_iff", "Backend.PA.PW.run"]
MODULES["C03"] += ["QuillModel.Props.C03Trace"]
# lift round (w2_lifts): every sink fault reported exactly once over whole runs (Props/C10Faults.lean; balance skeleton
# Backend/LiftBal.lean on the PC skeleton, notification texts Backend/LiftNote.lean)
THEOREMS["C10"] += ["Backend.C10_write_faults_reported_once", "Backend.C10_write_faults_reported_once_from",
                    "Backend.C10_flush_faults_reported_once", "Backend.C10_flush_faults_reported_once_from",
                    "Backend.PC.bal_runOps", "Backend.PC.BalInv.closed"]
MODULES["C10"] += ["QuillModel.Props.C10Faults"]
# lift round (w2_lifts): the ghost counter `reported` tied to the counts printed in the notify events of the log
# (Props/C08Log.lean; parseCount / parseCount_reportStr in Backend/LiftNote.lean)
THEOREMS["C08"] += ["Backend.C08_reported_is_notified", "Backend.C08_reported_is_notified_from",
                    "Backend.C08_accounting_on_log", "Backend.C08_dropped_equals_notified_plus_pending",
                    "Backend.PC.parseCount_reportStr", "Backend.PC.bal_runOps"]
MODULES["C08"] += ["QuillModel.Props.C08Log"]
# lift round 2 (w2_lifts): C08 on the observation texts of whole runs (Props/C08Trace.lean; helpers Backend/LiftObs*.lean:
# runObs, text classifiers, the poll walk ClosedC with PC.injStep as one unit)
THEOREMS["C08"] += ["Backend.runObs_fst", "Backend.C08_drops_are_observed", "Backend.C08_ret0_lines_le_discarded",
                    "Backend.C08_ret0_count_eq_discarded", "Backend.C08_attempted_eq_accepted_discarded",
                    "Backend.C08_attempted_eq_delivered_discarded_pending", "Backend.C08_actors_wf_along_run",
                    "Backend.C08_obs_classification", "Backend.C08_front_outcome_on_text", "Backend.C08_ret0_iff_discarded",
                    "Backend.C08_ret0_iff_discarded_resumed"]
MODULES["C08"] += ["QuillModel.Props.C08Trace"]
# format round (w2_fmt2): formatter exceptions in the backend model (Cfg.fmtFaults, fmtNote at decode in readQueue /
# readQueueU / readQueueF); Props/C10Format.lean
THEOREMS["C10"] += ["Backend.C10_fmt_note_step", "Backend.C10_fmt_fault_keeps_record", "Backend.C10_fmt_faults_constant"]
MODULES["C10"] += ["QuillModel.Props.C10Format"]
