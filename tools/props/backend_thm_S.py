"""Spinlock bundle (coordinator): mutual exclusion and visibility of the registries' lock under the view semantics.
Supports C17; listed only once the logger-removal bundle (backend_thm_C.py) exists."""
import os

_HAVE_C = os.path.exists(os.path.join(os.path.dirname(os.path.abspath(__file__)), "backend_thm_C.py"))
THEOREMS = {"C17": ["Spin.C17_spinlock_safe", "Spin.relaxed_exchange_stale", "Spin.relaxed_unlock_stale", "Spin.step_inv",
                    "Obligations.spin_orders_ok", "Obligations.spin_structure_ok", "Obligations.spin_extraction_complete",
                    "Obligations.C17_spinlock_extracted"]} if _HAVE_C else {}
MODULES = {"C17": ["QuillModel.Props.C17Spin"]} if _HAVE_C else {}
OBLIG = ["QuillModel.Obligations.Spin"] if _HAVE_C else []
