"""Sink-registry bundle: the by-name lookup of SinkManager (sorted vector of (name, weak_ptr)) is idempotent for every
sequence of create_or_get / get / release / sweep, whatever expired entries coexist with live ones.
Model SinkReg/Model.lean, proofs SinkReg/Proofs.lean, theorems Props/C17SinkReg.lean, obligations Obligations/SinkReg.lean
(extraction tools/extractors/sinkreg.py); correspondence stream tools/sinkreg_stream.py (harness h3_sinkreg, driver `sinkreg`).
Supports C17; listed only once the logger-removal bundle (backend_thm_C.py) exists."""
import os

_HAVE_C = os.path.exists(os.path.join(os.path.dirname(os.path.abspath(__file__)), "backend_thm_C.py"))
THEOREMS = {"C17": ["SinkReg.C17_sinkreg_sorted", "SinkReg.C17_sinkreg_one_alive_per_name", "SinkReg.C17_sinkreg_ids_fresh",
                    "SinkReg.C17_sinkreg_create_or_get", "SinkReg.C17_sinkreg_get", "SinkReg.C17_sinkreg_idempotent",
                    "SinkReg.C17_sinkreg_drop", "SinkReg.C17_sinkreg_expired_invisible", "SinkReg.C17_sinkreg_cleanup",
                    "SinkReg.C17_sinkreg_upper_insert_second_object", "SinkReg.C17_sinkreg_upper_insert_get_fails",
                    "SinkReg.C17_sinkreg_upper_find_never_finds", "SinkReg.rinv_step",
                    "Obligations.sinkreg_extraction_complete", "Obligations.sinkreg_params_ok",
                    "Obligations.sinkreg_comparators_ascending", "Obligations.sinkreg_structure",
                    "Obligations.C17_sinkreg_idempotent_extracted", "Obligations.C17_sinkreg_unique_extracted"]} if _HAVE_C else {}
MODULES = {"C17": ["QuillModel.Props.C17SinkReg"]} if _HAVE_C else {}
OBLIG = ["QuillModel.Obligations.SinkReg"] if _HAVE_C else []
