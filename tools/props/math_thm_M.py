"""Bundle M (math): the integer/bit arithmetic under the queues and the transit buffer — `is_power_of_two`,
`max_power_of_two`, `next_power_of_two` (MathUtilities.h) for every width and every input, and what the constructors
make of a requested capacity (BoundedSPSCQueueImpl ctor → C01; UnboundedSPSCQueue ctor / _handle_full_queue / shrink → C02;
TransitEventBuffer ctor / _mask / free-running positions through the 2^64 wrap → C03).

Attached to the existing checks the way tools/props/backend_thm_U.py attaches bundle U: THEOREMS / MODULES / OBLIG_BY_PROP are
merged into the owning bundle's lists (`attach`), and `stream(ck, prop, tier, ps)` runs the extra correspondence stream
(harness h3_math on the real functions/constructors vs `driver mathutil trace`, which executes the definitions of
lean/QuillModel/MathUtil/Model.lean + TransitW.lean the theorems are about) inside `python3 tools/check.py C01|C02|C03`."""
import os
import re
import time

import vlib

_COMMON = ["MathUtil.isPow2_iff", "MathUtil.maxPow2_eq", "MathUtil.nextPow2W_isNext", "MathUtil.nextPow2W_pow2",
           "MathUtil.nextPow2W_sat", "MathUtil.nextPow2W_lt_iff", "MathUtil.nextPow2W_zero", "MathUtil.nextPow2W_loop_bound",
           "MathUtil.nextPow2W_eq_uspsc", "MathUtil.nextPow2S_nonneg", "MathUtil.nextPow2S_neg", "MathUtil.nextPow2V_eq"]

THEOREMS = {
    "C01": _COMMON + ["MathUtil.C01_any_requested_capacity", "MathUtil.C01_wrap_any_requested_capacity", "MathUtil.C01_mask_is_mod",
                      "MathUtil.C01_storage_exact", "MathUtil.C01_rejected_iff", "MathUtil.C01_unrepaired_never_rejects", "MathUtil.C01_unrepaired_flag_witness",
                      "MathUtil.C01_size_t_request_above_2pow62_has_no_storage",
                      "MathUtil.C01_request_fits_iff", "MathUtil.boundedCtor_ok", "MathUtil.batch_le_cap",
                      "MathUtil.slot_wrap", "MathUtil.sizeW_eq", "MathUtil.empty_eq",
                      "Obligations.math_common_found", "Obligations.math_is_pow2_shape", "Obligations.math_max_pow2_shape",
                      "Obligations.math_next_pow2_shape", "Obligations.math_bounded_found", "Obligations.math_bounded_ctor_shape",
                      "Obligations.math_bounded_ctor_extracted", "Obligations.C01_cap_extracted", "Obligations.math_spelling_extracted",
                      "Obligations.math_ctor_rejects_oversized", "Obligations.C01_storage_exact_extracted"],
    "C02": _COMMON + ["MathUtil.C02_any_requested_initial_capacity", "MathUtil.C02_node_capacity_pow2",
                      "MathUtil.C02_grow_decision_is_model", "MathUtil.C02_shrink_is_model",
                      "MathUtil.C02_doubling_loop_hangs_above_2pow63", "MathUtil.C02_doubling_loop_hangs_on_max_node",
                      "MathUtil.handleFullCap_eq_dbl", "MathUtil.C02_repaired_growth_below_2pow63", "Obligations.math_spelling_extracted_u",
                      "Obligations.math_common_found_u", "Obligations.math_pow2_shape_u", "Obligations.math_unbounded_found",
                      "Obligations.math_unbounded_shape", "Obligations.math_unbounded_extracted", "Obligations.C02_cap_extracted"],
    "C03": _COMMON + ["MathUtil.C03_transit_any_requested_capacity", "MathUtil.C03_transit_wbit_refines",
                      "MathUtil.C03_transit_real_widths", "MathUtil.C03_expand_wraps_at_top", "MathUtil.stepW_toW",
                      "MathUtil.runW_toW", "MathUtil.capsOK_of_sizes", "MathUtil.transitCtor_ok",
                      "Obligations.math_common_found_t", "Obligations.math_pow2_shape_t", "Obligations.math_transit_found",
                      "Obligations.math_transit_shape", "Obligations.math_transit_widths", "Obligations.math_transit_extracted",
                      "Obligations.C03_cap_extracted", "Obligations.math_spelling_extracted_t"],
}
MODULES = {"C01": ["QuillModel.Props.C01Cap"], "C02": ["QuillModel.Props.C02Cap"], "C03": ["QuillModel.Props.C03Cap"]}
OBLIG_BY_PROP = {"C01": ["QuillModel.Obligations.MathUtilC01"], "C02": ["QuillModel.Obligations.MathUtilC02"],
                 "C03": ["QuillModel.Obligations.MathUtilC03"]}
OBLIG = [m for l in OBLIG_BY_PROP.values() for m in l]

SECTIONS = {"C01": ["math", "bounded"], "C02": ["math", "unbounded"], "C03": ["math", "transit"]}
# input class of the listed finding F32 (see known_findings.json); every other oracle line alarms
F32_CLASS = "class=size_t-request-above-2pow62"
STATEFUL_START = {"upw": "uq", "ushrink": "uq", "tpush": "tb", "tpop": "tb", "treq": "tb", "ttry": "tb", "tsetpos": "tb"}


def attach(prop, theorems, modules, oblig):
    """merge this bundle's lists for `prop` into the owning bundle's (lists are extended in place)"""
    for t in THEOREMS.get(prop, []):
        if t not in theorems:
            theorems.append(t)
    for m in MODULES.get(prop, []):
        if m not in modules:
            modules.append(m)
    for o in OBLIG_BY_PROP.get(prop, []):
        if o not in oblig:
            oblig.append(o)


def _rej_flag(ck=None):
    """extracted flag `ctorRejectsOversized` (the repaired bounded constructor throws for a capacity whose doubled size wraps)"""
    ex = getattr(ck, "extracted", None) if ck is not None else None
    if ex is None:
        ex = vlib.run_extract()
    return "1" if ex.get("math", {}).get("ctorRejectsOversized") else "0"


def _build():
    return vlib.build_harness("h3_math", ["h3_math.cpp"], extra_flags=["-fno-access-control"])


def _replay_for(lines, idx):
    """the op lines needed to reproduce line `idx` (0-based) of a harness output: the line itself, and for the stateful
    streams everything from the constructor line of its trace"""
    op = lines[idx].split(" => ")[0]
    head = op.split()[0] if op.split() else ""
    start = idx
    if head in STATEFUL_START:
        want = STATEFUL_START[head]
        j = idx
        while j >= 0 and not lines[j].startswith(want + " "):
            j -= 1
        start = max(j, 0)
    return [l.split(" => ")[0] for l in lines[start:idx + 1] if l and not l.startswith(("ORACLE", "STATS", "#"))]


def _run_text(hbin, args):
    rc, out = vlib.sh([hbin] + args, env=vlib.ASAN_ENV, timeout=1500)
    return rc, out


def _examine(ck, prop, label, rc, out, info, ps):
    """one harness output: oracle lines (property on the real code), then the Lean driver (correspondence)"""
    lines = out.split("\n")
    oracle = [(i, l) for i, l in enumerate(lines) if l.startswith("ORACLE")]
    known = [(i, l) for i, l in oracle if F32_CLASS in l]
    fresh = [(i, l) for i, l in oracle if F32_CLASS not in l]
    info["oracle_hits"] += len(fresh)
    info["known_hits"] += len(known)
    for l in lines:
        if l.startswith("STATS"):
            for kv in l.split()[1:]:
                k, v = kv.split("=")
                info["stats"][k] = info["stats"].get(k, 0) + int(v)
    rcd, dout = vlib.driver(["mathutil", "trace", _rej_flag(ck)], stdin_data=out.encode(), timeout=900)
    mm = [l for l in dout.split("\n") if l.startswith(("MISMATCH", "BAD-OP"))]
    pd = [l for l in dout.split("\n") if l.startswith("PARAM-DIFF")]
    done = [l for l in dout.split("\n") if l.startswith("DONE")]
    info["mismatches"] += len(mm)
    info["param_diffs"] += len(pd)
    if done:
        for kv in done[0].split()[1:]:
            k, v = kv.split("=")
            info["driver"][k] = info["driver"].get(k, 0) + int(v)
    if len(info["samples"]) < 6:
        info["samples"] += [l for l in lines if " => " in l][:: max(1, len(lines) // 3)][:2]
    if known:
        listed = [f for f in vlib.known_findings("C01") if f.get("id") == "F32"]
        if prop == "C01" and listed:
            if not info.get("known_reported"):
                ck.known("F32 BoundedSPSCQueueImpl<size_t> with a requested capacity above 2^62: capacity 2^63, `2ull * capacity` wraps to 0 "
                         "bytes allocated, every reservation up to 2^63 bytes is granted over no storage (%s)" % known[0][1][7:][:200])
                info["known_reported"] = True
        elif prop == "C01":
            fresh = known + fresh
    if fresh:
        i, l = fresh[0]
        # the oracle line follows the op line it is about
        j = i - 1
        while j >= 0 and (" => " not in lines[j]):
            j -= 1
        ops = _replay_for(lines, max(j, 0))
        ck.violation("math_oracle", "# h3_math replay <this file>   (python3 tools/check.py %s --replay <this file>)\n# %s\n# %s\n%s\n" % (
            prop, label, l, "\n".join(ops)),
            "property fails on the real code (integer arithmetic / constructor, harness h3_math, %d oracle hits): %s" % (len(fresh), l[:300]))
    elif rc not in (0, 3):
        ck.violation("math_abort", "# h3_math %s\n# harness aborted rc=%d (sanitizer / crash in the real code)\n# %s\n" % (
            label, rc, out[-3000:].replace("\n", "\n# ")),
            "the real code aborted in harness h3_math (%s, rc=%d): %s" % (label, rc, out.strip().split("\n")[-1][:200]))
    elif mm or rcd not in (0, 1) or not done:
        l = (mm or ["driver mathutil trace failed rc=%d: %s" % (rcd, dout[-300:])])[0]
        m0 = re.search(r"line=(\d+)", l)
        ops = _replay_for(lines, int(m0.group(1)) - 1) if m0 else []
        ck.violation("math_correspondence", "# h3_math replay <this file>\n# correspondence stream `mathutil` (%s) disagrees: %s\n%s\n" % (
            label, l, "\n".join(ops)),
            "arithmetic model (MathUtil) and implementation disagree (%d lines), no property oracle fired: %s" % (len(mm), l[:300]),
            no_input=True)


def stream(ck, prop, tier, ps):
    """the extra correspondence stream of bundle M inside the check of `prop`"""
    if prop not in SECTIONS:
        return None
    t0 = time.time()
    ok, hbin, log = _build()
    if not ok:
        ck.violation("harness_build_math", log, "harness h3_math no longer compiles against the current tree (tie of the arithmetic model "
                     "broken): " + log[-300:], no_input=True)
        return {"build": "failed"}
    info = {"oracle_hits": 0, "known_hits": 0, "mismatches": 0, "param_diffs": 0, "stats": {}, "driver": {}, "samples": [],
            "sections": SECTIONS[prop]}
    cdir = os.path.join(vlib.VERIF, "corpus", prop)
    ncorpus = 0
    if os.path.isdir(cdir):
        for f in sorted(os.listdir(cdir)):
            if f.startswith("math_"):
                rc, out = _run_text(hbin, ["replay", os.path.join(cdir, f)])
                _examine(ck, prop, "corpus/%s/%s" % (prop, f), rc, out, info, ps)
                ncorpus += 1
    seeds = [ck.seed] if tier == "quick" else [ck.seed, ck.seed + 1000]
    for sd in seeds:
        for sec in SECTIONS[prop]:
            rc, out = _run_text(hbin, ["gen", str(sd), sec, tier])
            _examine(ck, prop, "gen %d %s %s" % (sd, sec, tier), rc, out, info, ps)
    info["corpus_cases"] = ncorpus
    info["wall_s"] = round(time.time() - t0, 1)
    info.pop("known_reported", None)
    info["rule"] = ("one evaluation = one call of the real function / constructor / member with its observation recomputed by the Lean "
                    "definitions; exhaustive for the 8- and 16-bit types (unsigned and signed), boundary-directed (0, 1, 2^k, 2^k±1, max, "
                    "max_power_of_two±1) + random bit-length values for 32/64 bit; constructors with those requests; the transit buffer "
                    "with its positions preset shortly before 2^32 / 2^63 / 2^64")
    ck.cov["math_stream"] = info
    return info


def replay(prop, path):
    ok, hbin, log = _build()
    if not ok:
        print(log)
        return 2
    rc, out = _run_text(hbin, ["replay", path])
    print(out)
    rcd, dout = vlib.driver(["mathutil", "trace", _rej_flag()], stdin_data=out.encode())
    print(dout)
    listed = [f for f in vlib.known_findings("C01") if f.get("id") == "F32"]
    bad = [l for l in out.split("\n") if l.startswith("ORACLE") and not (listed and F32_CLASS in l)]
    return 1 if bad or rc not in (0, 3) or rcd != 0 else 0


def is_math_replay(path):
    try:
        return open(path).readline().startswith("# h3_math")
    except OSError:
        return False
