"""C07 (stopping, exiting or dying by a handled signal loses no completed statement) — PARTIAL.
Proof: Props/C07.lean (+ Exit/Model.lean, Exit/Proofs.lean) + Obligations/Exit.lean; if prover-c's bundle
(tools/props/backend_thm_C.py) lists drain theorems under "C07" they are audited here too.
Tie: extraction (extractors/exit.py: control-flow skeleton of on_signal, catchable signals, structure of
run/stop/_exit/start/stop_backend_thread/~ManualBackendWorker, wait_for_queues default, the F23 repair) and harness H4
(harness/h4_exit.cpp: one child process per case with the real backend thread, real FileSink, real signals) vs the
Lean driver `exit`, plus the property oracle applied from outside the process (file content + wait status)."""
import hashlib
import importlib.util
import os
import random
import re
import shutil
import tempfile

import vlib

PROPS = ["C07"]

MANIFEST = {
    "C07": dict(
        technique="Lean 4 proof (PARTIAL): the signal handler as a decision function proved equal to the control-flow skeleton extracted from detail::on_signal on all 512 contexts, its effect on the caller's queue composed with the flush/drain contracts, the start/stop life-cycle as a state machine with an invariant over all operation sequences and an induction over any number of start/stop cycles; process-level crash-point enumeration on the real library (fork per case, real backend thread, real FileSink, real signals, wait status and file read from outside) compared with the model's predictions and checked by the property oracle",
        text="PARTIAL. Machine-checked (Lean 4): (1) detail::on_signal, as extracted statement by statement from SignalHandler.h, makes exactly the calls of the decision function Exit.onSignal on every context (signal, first/later entrant, backend id published or not, on the backend thread or not, logger found or not, re-raise flag); (2) for every signal — in particular SIGSEGV SIGABRT SIGFPE SIGILL SIGINT SIGTERM, which are proved to be exactly the default catchable_signals — raised on a frontend thread that has a logger while a backend started with the handler runs: the notice(s) are enqueued on that thread's own queue behind every earlier statement of that thread (any number of statements, any split into already-written and still-queued = backend idle or busy, any logger level), then flush_log, and only then the default action is restored and the signal re-raised (exit(EXIT_SUCCESS) for SIGINT/SIGTERM), so with the contracts of flush_log (C06) and per-thread FIFO (C03) the destination holds all earlier statements followed by the notice and nothing remains queued; on the backend thread or without a published backend id nothing is logged, flushed or parked and the process ends at once; a later entrant only parks; (3) the life-cycle machine (once-flag, running flag, worker id, the id cached for the signal handler, atexit registrations) keeps an invariant over every sequence of start / start-with-handler / stop / exit; after any number of cycles (induction over the cycle list, each with redundant starts and stops) the next start yields a running backend on a fresh thread; stop on a stopped backend and start on a running one change nothing; exactly one atexit handler per spawned thread (at most one while no stop intervenes); exit stops, drains and joins whatever runs and clears the handler's id; the handler's id is never stale (repair of F23; the unrepaired variant, the un-renewed once-flag, a notice after the flush, no flush, raise without SIG_DFL, SIGTERM re-raised are refuted by witnesses). NOT proved, only enumerated on the real process by harness H4: wait statuses (WIFSIGNALED/WTERMSIG, WEXITSTATUS), the order of atexit handlers and static destructors, the signal mask inherited by the backend thread, pause() and the alarm time-out — runtime behaviour outside a pure model; the drain of _exit itself (all queues and transit buffers empty, sinks flushed) is the theorem of the backend model (exitLoop, separate bundle, audited here when present). Tie: extraction of the handler skeleton, the catchable list, the structure of BackendWorker::run/stop/_exit (leaves only when queues AND transit buffers are empty or the option is off, flushes the sinks before leaving), both Backend::start overloads (call_once on the current flag, mask-spawn-publish-unmask order, one atexit), stop_backend_thread (fresh once_flag), ~ManualBackendWorker, wait_for_queues_to_empty_before_exit = true, with `decide`d obligations; H4 forks a child per case that runs the real backend thread and a real FileSink, 0..3 extra logging threads (finished / alive / still logging), System or Tsc clock, backend busy (1500 statements queued right before) or idle (after a flush), and at every crash point between the main thread's statements performs stop (then restart cycles), return from main, exit, exit from another thread, or a handled signal (raise, kill, real null dereference / division by zero / illegal instruction / abort, on the main or an extra thread), plus signals after stop, without backend, without logger, with re-raise off and a second entrant, on the backend thread, with a Warning-level logger; the parent reads the file and the wait status from outside, the Lean driver recomputes status / notices / is_running / ids / masks from the model, and the oracle checks: every completed statement once and in thread order, in the file already when stop() returns, notice after the signalled thread's last statement, wait status = original signal or exit 0.",
        note="PARTIAL for the reason above (process-level facts are enumerated, not proved). start/stop are sequential in the life-cycle machine; ONE concurrent situation is modelled step by step (Exit/Stop.lean): a handled signal on a frontend thread while another thread is inside Backend::stop() or the process inside the atexit stop — stop() as its extracted sequence of atomic steps (stop request, wake, join, forget worker id, fresh once-flag, clear the id the handler reads), the backend thread leaving in the background (writes, its last look at the queues, end), the handler in two phases (reads the id / enqueues and waits), every schedule: served at every point before the backend's last look at the queues (C07_signal_during_stop_served, for the order as extracted: Obligations.C07_signal_during_stop_extracted), and EXACTLY there (C07_signal_during_stop_exact) — after that look and until stop() returns the handler hangs and the notice is lost: finding F27 (known_findings.json; reproduced by H4 with a gate sink that holds the backend inside the final flush of _exit: corpus/C07/f27_*.txt). wait_for_queues_to_empty_before_exit is a parameter of stop/exit in the model (LParams.waitOnExit): with it off stop() reads nothing more — destination and queue stay as they were at the stop request, nothing is lost from the queue or reordered, a later start serves the rest (C07_nowait_*); the signal half is proved for both settings (C07_signal_independent_of_wait_option) and H4 runs about half of its signal cases with the option off. Refuted by decide: the SIGINT/SIGTERM branch without flush_log under the option off (seeded C07_m2), the id cleared before stop_backend_thread (seeded C07_m3). Statements of *other* threads at a signal are only checked for order/no duplication (their completeness is C06's ordering premise). Observed and left as is: on_alarm re-raises the stored signal on the thread it runs on; if that thread is stuck inside the handler of that same signal the re-raise stays masked (the alarm cannot end such a process) — second cause of F23, the first (stale backend id after stop) is fixed. Exit paths (return from main, exit(), exit from another thread, SIGINT/SIGTERM through the handler) are taken with every other thread at rest (finished threads joined, alive threads parked outside the library, concurrently logging threads paused): a thread that is inside a log call, makes its first call or ends while exit() destroys the library's singletons is undefined behaviour of the program ([basic.start.term]; seen under load as rare heap-corruption aborts or hangs during ~LoggerManager), not a case of the property; crashes and stop()/start() are exercised with threads in mid-flight. A complaint about how a process ended is reported only if it reproduces in 3 re-runs of the case on its own (otherwise evidence.flaky_cases). A signal on a frontend thread when no valid logger exists is swallowed (handler returns without re-raising); `exit` from the handler on the backend thread would join itself — both outside the property's premise.",
        ref="§5 C07, §3.1 H4, §7 F23"),
}

THEOREMS = [
    "Exit.C07_handler_frontend_calls", "Exit.C07_signal_loses_nothing", "Exit.C07_handled_signal_outcomes",
    "Exit.C07_notice_follows_earlier", "Exit.C07_backend_or_no_backend_silent", "Exit.C07_backend_or_no_backend_outcome",
    "Exit.C07_second_entrant_only_parks", "Exit.C07_quirk_woken_entrant_proceeds", "Exit.C07_quirk_no_logger_swallows",
    "Exit.C07_reraise_off_returns", "Exit.C07_neg_notice_after_flush", "Exit.C07_neg_no_flush",
    "Exit.C07_neg_raise_without_default", "Exit.C07_neg_term_reraised", "Exit.C07_neg_flush_without_backend",
    "Exit.C07_life_invariant", "Exit.C07_any_number_of_cycles", "Exit.C07_start_after_cycles_runs",
    "Exit.C07_stop_when_stopped_is_noop", "Exit.C07_stop_idempotent", "Exit.C07_start_when_running_is_noop",
    "Exit.C07_atexit_once_per_effective_start", "Exit.C07_atexit_at_most_once_without_stop", "Exit.C07_exit_drains_and_joins",
    "Exit.C07_handler_id_never_stale", "Exit.C07_F23_stale_id_hangs", "Exit.C07_neg_once_flag_not_renewed",
    "Exit.C07_signal_in_any_cycle", "Exit.C07_signal_outside_handler_cycle",
    "Exit.C07_program_conservation", "Exit.C07_program_life", "Exit.C07_stop_writes_everything",
    "Exit.C07_exit_writes_everything", "Exit.C07_program_signal",
    "Obligations.exit_extraction_complete", "Obligations.exit_onSignal_agrees", "Obligations.exit_catchable_is_handled",
    "Obligations.exit_alarm_not_catchable", "Obligations.exit_catchable_no_duplicates", "Obligations.exit_life_params_repaired",
    "Obligations.exit_wait_for_queues_default", "Obligations.exit_worker_structure", "Obligations.exit_drain_structure",
    "Obligations.exit_start_stop_structure", "Obligations.exit_handler_installation", "Obligations.C07_signal_extracted",
    "Obligations.C07_restart_extracted", "Obligations.C07_program_extracted",
    # wait_for_queues_to_empty_before_exit as a parameter; a handled signal while another thread is inside stop()
    "Exit.C07_signal_independent_of_wait_option", "Exit.C07_neg_graceful_exit_without_flush", "Exit.C07_nowait_stop_keeps_state",
    "Exit.C07_nowait_stop_may_leave_unwritten", "Exit.C07_nowait_program_conservation", "Exit.C07_nowait_exit",
    "Exit.C07_stop_id_set_until_backend_gone", "Exit.C07_stop_interleaving_conservation", "Exit.C07_signal_during_stop_served",
    "Exit.C07_signal_during_stop_after_last_look_hangs", "Exit.C07_signal_during_stop_exact",
    "Exit.C07_window_keeps_earlier_statements", "Exit.C07_F27_signal_after_last_look", "Exit.C07_neg_id_cleared_before_stop",
    "Obligations.exit_stop_sequence", "Obligations.C07_signal_during_stop_extracted",
    # process-directed kill with several threads: outcome by the class of the receiving thread
    "Exit.C07_kill_outcome_by_receiver", "Exit.C07_kill_whichever_logged_thread", "Exit.C07_kill_never_logged_thread",
    "Exit.C07_kill_candidates",
    # candidate repair of F27
    "Exit.C07_stop_model_waits_for_ever", "Exit.C07_F27_repair_never_hangs", "Obligations.C07_signal_during_stop_extracted_flush",
]
MODULES = ["QuillModel.Props.C07"]
OBLIG = ["QuillModel.Obligations.Exit"]

HARNESS = ("h4_exit", ["h4_exit.cpp"], ["-rdynamic"])
JOBS = 8
SIGNALS = ["SIGSEGV", "SIGABRT", "SIGFPE", "SIGILL", "SIGINT", "SIGTERM"]
FAULT = {"SIGSEGV": "fault", "SIGFPE": "fault", "SIGILL": "fault", "SIGABRT": "abort"}
THREADS = ["-", "f3", "a3", "f2;a2", "f3;f1;a2", "a2;a2;f4", "c4000", "f2;c3000"]
BUSY = "L1500"
CRASH = ["SIGSEGV", "SIGABRT", "SIGFPE", "SIGILL"]
F27_TEXT = ("a handled signal on a frontend thread while another thread is inside Backend::stop() (or the atexit stop), after the "
            "backend thread's last look at the queues in _exit() and before stop() has cleared the id the handler reads: the handler "
            "logs and waits in flush_log() for a backend thread that never looks again — the process hangs, the notice is lost "
            "(with wait_for_queues_to_empty_before_exit off also the thread's statements still queued at the stop request)")


def is_f27_class(spec):
    """input class of F27: a signal timed inside another thread's stop *after* the backend's last look at the queues
    (held there by the gate of `Gs`; with the option off the last look is the stop request itself)"""
    m = re.search(r"script=(\S+)", spec or "")
    if not m:
        return False
    ops = m.group(1).split(",")
    inside = any(o.startswith("tstop:") or o.startswith("tsigx:") for o in ops)
    return inside and ("Gs" in ops or " wait=0 " in spec)


def drain_bundle():
    """prover-c's drain theorems, when that bundle is present in this tree"""
    p = os.path.join(os.path.dirname(os.path.abspath(__file__)), "backend_thm_C.py")
    if not os.path.exists(p):
        return [], [], []
    spec = importlib.util.spec_from_file_location("backend_thm_C", p)
    m = importlib.util.module_from_spec(spec)
    spec.loader.exec_module(m)
    th = list(getattr(m, "THEOREMS", {}).get("C07", []))
    if not th:
        return [], [], []
    return th, list(getattr(m, "MODULES", {}).get("C07", [])), list((getattr(m, "OBLIG_BY_PROP", None) or {}).get("C07", getattr(m, "OBLIG", [])))


def life_args(ex):
    d = ex.get("exit") or {}
    return ["1" if d.get("stopRenewsOnceFlag") else "0", "1" if d.get("stopClearsBackendId") else "0",
            "1" if d.get("atexitClearsBackendId") else "0"]


# ----------------------------------------------------------------------------------------------------
# case generation
# ----------------------------------------------------------------------------------------------------

def case_line(cid, script, clock="sys", lvl="info", logger=1, reraise=1, timeout=120, limit=100, threads="-", wait=1):
    return "case %s clock=%s lvl=%s logger=%d reraise=%d%s timeout=%d limit=%d threads=%s script=%s" % (
        cid, clock, lvl, logger, reraise, "" if wait else " wait=0", timeout, limit, threads, ",".join(script))


def crash_point_cases(prefix, n_stmts, thread_cfgs, rng, every_cfg):
    """crash point p x action x clock x busy/idle (x thread configuration)"""
    actions = ["stop", "ret", "exit"] + ["sig:%s:raise" % s for s in SIGNALS] + ["sig:%s:%s" % (s, h) for s, h in FAULT.items()]
    out = []
    k = 0
    for p in range(n_stmts + 1):
        for act in actions:
            for clock in ("sys", "tsc"):
                for busy in (True, False):
                    cfgs = thread_cfgs if every_cfg else [thread_cfgs[(k + rng.randrange(len(thread_cfgs))) % len(thread_cfgs)]]
                    for th in cfgs:
                        k += 1
                        is_sig = act.startswith("sig:")
                        start = "H" if is_sig or k % 2 == 0 else "S"
                        sc = [start, "L%d" % p, "W"] + ([BUSY] if busy else ["F", "Z3"])
                        rest = n_stmts - p
                        if act == "stop":
                            sc += ["X", "Q"]
                            # then optionally start again, log more, stop again — several cycles
                            cyc = k % 4
                            for j in range(cyc):
                                sc += ["H" if (k + j) % 3 == 0 else "S", "Q", "L%d" % (rest + j)]
                                if j % 2 == 1:
                                    sc += [BUSY]
                                sc += ["X", "Q"]
                            sc += ["L%d" % rest, "ret" if k % 2 else "exit"]
                        else:
                            sc += [act]
                        # the signal half does not depend on wait_for_queues_to_empty_before_exit: half of the signal cases run with it off
                        out.append(case_line("%s%d" % (prefix, k), sc, clock=clock, threads=th, wait=0 if is_sig and rng.random() < 0.5 else 1))
    return out


def stop_window_cases(prefix, rng, full):
    """signals timed with the gate sink of H4. (1) statements provably still queued (the backend is held inside a
    write_log) when the signal arrives, option on and off, all six signals; (2) a crash signal while another thread is
    inside Backend::stop() / the process inside the atexit stop and the backend, held in mid-write, still has to drain:
    main raises while a thread stops, a thread raises while main stops / exits / returns. (The points after the backend's
    last look at the queues are finding F27: corpus/C07/f27_*.txt.)"""
    out = []
    k = 0
    ps = [0, 1, 3, 6] if full else [0, 3]
    qs = [1, 2, 5] if full else [2]
    for p in ps:
        for q in qs:
            for s in SIGNALS:
                for wait in (1, 0):
                    k += 1
                    sc = ["H", "L%d" % p, "F", "Gw", "L%d" % q, "Bw", "sig:%s:raise" % s]
                    out.append(case_line("%s%d" % (prefix, k), sc, clock="tsc" if k % 3 == 0 else "sys", wait=wait,
                                         threads="a2" if s in CRASH and k % 2 else "-"))
            for s in CRASH:
                for form in ("tstop", "X", "exit", "ret"):
                    k += 1
                    sc = ["H", "L%d" % p, "W", "F", "Gw", "L%d" % q, "Bw"]
                    sc += ["tstop:1", "sig:%s:raise" % s] if form == "tstop" else ["tsigx:1:%s" % s, form]
                    out.append(case_line("%s%d" % (prefix, k), sc, clock="tsc" if k % 3 == 0 else "sys",
                                         threads=rng.choice(["a2", "a1;f2", "a3;a1"])))
    return out


def kill_cases(prefix, rng, full):
    """process-directed kill(getpid(), SIG) with several threads: the masks leave the kernel's choice open (any), or leave
    exactly the main thread, one logging thread, one thread that never logged, the backend thread (a sink unblocks the
    signal there), or nobody (the signal stays pending and the program goes on). The oracle applies the property only
    when the receiving thread (producer of the notice, recorded by a sink) has logged before."""
    out = []
    k = 0
    cfgs = ["a2;n0;a3", "n0;a1", "a3;f2;n0"] if full else ["a2;n0;a3"]
    for p in ([0, 2, 5] if full else [3]):
        for th in cfgs:
            n_idx = th.split(";").index("n0") + 1
            a_idx = next(i + 1 for i, t in enumerate(th.split(";")) if t[0] == "a")
            for s in SIGNALS:
                for spec in ("any", "m", "t%d" % a_idx, "t%d" % n_idx, "b", "none"):
                    if spec == "b" and s not in CRASH:
                        continue          # exit() on the backend thread joins itself: outside the model
                    for busy in (True, False):
                        k += 1
                        sc = ["H", "L%d" % p, "W"] + (["L200"] if busy and spec != "b" else ["F"])
                        sc += ["ksig:%s:%s" % (s, spec)] + (["L2", "ret"] if spec == "none" else [])
                        out.append(case_line("%s%d" % (prefix, k), sc, clock="tsc" if k % 2 else "sys", threads=th, limit=30,
                                             wait=0 if k % 5 == 0 and spec != "none" else 1))
    return out


def thread_signal_cases(prefix, n_stmts, rng, full):
    """a handled signal raised on an extra logging thread, at every crash point of the main thread; and two threads
    raising different signals at about the same time (one enters first, the other parks)"""
    out = []
    k = 0
    cfgs = ["a3", "a2;f2;c2000"] if full else ["a3"]
    for p in range(n_stmts + 1):
        for s in SIGNALS:
            for clock in ("sys", "tsc"):
                for busy in (True, False):
                    for th in cfgs:
                        k += 1
                        sc = ["H", "L%d" % p, "W"] + ([BUSY] if busy else ["F", "Z3"]) + ["tsig:1:%s" % s]
                        out.append(case_line("%s%d" % (prefix, k), sc, clock=clock, threads=th, wait=0 if rng.random() < 0.5 else 1))
    for i in range(len(SIGNALS) * (5 if full else 2)):
        st = SIGNALS[i % len(SIGNALS)]
        sm = SIGNALS[(i + 1 + i // len(SIGNALS)) % len(SIGNALS)]
        if st == sm:
            sm = SIGNALS[(i + 2) % len(SIGNALS)]
        k += 1
        sc = ["H", "L%d" % rng.randrange(0, 5), "W"] + ([BUSY] if i % 2 else ["F"]) + ["dsig:1:%s:%s:%d" % (st, sm, rng.choice([0, 50, 100, 200, 300, 500, 800]))]
        out.append(case_line("%s%d" % (prefix, k), sc, clock=rng.choice(["sys", "tsc"]), threads=rng.choice(["a3", "a2;a1"])))
    return out


def lifecycle_cases(prefix, n, rng):
    """random start/stop programmes: cycles with redundant starts/stops, logging while stopped, then an end action"""
    out = []
    for i in range(n):
        sc = []
        ncyc = rng.randrange(1, 5)
        had_h = False
        running_h = False
        for c in range(ncyc):
            kind = rng.choice("HS")
            had_h = had_h or kind == "H"
            sc += [kind, "Q"]
            if c == 0:
                sc += ["M"]
            for _ in range(rng.randrange(0, 3)):
                sc += [rng.choice("HS")]
            sc += ["Q", "L%d" % rng.randrange(0, 6)]
            if rng.random() < 0.3:
                sc += ["W"]
            if rng.random() < 0.4:
                sc += [BUSY]
            elif rng.random() < 0.5:
                sc += ["F"]
            last = c == ncyc - 1
            if last and rng.random() < 0.5:
                running_h = kind == "H"
                break
            sc += ["X", "Q"]
            for _ in range(rng.randrange(0, 3)):
                sc += ["X"]
            sc += ["Q"]
            if rng.random() < 0.5:
                sc += ["L%d" % rng.randrange(1, 4)]   # logged while stopped: drained by the next start or at exit
            running_h = False
        stopped = sc[-1] != "Q" or "X" in sc[-4:]
        r = rng.random()
        if running_h and r < 0.5:
            s = rng.choice(SIGNALS)
            sc += ["sig:%s:%s" % (s, rng.choice(["raise", FAULT.get(s, "raise")]))]
        elif had_h and r < 0.7:
            sc += ["sig:%s:raise" % rng.choice(SIGNALS)]      # after a stop, or in a cycle started without the handler
        else:
            sc += [rng.choice(["ret", "exit"])]
        out.append(case_line("%s%d" % (prefix, i), sc, clock=rng.choice(["sys", "tsc"]), threads=rng.choice(THREADS),
                             wait=0 if rng.random() < 0.25 else 1))
    return out


def directed_cases(prefix, after_stop_limit):
    out = []
    k = [0]

    def add(script, **kw):
        k[0] += 1
        out.append(case_line("%s%d" % (prefix, k[0]), script, **kw))
    for s in SIGNALS:
        add(["I", "sig:%s:raise" % s])                                              # handler installed, no backend at all
        add(["H", "L3", "X", "sig:%s:raise" % s], limit=after_stop_limit)          # after stop (F23 class)
        add(["H", "L3", "X", "H", "L2", "X", "Q", "sig:%s:raise" % s], limit=after_stop_limit)
        add(["H", "L3", "X", "S", "Q", "L2", "F", "sig:%s:raise" % s], limit=after_stop_limit)   # cycle restarted without the handler
        add(["H", "L3", "sig:%s:kill" % s])                                         # process-directed, single frontend thread
        add(["H", "L2", "W", BUSY, "tsig:1:%s" % s], threads="a3")                  # raised on an extra logging thread
        add(["H", "L2", "W", "tsig:2:%s" % s], threads="f2;a4;a1", clock="tsc")
        add(["H", "L3", "sig:%s:raise" % s], lvl="warning")                         # Info notice filtered by the logger's level
    add(["H", "sig:SIGSEGV:raise", "park"], logger=0, timeout=1)                    # no logger: swallowed, the alarm ends it
    add(["H", "L3", "sig:SIGSEGV:raise", "L2", "sig:SIGABRT:raise"], reraise=0, timeout=1)   # re-raise off, then a later entrant parks
    add(["H", "L3", "sig:SIGFPE:raise", "L2", "ret"], reraise=0)
    add(["H", "L3", "bsig:SIGSEGV"])                                                # on the backend thread
    add(["H", "L3", "W", "texit:1"], threads="a2")
    add(["S", "L3", "W", BUSY, "texit:2"], threads="f2;a2", clock="tsc")
    add(["H", "Q", "M", "L3", "X", "Q", "ret"])
    add(["S", "Q", "M", "L3", "X", "Q", "exit"])
    add(["H", "H", "S", "Q", "L3", "X", "X", "X", "Q", "S", "S", "H", "Q", "M", "L4", "exit"])
    add(["S", "L2", "X", "L3", "ret"])                                              # logged after the last stop: final drain at exit
    return out


def gen_cases(tier, seed, after_stop_limit):
    rng = random.Random(seed * 7919 + (1 if tier == "quick" else 2))
    cases = directed_cases("d", after_stop_limit)
    if tier == "quick":
        cases += crash_point_cases("p", 4, THREADS, rng, every_cfg=True)
        cases += thread_signal_cases("t", 4, rng, full=False)
        cases += stop_window_cases("w", rng, full=False)
        cases += kill_cases("k", rng, full=False)
        cases += lifecycle_cases("l", 200, rng)
    else:
        cases += crash_point_cases("p", 8, THREADS, rng, every_cfg=True)
        cases += thread_signal_cases("t", 8, rng, full=True)
        cases += stop_window_cases("w", rng, full=True)
        cases += kill_cases("k", rng, full=True)
        cases += lifecycle_cases("l", 4000, rng)
    return cases


# ----------------------------------------------------------------------------------------------------
# running
# ----------------------------------------------------------------------------------------------------

def run_cases(hbin, lines, pargs, scratch, label, jobs=None):
    """harness + driver on a list of case lines; returns dict"""
    path = os.path.join(scratch, "cases_%s.txt" % hashlib.sha1(label.encode()).hexdigest()[:8])
    with open(path, "w") as f:
        f.write("\n".join(lines) + "\n")
    rc, out = vlib.sh([hbin, "run", path, scratch, str(jobs or JOBS)], timeout=7200)
    rc2, dout = vlib.driver(["exit", "trace"] + pargs, stdin_data=out.encode(), timeout=1200)
    return dict(rc=rc, out=out, dout=dout, label=label)


def case_id(line):
    ws = line.split()
    return ws[1] if len(ws) > 1 else "?"


STATUS_KINDS = ("wait-status", "process-did-not-end", "script-did-not-reach-its-end")
RERUNS = 3
MAX_RERUN_CASES = 12


def hit_kind(ln):
    if ln.startswith("ORACLE "):
        return re.sub(r"^ORACLE case=\S+ ", "", ln).split()[0]
    m = re.search(r"field=(\S+)", ln)
    return "mismatch-" + (m.group(1) if m else "?")


def is_status_kind(ln):
    k = hit_kind(ln)
    return k in STATUS_KINDS or k in ("mismatch-status", "mismatch-cont", "mismatch-notices")


def confirm_hits(hbin, pargs, scratch, hits):
    """hits: list of (label, line, case-line-with-observation, stderr) from runs with many children at once.
    A case whose complaint is about HOW THE PROCESS ENDED (wait status, hang, script not finished, or the model's
    prediction of these) is re-run RERUNS times on its own, one child at a time, and kept only if it fails every
    time; what does not reproduce is returned as flaky (evidence note, never a violation). Complaints about the
    CONTENT of the file (lost / duplicated / reordered statements, notices) of a process that ended as expected are
    kept as they are. Returns (confirmed hits, flaky records, not re-run records)."""
    groups, order = {}, []
    for h in hits:
        key = (h[2] or h[1]).split(" => ")[0]
        if key not in groups:
            groups[key] = []
            order.append(key)
        groups[key].append(h)
    confirmed, flaky, skipped = [], [], []
    status_groups = [k for k in order if any(is_status_kind(h[1]) for h in groups[k])]
    for k in order:
        if k not in status_groups:
            confirmed += groups[k]
    status_groups.sort(key=len)
    reran, have_one = 0, False
    for k in status_groups:
        g = groups[k]
        if not k.startswith("case ") or have_one or reran >= MAX_RERUN_CASES:
            skipped.append({"case": k, "first_complaint": g[0][1][:300],
                            "why": "a reproducible failing case was already found" if have_one else "re-run budget used"})
            continue
        reran += 1
        line = k
        if any(hit_kind(h[1]) == "process-did-not-end" for h in g):
            m = re.search(r"limit=(\d+)", line)
            if m and int(m.group(1)) > 30:
                line = re.sub(r"limit=\d+", "limit=30", line)   # on its own a genuine hang shows within 30 s
        nfail, last = 0, None
        for i in range(RERUNS):
            res = run_cases(hbin, [line], pargs, scratch, "rerun %d of %s" % (i, case_id(line)), jobs=1)
            bad = [l for l in res["out"].split("\n") if l.startswith("ORACLE ")] + [l for l in res["dout"].split("\n") if l.startswith("MISMATCH")]
            if bad or res["rc"] not in (0, 3):
                nfail += 1
                last = (res, bad)
        if nfail == RERUNS:
            have_one = True
            confirmed += g
        else:
            flaky.append({"case": k, "complaints": [h[1][:300] for h in g][:4], "stderr": (g[0][3] or "")[:1500],
                          "source": g[0][0], "failed_reruns": "%d of %d" % (nfail, RERUNS)})
    return confirmed, flaky, skipped


def run(prop, tier):
    ck = vlib.Check(prop, tier, level="proof")
    ck.assumptions = [
        "PARTIAL: wait status, atexit / static-destructor order, inherited signal masks, pause() and the alarm time-out are run-time behaviour enumerated by H4 on the real process, not proved",
        "flush_log returns only after everything the caller enqueued before is written and flushed (C06) and a thread's statements are delivered in the order it enqueued them (C03): used as the contract of `flush` / of the exit drain in the model (Fe.drain); the drain of BackendWorker::_exit is the theorem of the backend model (exitLoop)",
        "glibc semantics of std::signal (handler installed with the signal itself masked, so a raise inside the handler fires when it returns) and default action 'terminate' for every catchable signal",
        "start/stop are called sequentially in the life-cycle machine; the one concurrent situation modelled step by step is a handled signal while ANOTHER thread is inside stop() / the atexit stop (Exit/Stop.lean: steps of stop() atomic, sequentially consistent); thread ids are non-zero and fresh",
        "H4 times a signal against the backend with a gate sink (first sink of the logger) whose write_log / flush_sink block until the harness's condition holds (handler entered + 30 ms, stop requested); the 30 ms are an assumption about how long the handler needs from its entry to its log calls",
        "when exit() runs (return from main, exit(), SIGINT/SIGTERM through the handler) no other thread is inside a call of the library, making its first call or ending — the C++ rule for objects with static storage duration; H4 brings the other threads to rest before these paths",
        "the signalled thread has logged or preallocated before (documented requirement of the signal handler); the signal arrives between two log statements, not inside one",
    ]
    dth, dmods, dobl = drain_bundle()
    theorems = THEOREMS + [t for t in dth if t not in THEOREMS]
    modules = MODULES + [m for m in dmods if m not in MODULES]
    oblig = OBLIG + [o for o in dobl if o not in OBLIG]
    ps = ck.proof_side(modules, theorems, oblig)
    if dth:
        ck.notes.append("drain theorems of the backend bundle audited too: " + ", ".join(dth))
    else:
        ck.notes.append("tools/props/backend_thm_C.py lists no C07 theorems in this tree: the drain theorem (exitLoop) is not part of this run's audit")
    ex = ck.extracted
    pargs = life_args(ex)
    for b in ps["broken"]:
        ck.log("PROOF SIDE BROKEN: " + b)

    ok, hbin, log = vlib.build_harness(HARNESS[0], HARNESS[1], extra_flags=HARNESS[2], sanitize=False)
    if not ok:
        ck.violation("harness_build", log, "harness h4_exit no longer compiles against the current tree (correspondence broken): " + log[-300:], no_input=True)
        return ck.finish()

    known = {f["id"]: f for f in vlib.known_findings(prop)}
    # a signal after stop is expected to hang only on a tree without the F23 repair: do not wait long for it there
    after_stop_limit = 100 if pargs[1] == "1" else 8
    scratch = tempfile.mkdtemp(prefix="h4_exit_", dir="/tmp")
    state = dict(cases=0, traces=0, oracle=[], mismatches=[], aborts=[], classes={}, statuses={}, nontrivial=set(), samples=[],
                 done=[], stats=[], stmts=0, unspecified=0, two_entrants={}, flaky=[], not_rerun=[], f27=[], f27_cases=set(),
                 f27_run=0, wait_off=0, inside_stop=0, kill={})

    def process(res):
        by_id, tr = {}, {}
        for ln in res["out"].split("\n"):
            if ln.startswith("case "):
                by_id[case_id(ln)] = ln
                state["cases"] += 1
                spec0 = ln.split(" => ")[0]
                state["wait_off"] += 1 if " wait=0 " in spec0 else 0
                state["inside_stop"] += 1 if ("tstop:" in spec0 or "tsigx:" in spec0) else 0
                state["f27_run"] += 1 if is_f27_class(spec0) else 0
                m = re.search(r"status=(\S+)", ln)
                if m:
                    state["statuses"][m.group(1)] = state["statuses"].get(m.group(1), 0) + 1
                m = re.search(r"dsig:\d+:(SIG[A-Z]+):(SIG[A-Z]+):\d+ => .* nsig=(\S+)", ln)
                if m:
                    who = "thread-first" if m.group(3) == m.group(1) else "main-first" if m.group(3) == m.group(2) else "no-notice"
                    state["two_entrants"][who] = state["two_entrants"].get(who, 0) + 1
                m = re.search(r"ksig:[A-Z0-9]+:(\w+)\S* => .* who=(\S+)", ln)
                if m:
                    key = "masks=%s receiver=%s" % (re.sub(r"\d+", "", m.group(1)), "main" if m.group(2) == "0" else "extra-thread" if m.group(2).isdigit() else m.group(2))
                    state["kill"][key] = state["kill"].get(key, 0) + 1
                m = re.search(r"found=(\S+)", ln)
                if m and m.group(1) != "-":
                    state["stmts"] += sum(int(x) for x in m.group(1).split(","))
            elif ln.startswith("STATS"):
                state["stats"].append(res["label"] + ": " + ln)
            elif ln.startswith("BAD-CASE"):
                state["aborts"].append((res["label"], ln, None))
        errs = {}
        for ln in res["out"].split("\n"):
            if ln.startswith("STDERR "):
                m = re.search(r"case=(\S+) (.*)", ln)
                if m:
                    errs[m.group(1)] = m.group(2)
        for ln in res["out"].split("\n"):
            if ln.startswith("ORACLE "):
                m = re.search(r"case=(\S+)", ln)
                hit = (res["label"], ln, by_id.get(m.group(1)) if m else None, errs.get(m.group(1)) if m else None)
                if "F27" in known and is_f27_class((hit[2] or "").split(" => ")[0]):
                    state["f27"].append(hit)          # listed finding, recognised by its input class
                    state["f27_cases"].add(hit[2])
                else:
                    state["oracle"].append(hit)
        if res["rc"] not in (0, 3):
            state["aborts"].append((res["label"], "harness h4_exit ended with rc=%d: %s" % (res["rc"], res["out"][-300:]), None))
        for ln in res["dout"].split("\n"):
            if ln.startswith("TRACE "):
                state["traces"] += 1
                ws = ln.split()
                kv = dict(x.split("=", 1) for x in ws[2:])
                tr[ws[1]] = kv
                for c in kv.get("classes", "").split(","):
                    state["classes"][c] = state["classes"].get(c, 0) + 1
            elif ln.startswith("MISMATCH"):
                m = re.search(r"case=(\S+)", ln)
                state["mismatches"].append((res["label"], ln, by_id.get(m.group(1)) if m else None, None))
            elif ln.startswith("DONE"):
                state["done"].append(res["label"] + ": " + ln)
                m = re.search(r"unspecified=(\d+)", ln)
                state["unspecified"] += int(m.group(1)) if m else 0
        if "DONE" not in res["dout"]:
            state["aborts"].append((res["label"], "Lean driver `exit` did not finish: " + res["dout"][-300:], None))
        # distinct non-trivial cases
        for cid, ln in by_id.items():
            spec = ln.split(" => ")[0]
            m = re.search(r"threads=(\S+) script=(\S+)", spec)
            if not m:
                continue
            th, sc = m.group(1), m.group(2).split(",")
            queued = BUSY in sc or th != "-" or sc.count("X") >= 2
            if queued:
                shape = re.sub(r"case \S+", "case", spec)
                state["nontrivial"].add(hashlib.sha1(shape.encode()).hexdigest())
            if len(state["samples"]) < 6 and cid in tr and (len(state["samples"]) % 2 == 0) == ("sig" in tr[cid].get("classes", "")):
                state["samples"].append({"source": res["label"], "case": ln, "model": "classes=%s actions=%s predicted=%s" % (
                    tr[cid].get("classes"), tr[cid].get("actions"), tr[cid].get("predicted"))})

    try:
        # corpus first
        cdir = os.path.join(vlib.VERIF, "corpus", prop)
        ncorpus = 0
        if os.path.isdir(cdir):
            for f in sorted(os.listdir(cdir)):
                lines = [l.strip() for l in open(os.path.join(cdir, f)) if l.startswith("case ")]
                if after_stop_limit != 100:
                    lines = [re.sub(r"limit=\d+", "limit=%d" % after_stop_limit, l) if ",X,sig:" in l else l for l in lines]
                process(run_cases(hbin, lines, pargs, scratch, "corpus/" + f))
                ncorpus += 1
        seeds = [ck.seed] if tier == "quick" else [ck.seed, ck.seed + 1000, ck.seed + 2000]
        for i, sd in enumerate(seeds):
            t = tier if i == 0 else "quick"
            process(run_cases(hbin, gen_cases(t, sd, after_stop_limit), pargs, scratch, "gen %s seed=%d" % (t, sd)))

        # ---- verdicts -----------------------------------------------------------------------------
        def replay_text(label, what, case, stderr=None):
            return "# %s\n# %s\n%s# replay: python3 tools/check.py %s --replay <this file>\n%s\n" % (
                label, what, ("# child's stderr: %s\n" % stderr[:2500]) if stderr else "", prop, (case.split(" => ")[0] if case else ""))

        def settle(upto_oracle=0, upto_mism=0):
            """re-run what is about the way a process ended; keep what reproduces (see confirm_hits)"""
            hits = state["oracle"][upto_oracle:] + state["mismatches"][upto_mism:]
            conf, fl, sk = confirm_hits(hbin, pargs, scratch, hits) if hits else ([], [], [])
            state["flaky"] += fl
            state["not_rerun"] += sk
            return [h for h in conf if h[1].startswith("ORACLE ")], [h for h in conf if h[1].startswith("MISMATCH")]

        oracle_ok, mism_ok = settle()
        fails = bool(oracle_ok or state["aborts"])
        if oracle_ok:
            # shortest failing script first
            oracle_ok.sort(key=lambda x: len(x[2] or ""))
            label, ln, case, err = oracle_ok[0]
            kinds = sorted({hit_kind(l) for _, l, _, _ in oracle_ok})
            ck.violation("oracle", replay_text(label, "property oracle on the real process: " + ln, case, err),
                         "property fails on the real code: %s (%d oracle lines in this run, kinds: %s)" % (ln[:300], len(oracle_ok), ", ".join(kinds)))
        if state["aborts"]:
            label, what, case = state["aborts"][0]
            ck.violation("abort", replay_text(label, what, case), what[:400], no_input=True)
        if mism_ok and not fails:
            label, ln, case, _ = mism_ok[0]
            ck.violation("correspondence", replay_text(label, "correspondence stream `exit` (harness h4_exit vs Lean driver): " + ln, case),
                         "model and implementation disagree (%d lines), no property oracle fired: %s | %s" % (
                             len(mism_ok), ln[:200], (case or "")[:300]), no_input=True)
        if ps["broken"] and not fails:
            found = False
            # model-side search with the extracted facts, replayed on the real code
            rc, sout = vlib.driver(["exit", "search"] + pargs, timeout=600)
            cand = [l for l in sout.split("\n") if l.startswith("case ")]
            if cand:
                no, nm = len(state["oracle"]), len(state["mismatches"])
                process(run_cases(hbin, cand, pargs, scratch, "model-side search"))
                hits, _ = settle(no, nm)
                if hits:
                    label, ln, case, err = hits[0]
                    ck.violation("model_script", replay_text("found by the model-side search with the extracted facts", ln, case, err),
                                 "proof obligation broken (%s) and the failing script reproduces on the real code: %s" % (ps["broken"][0][:200], ln[:300]))
                    found = True
            if not found and tier == "quick":
                # search harder: the thorough generators at two more seeds
                for sd in (ck.seed + 7000, ck.seed + 8000):
                    no, nm = len(state["oracle"]), len(state["mismatches"])
                    process(run_cases(hbin, gen_cases("thorough", sd, after_stop_limit), pargs, scratch, "gen(deeper) seed=%d" % sd))
                    hits, _ = settle(no, nm)
                    if hits:
                        hits.sort(key=lambda x: len(x[2] or ""))
                        label, ln, case, err = hits[0]
                        ck.violation("oracle_deeper", replay_text(label, ln, case, err),
                                     "proof obligation broken (%s) and a failing case was found by the deeper generators: %s" % (ps["broken"][0][:200], ln[:300]))
                        found = True
                        break
            if not found and not ck.violations:
                ck.violation("proof_broken", "theorems/obligations that no longer check:\n" + "\n".join(ps["broken"]) + "\n",
                             "proof side broken, no failing input found: " + ps["broken"][0][:300], no_input=True)
        if state["flaky"]:
            ck.notes.append("%d case(s) ended differently from the expectation in the parallel run but did not do so in %d re-runs on their own: "
                            "recorded under coverage.flaky_cases, not a violation" % (len(state["flaky"]), RERUNS))
        if state["f27"]:
            kinds = sorted({hit_kind(h[1]) for h in state["f27"]})
            ck.known("F27 reproduces in %d of %d cases of its input class (%s), e.g. %s | %s; replay=corpus/C07/f27_signal_inside_stop_after_last_look.txt" % (
                len(state["f27_cases"]), state["f27_run"], ", ".join(kinds), state["f27"][0][1][:160],
                re.sub(r"^KNOWN-FINDING: property=\S+ F27 ", "", known["F27"].get("line", F27_TEXT))[:300]))
        elif "F27" in known:
            ck.notes.append("listed finding F27 did not reproduce in this run (%d cases of its input class ran)" % state["f27_run"])
        for fid in sorted(known):
            if fid != "F27":
                ck.notes.append("listed finding %s is not reproduced by a dedicated class in this check" % fid)

        ck.cov.update({
            "evaluations": state["cases"],
            "traces_validated_against_impl": state["traces"],
            "statements_found_in_files": state["stmts"],
            "distinct_nontrivial": len(state["nontrivial"]),
            "rule": "one case = one child process running the real backend thread from start to its end; non-trivial iff statements were still "
                    "queued at the action (1500-statement burst right before it), or other logging threads existed, or the programme had at least "
                    "two stop() calls; distinct = distinct case specifications (SHA-1 of the spec without its id)",
            "cases_by_model_class": state["classes"],
            "cases_with_wait_for_queues_to_empty_before_exit_off": state["wait_off"],
            "cases_with_a_signal_inside_another_threads_stop_or_the_atexit_stop": state["inside_stop"],
            "cases_of_the_input_class_of_F27": state["f27_run"],
            "process_directed_kill (masks set by the harness -> thread the handler ran on)": state["kill"],
            "wait_statuses": state["statuses"],
            "two_threads_raising_at_once (which entered first)": state["two_entrants"],
            "samples": state["samples"],
            "corpus_files": ncorpus,
            "harness_stats": state["stats"],
            "driver_totals": state["done"],
            "extracted": {k: v for k, v in (ex.get("exit") or {}).items() if k != "onSignalProg"},
            "extracted_onSignalProg": (ex.get("exit") or {}).get("onSignalProg"),
            "mismatching_lines": len(state["mismatches"]),
            "oracle_hits": len(state["oracle"]),
            "oracle_hits_confirmed": len(oracle_ok),
            "flaky_cases": state["flaky"],
            "status_complaints_not_rerun": state["not_rerun"][:20],
            "reproducibility_rule": "a complaint about how a process ended (wait status, hang, script not finished, the model's prediction of "
                                    "these) counts only if the case fails again in each of %d re-runs on its own (one child at a time); complaints "
                                    "about the content of the file of a process that ended as expected count as they are" % RERUNS,
            "aborts": len(state["aborts"]),
            "cases_outside_the_model (exit on the backend thread)": state["unspecified"],
            "parallel_children": JOBS,
        })
    finally:
        shutil.rmtree(scratch, ignore_errors=True)
    return ck.finish()


def replay(prop, path):
    ok, hbin, log = vlib.build_harness(HARNESS[0], HARNESS[1], extra_flags=HARNESS[2], sanitize=False)
    if not ok:
        print(log)
        return 2
    ex = vlib.run_extract()
    pargs = life_args(ex)
    scratch = tempfile.mkdtemp(prefix="h4_exit_", dir="/tmp")
    try:
        lines = [l.strip() for l in open(path) if l.startswith("case ")]
        res = run_cases(hbin, lines, pargs, scratch, "replay")
        print(res["out"])
        print(res["dout"])
        bad = [l for l in res["out"].split("\n") if l.startswith("ORACLE")]
        return 1 if bad or res["rc"] not in (0, 3) else 0
    finally:
        shutil.rmtree(scratch, ignore_errors=True)
