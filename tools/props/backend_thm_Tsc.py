"""Proof bundle Tsc: C05 for ClockSourceType::Tsc loggers — the TSC -> epoch conversion of backend/RdtscClock.h brought inside
the model (lean/QuillModel/Tsc/*.lean, Props/C05Tsc.lean, Obligations/Tsc.lean, extraction tools/extractors/tsc.py;
correspondence stream tools/tsc_stream.py = harness h3_tsc on the real class vs `driver tsc`).
Proved: monotone between resyncs, the exact effect of a resync (shift by the drift ± 1 ns), per-thread order independent of
the conversion; witnesses that the code as it is writes decreasing timestamps / inverts two threads across a resync (F38).
The ordering of TSC statements ACROSS a resync is false of the code as it is: finding F38 (known_findings.json), reported by
tools/tsc_stream.py as KNOWN-FINDING for exactly that input class."""
THEOREMS = {
    "C05": ["Tsc.C05Tsc_monotone_between_resyncs", "Tsc.C05Tsc_value_independent_of_reads", "Tsc.C05Tsc_resync_shift",
            "Tsc.C05Tsc_inversion_bound", "Tsc.C05Tsc_inversion_bound_forward", "Tsc.C05Tsc_gate_needed", "Tsc.C05Tsc_no_inversion_when_behind", "Tsc.C05Tsc_no_inversion_beyond_drift",
            "Tsc.C05Tsc_exact_scale_ok", "Tsc.C05Tsc_backstep_witness", "Tsc.C05Tsc_inversion_witness",
            "Tsc.C05Tsc_thread_order_any_conversion", "Tsc.C05Tsc_pop_takes_least_converted",
            "Obligations.tsc_extraction_complete", "Obligations.tsc_params_are_code", "Obligations.tsc_publication_orders",
            "Obligations.tsc_default_resync_interval", "Obligations.tsc_structure",
            "Obligations.C05Tsc_monotone_between_resyncs_extracted", "Obligations.C05Tsc_backstep_witness_extracted"],
}
MODULES = {"C05": ["QuillModel.Props.C05Tsc"]}
OBLIG = ["QuillModel.Obligations.Tsc"]
OBLIG_BY_PROP = {"C05": ["QuillModel.Obligations.Tsc"]}
