// H2-mixed — the scheduler harness of h2_backend.cpp with TWO frontends of different queue types in one process:
// frontend B = BoundedDropping (H2_QCAP bytes), frontend U = UnboundedBlocking (first node H2_UCAP bytes, default 512).
// Loggers g5..g9 belong to frontend U, all others to frontend B; an actor (thread) stays with the frontend of the first
// logger it used (the scripts see to it; the harness exits with HARNESS-CONTRACT otherwise). The order in which the
// threads' contexts register — hence their order in the backend's context cache — is the order of the actors' first
// queue-writing calls in the script. Everything else (operations, hook-site injections, line protocol) is h2_backend.cpp's.
#define H2_MIXED 1
#define H2_VARIANT 1
#include "h2_backend.cpp"
