// H3 — the real quill::RotatingFileSink in a scratch directory (C14 size rotation, C15 time rotation).
//
// Generator mode:  h3_rot gen <seed> <cases> <ops-per-case> <C14|C15>
// Replay mode:     h3_rot replay <file>     (lines "case …", "plant …", "start …", "w …", "cfg …"; anything after " => " ignored)
//
// The sink is constructed with an explicit start_time and driven through write_log with explicit timestamps. After
// every operation the harness flushes the sink and prints
//   <op> => next=<_next_rotation_time|-> open=<_open_file_timestamp> fsz=<_file_size> dq=<_created_files back..front> | <listing>
// where <listing> is the sorted directory listing with the statement ids found in each file ("name=1.2.3;name=").
// The Lean driver `rot` replays the same operations on the model and compares. Independently of the model the
// harness checks the properties themselves on the real directory and prints "ORACLE <kind> …" lines:
//   C14: dup-id, torn, not-in-cur, order, not-suffix, over-limit, backup-bound
//   C15: time-merge, time-split, suffix, grid (dst-drift in a zone whose offset changes during the case)
// The SPELLING of the sink's path is an explicit parameter of every (re)start (`sp=<k>` at the end of the start op):
//   0 canon  /tmp/h3rot_X/log.log (absolute, canonical)      1 rel    h3rot_X/log.log           (cwd = /tmp)
//   2 dot    ./h3rot_X/log.log                               3 updown h3rot_X/../h3rot_X/log.log
//   4 link   /tmp/h3rot_X_l/log.log (symlink to the dir)     5 trail  /tmp/h3rot_X/./log.log
//   6 bare   log.log (cwd = the scratch directory)
// chosen independently for each restart of the same directory. The model and the oracles do not look at it: the same
// files must be recovered and the same sequence continued whatever the spelling (std::filesystem's path resolution
// itself is trusted; the *invariance* of the sink's behaviour under the spelling is what is tested).
// Every scratch directory is created under /tmp by the run and removed by it.
#include <algorithm>
#include <cerrno>
#include <chrono>
#include <cstdint>
#include <cstdio>
#include <cstdlib>
#include <cstring>
#include <ctime>
#include <deque>
#include <fstream>
#include <iostream>
#include <map>
#include <memory>
#include <set>
#include <sstream>
#include <string>
#include <vector>
#include <dirent.h>
#include <sys/stat.h>
#include <unistd.h>

#include "quill/sinks/RotatingFileSink.h"
#include "quill/sinks/RotatingJsonFileSink.h"

using namespace quill;
using Cfg = RotatingFileSinkConfig;

static uint64_t g_oracle_hits = 0;
static std::map<std::string, uint64_t> g_stats;
static uint64_t const NS = 1000000000ull;

struct Rng
{
  uint64_t s;
  explicit Rng(uint64_t seed) : s(seed * 0x9E3779B97F4A7C15ull + 0x7654321ull) { next(); next(); }
  uint64_t next()
  {
    s ^= s << 13;
    s ^= s >> 7;
    s ^= s << 17;
    return s;
  }
  uint64_t below(uint64_t n) { return n ? next() % n : 0; }
  bool chance(unsigned pct) { return below(100) < pct; }
  template <typename T, size_t N>
  T pick(T const (&a)[N]) { return a[below(N)]; }
};

static std::vector<std::string> split_ws(std::string const& s)
{
  std::vector<std::string> out;
  std::istringstream is(s);
  std::string w;
  while (is >> w) out.push_back(w);
  return out;
}

// ------------------------------------------------------------------------------------------------------------
struct FileView
{
  std::string name;
  std::vector<uint64_t> ids;
  uint64_t bytes{0};
  bool parsed{true};
};

struct StartCfg
{
  uint64_t limit{0};
  uint64_t maxb{4294967295ull};
  bool ow{true};
  char mode{'a'};
  bool clean{true};
  char freq{'N'};
  uint32_t iv{0};
  int hh{0}, mm{0};
  uint64_t ts{0};
  int spell{0}; // how the path handed to the constructor is spelled (see the head of this file); not part of the model
  char scheme{0}; // naming scheme of this start (0 = the scheme of the case line); a change makes the case "mixed": oracle only
};

// what the harness reads of either sink type (RotatingSink<FileSink> / RotatingSink<JsonFileSink>)
struct SinkView
{
  uint64_t next{0}, open{0}, fsz{0};
  std::vector<std::string> dq; // _created_files back..front, rendered by the sink's own _get_filename
};

static char const* const SPELL_NAMES[] = {"canon", "rel", "dot", "updown", "link", "trail", "bare"};
static int const N_SPELL = 7;

struct Rec
{
  uint64_t size, ts;
  int run;
};

struct Case
{
  std::string id, kind, tz{"UTC"};
  char scheme{'I'};
  bool gmt{true};
  std::string dir;          // canonical absolute path of the scratch directory
  std::string parent, base; // dir = parent + "/" + base
  std::string link;         // symlink next to the scratch directory pointing at it (created on first use)
  bool link_made{false};
  std::unique_ptr<RotatingFileSink> fsink;
  std::unique_ptr<RotatingJsonFileSink> jsink;
  bool sink{false}; // a sink object is alive
  char sinkk{'F'};  // F = RotatingFileSink, J = RotatingJsonFileSink (oracle only: the model has one size per statement)
  char fa{'N'};     // FilenameAppendOption: N none, D StartDate, T StartDateTime, C custom "_%Y%m" (oracle only: wall-clock name)
  std::string bname{"log.log"}; // base file name handed to the constructor
  std::string abase{"log.log"}, S{"log"}, E{".log"}; // the name the sink really writes to (= bname unless fa), its stem / extension
  char scheme0{'I'};
  bool mixed{false};      // the naming scheme changed at a restart: the scheme's name order is undefined, scheme-independent oracles only
  bool blind{false};      // a start scanned the directory with a filter that cannot see the sink's own rotated files (F28 / F29 classes)
  bool base_moved{false}; // fa: the wall clock changed the base name between two starts (midnight / next second): oracles off
  std::vector<std::unique_ptr<std::string>> fmts; // JSON: message formats must outlive the call
  StartCfg cfg;
  std::ostringstream out;
  long off_min{0}, off_max{0};
  bool off_init{false};
  // oracle state
  std::map<uint64_t, Rec> recs;
  std::vector<uint64_t> written;   // ids in write order (all runs)
  size_t epoch_begin{0};           // index into `written` where the current epoch starts (last "w"-mode start)
  int run{0};
  int append_restarts{0};
  bool overstart{false};   // the last start found more rotated files than max_backup_files
  bool unrecovered{false}; // an append-mode start left rotated files of this directory outside _created_files (Date: other days; DateAndTime: all)
  bool nonmono{false};
  uint64_t max_ts{0};
  uint64_t run_max_ts{0};
  bool run_has_ts{false};
  long max_day_seen{-1000000};
  std::map<std::string, std::string> stale; // rotated files on disk at the last "w"-mode start: name -> ids
  std::map<uint64_t, uint64_t> open_ts_of_first; // first id of a file -> instant the file was opened
  uint64_t cur_open_ts{0};
  uint64_t next_id{1};
  unsigned opno{0};

  // -------- zone helpers (libc) --------
  long offset_at(uint64_t ts_ns)
  {
    if (gmt) return 0;
    time_t t = static_cast<time_t>(ts_ns / NS);
    tm r;
    localtime_r(&t, &r);
    return r.tm_gmtoff;
  }
  void note_offset(uint64_t ts_ns)
  {
    // the offsets of the instants the case touches, and of the 50 hours after each of them (first rotation point)
    for (int h = 0; h <= 50; h += 1)
    {
      long const o = offset_at(ts_ns + static_cast<uint64_t>(h) * 3600ull * NS);
      if (!off_init) { off_min = off_max = o; off_init = true; }
      off_min = std::min(off_min, o);
      off_max = std::max(off_max, o);
    }
  }
  std::string fmt_time(uint64_t ts_ns, char const* pattern)
  {
    time_t t = static_cast<time_t>(ts_ns / NS);
    tm r;
    if (gmt) gmtime_r(&t, &r); else localtime_r(&t, &r);
    char buf[64];
    strftime(buf, sizeof buf, pattern, &r);
    return buf;
  }
  long civil_day(uint64_t ts_ns)
  {
    long const s = static_cast<long>(ts_ns / NS) + offset_at(ts_ns);
    return s >= 0 ? s / 86400 : -((-s + 86399) / 86400);
  }
  time_t to_time(tm& r) { r.tm_isdst = -1; return gmt ? timegm(&r) : mktime(&r); }
  // first point of the configured schedule strictly after instant t (seconds), for the run started at start_s
  int64_t grid_after(int64_t start_s, int64_t t)
  {
    time_t st = static_cast<time_t>(start_s);
    tm r;
    if (gmt) gmtime_r(&st, &r); else localtime_r(&st, &r);
    if (cfg.freq == 'D')
    {
      for (int k = 0;; ++k)
      {
        tm d = r;
        d.tm_mday += k;
        d.tm_hour = cfg.hh; d.tm_min = cfg.mm; d.tm_sec = 0;
        int64_t const g = static_cast<int64_t>(to_time(d));
        if (g > start_s && g > t) return g;
        if (k > 40000) return -1;
      }
    }
    tm d = r;
    if (cfg.freq == 'M') { d.tm_min += 1; d.tm_sec = 0; }
    else { d.tm_hour += 1; d.tm_min = 0; d.tm_sec = 0; }
    int64_t const g0 = static_cast<int64_t>(to_time(d));
    int64_t const p = (cfg.freq == 'M' ? 60ll : 3600ll) * cfg.iv;
    if (t < g0) return g0;
    return g0 + ((t - g0) / p + 1) * p;
  }

  // -------- scratch directory --------
  void make_dir()
  {
    char tmpl[] = "/tmp/h3rot_XXXXXX";
    char* d = mkdtemp(tmpl);
    if (!d) { perror("mkdtemp"); exit(2); }
    char* rp = realpath(d, nullptr);
    if (!rp) { perror("realpath"); exit(2); }
    dir = rp;
    free(rp);
    auto const slash = dir.rfind('/');
    parent = slash == 0 ? std::string{"/"} : dir.substr(0, slash);
    base = dir.substr(slash + 1);
    link = dir + "_l";
    link_made = false;
  }
  // the path handed to the sink's constructor, and the working directory it is relative to
  std::string spelled_path(int sp)
  {
    if (chdir((sp == 6 ? dir : parent).c_str()) != 0) { perror("chdir"); exit(2); }
    switch (sp)
    {
    case 1: return base + "/" + bname;
    case 2: return "./" + base + "/" + bname;
    case 3: return base + "/../" + base + "/" + bname;
    case 4:
      if (!link_made)
      {
        if (symlink(dir.c_str(), link.c_str()) != 0) { perror("symlink"); exit(2); }
        link_made = true;
      }
      return link + "/" + bname;
    case 5: return dir + "/./" + bname;
    case 6: return bname;
    default: return dir + "/" + bname;
    }
  }
  void drop_sink() { fsink.reset(); jsink.reset(); sink = false; }
  template <typename F> void with_sink(F&& f) { if (fsink) f(*fsink); else if (jsink) f(*jsink); }
  SinkView view()
  {
    SinkView v;
    with_sink([&](auto& s) {
      v.next = s._next_rotation_time; v.open = s._open_file_timestamp; v.fsz = s._file_size;
      using ST = std::decay_t<decltype(s)>;
      for (auto it = s._created_files.rbegin(); it != s._created_files.rend(); ++it)
        v.dq.push_back(ST::_get_filename(it->base_filename, it->index, it->date_time).filename().string());
    });
    return v;
  }
  void set_base(std::string const& b)
  {
    abase = b;
    fs::path const pth{b};
    S = pth.stem().string();
    E = pth.extension().string();
  }
  // how the directory scan of _clean_and_recover_files sees the sink's own rotated files: "ext" = an ordinary extension,
  // "dots" = further dots in the stem, "trail" = trailing dot; "noext" / "hidden" = empty extension (the scan's extension
  // filter then rejects every rotated file: finding F28)
  std::string base_class() const
  {
    fs::path const pth{bname};
    if (pth.extension().string().empty()) return bname[0] == '.' ? "hidden" : "noext";
    if (pth.extension().string() == ".") return "trail";
    std::string const st = pth.stem().string();
    auto const ld = st.rfind('.');
    if (ld == std::string::npos) return "ext";
    // "x.1.log": the current file itself passes the scan filter ("x.1." + "log") and parses as rotated file #1 of "x.log"
    // (finding F31) — the stem's last component is a number
    std::string const last = st.substr(ld + 1);
    bool num = !last.empty();
    for (char ch : last) num = num && ch >= '0' && ch <= '9';
    return num ? "numstem" : "dots";
  }
  bool scan_blind() const { return fa != 'N' || fs::path{bname}.extension().string().empty(); }
  void remove_dir()
  {
    drop_sink();
    if (dir.empty()) return;
    if (chdir(parent.c_str()) != 0) { perror("chdir"); exit(2); }
    if (link_made) { unlink(link.c_str()); link_made = false; }
    if (DIR* dp = opendir(dir.c_str()))
    {
      while (dirent* e = readdir(dp))
      {
        std::string n = e->d_name;
        if (n == "." || n == "..") continue;
        unlink((dir + "/" + n).c_str());
      }
      closedir(dp);
    }
    rmdir(dir.c_str());
    dir.clear();
  }

  std::vector<FileView> list_dir()
  {
    std::vector<FileView> v;
    DIR* dp = opendir(dir.c_str());
    if (!dp) return v;
    while (dirent* e = readdir(dp))
    {
      std::string n = e->d_name;
      if (n == "." || n == "..") continue;
      FileView f;
      f.name = n;
      std::ifstream in(dir + "/" + n, std::ios::binary);
      std::string data((std::istreambuf_iterator<char>(in)), std::istreambuf_iterator<char>());
      f.bytes = data.size();
      if (is_family(n) && sinkk == 'J')
      {
        // one object per line: {"timestamp":"…",…,"message":"#<id>:x*"}
        size_t i = 0;
        while (i < data.size())
        {
          size_t const nl = data.find('\n', i);
          if (nl == std::string::npos) { f.parsed = false; break; }
          std::string const ln = data.substr(i, nl - i);
          i = nl + 1;
          auto const m = ln.find("\"message\":\"#");
          if (ln.compare(0, 14, "{\"timestamp\":\"") != 0 || m == std::string::npos || ln.size() < 2 || ln.compare(ln.size() - 2, 2, "\"}") != 0)
          { f.parsed = false; break; }
          size_t j = m + 12;
          uint64_t id = 0;
          size_t nd = 0;
          while (j < ln.size() && ln[j] >= '0' && ln[j] <= '9') { id = id * 10 + static_cast<uint64_t>(ln[j] - '0'); ++j; ++nd; }
          size_t const xs = j;
          if (nd == 0 || j >= ln.size() || ln[j] != ':') { f.parsed = false; break; }
          ++j;
          while (j < ln.size() && ln[j] == 'x') ++j;
          auto it = recs.find(id);
          if (j + 2 != ln.size() || it == recs.end() || it->second.size != (j - xs) + nd + 2) f.parsed = false;
          f.ids.push_back(id);
        }
      }
      else if (is_family(n))
      {
        size_t i = 0;
        while (i < data.size())
        {
          // "#<id>:" x* "\n"
          size_t const begin = i;
          if (data[i] != '#') { f.parsed = false; break; }
          ++i;
          uint64_t id = 0;
          size_t nd = 0;
          while (i < data.size() && data[i] >= '0' && data[i] <= '9') { id = id * 10 + static_cast<uint64_t>(data[i] - '0'); ++i; ++nd; }
          if (nd == 0 || i >= data.size() || data[i] != ':') { f.parsed = false; break; }
          ++i;
          while (i < data.size() && data[i] == 'x') ++i;
          if (i >= data.size() || data[i] != '\n') { f.parsed = false; break; }
          ++i;
          auto it = recs.find(id);
          if (it == recs.end() || it->second.size != i - begin) { f.parsed = false; }
          f.ids.push_back(id);
        }
      }
      v.push_back(std::move(f));
    }
    closedir(dp);
    std::sort(v.begin(), v.end(), [](FileView const& a, FileView const& b) { return a.name < b.name; });
    return v;
  }

  bool is_family(std::string const& n) const
  {
    // <S><E>, <S>.<digits><E>, <S>.<date[_time]><E>, <S>.<date[_time]>.<digits><E>, and with an empty extension <S>.<digits>.<date>
    if (n == abase) return true;
    std::string const pre = S + ".";
    if (n.size() < pre.size() + E.size() + 1 || n.compare(0, pre.size(), pre) != 0) return false;
    if (!E.empty() && n.compare(n.size() - E.size(), E.size(), E) != 0) return false;
    std::string mid = n.substr(pre.size(), n.size() - pre.size() - E.size());
    if (mid.empty() || mid[0] == '.' || mid.back() == '.') return false;
    for (char c : mid) if (!((c >= '0' && c <= '9') || c == '.' || c == '_')) return false;
    return true;
  }
  // (suffix, index) of a family file; the current file is ("", 0)
  std::pair<std::string, uint64_t> parse_family(std::string const& n, char sch) const
  {
    if (n == abase) return {"", 0};
    std::string mid = n.substr(S.size() + 1, n.size() - S.size() - 1 - E.size());
    if (sch == 'I' && mid.find('.') == std::string::npos && mid.find('_') == std::string::npos) return {"", std::stoull(mid)};
    // tokens: a token of 8 or more characters is the date[_time], a shorter one the index (either order: with an empty
    // extension the sink renders <S>.<index>.<date>)
    std::pair<std::string, uint64_t> r{"", 0};
    size_t b = 0;
    while (b <= mid.size())
    {
      size_t e = mid.find('.', b);
      if (e == std::string::npos) e = mid.size();
      std::string const tok = mid.substr(b, e - b);
      if (tok.size() >= 8 || tok.find('_') != std::string::npos) r.first = tok;
      else if (!tok.empty()) r.second = std::stoull(tok);
      b = e + 1;
    }
    return r;
  }

  std::string state_string()
  {
    SinkView const sv = view();
    std::ostringstream s;
    s << "next=";
    if (cfg.freq == 'N') s << "-"; else s << sv.next;
    s << " open=" << sv.open << " fsz=" << sv.fsz << " dq=";
    for (size_t i = 0; i < sv.dq.size(); ++i) s << (i ? "," : "") << sv.dq[i];
    return s.str();
  }
  static std::string listing_string(std::vector<FileView> const& v)
  {
    std::ostringstream s;
    bool first = true;
    for (auto const& f : v)
    {
      if (!first) s << ";";
      first = false;
      s << f.name << "=";
      for (size_t i = 0; i < f.ids.size(); ++i) { if (i) s << "."; s << f.ids[i]; }
    }
    return s.str();
  }

  void oracle(std::string const& kind, std::string const& detail)
  {
    if (base_moved) return;
    ++g_oracle_hits;
    ++g_stats["oracle_" + kind];
    out << "ORACLE " << kind << " case=" << id << " op=" << opno << " scheme=" << scheme << " nonmono=" << (nonmono ? 1 : 0)
        << " arestarts=" << append_restarts << " unrecovered=" << (unrecovered ? 1 : 0) << " dst=" << (off_min != off_max ? 1 : 0)
        << " overstart=" << (overstart ? 1 : 0) << " spell=" << SPELL_NAMES[cfg.spell] << " base=" << base_class() << " sink=" << sinkk
        << " fa=" << fa << " mixed=" << (mixed ? 1 : 0) << " blind=" << (blind ? 1 : 0) << " " << detail << "\n";
  }

  // ordering of the family files as the naming scheme reads them, oldest first
  std::vector<FileView const*> scheme_order(std::vector<FileView> const& v)
  {
    std::vector<FileView const*> fam;
    for (auto const& f : v) if (is_family(f.name) && f.name != abase) fam.push_back(&f);
    std::sort(fam.begin(), fam.end(), [this](FileView const* a, FileView const* b) {
      auto const pa = parse_family(a->name, scheme);
      auto const pb = parse_family(b->name, scheme);
      if (pa.first != pb.first) return pa.first < pb.first; // earlier date is older
      return pa.second > pb.second;                         // larger index is older
    });
    for (auto const& f : v) if (f.name == abase) fam.push_back(&f);
    return fam;
  }

  // -------- the property checks that hold after every operation (C14) --------
  void check_c14(std::vector<FileView> const& v, uint64_t rotated_before, bool after_write, uint64_t wid, bool rotated,
                 std::vector<FileView> const* before = nullptr)
  {
    std::map<uint64_t, int> seen;
    for (auto const& f : v)
    {
      if (!is_family(f.name)) continue;
      if (!f.parsed) oracle("torn", "file=" + f.name + " does not consist of whole written statements");
      for (uint64_t i : f.ids) ++seen[i];
    }
    for (auto const& kv : seen)
      if (kv.second > 1) { oracle("dup-id", "id=" + std::to_string(kv.first) + " is in " + std::to_string(kv.second) + " places"); break; }
    // "otherwise rotation stops and nothing is deleted": with overwrite_rolled_files off no statement of the current
    // sequence (since the last "w"-mode start) that was on disk before the operation may be gone after it — whatever the
    // operation: a write, or a start in append mode with any other configuration (a lowered max_backup_files included)
    if (before && !cfg.ow)
    {
      std::set<uint64_t> const epoch_ids(written.begin() + static_cast<long>(epoch_begin), written.end());
      for (auto const& f : *before)
      {
        if (!is_family(f.name)) continue;
        bool hit = false;
        for (uint64_t i : f.ids)
          if (epoch_ids.count(i) && !seen.count(i))
          {
            oracle("ow-off-deleted", "id=" + std::to_string(i) + " (file " + f.name + " before the operation) is gone although overwrite_rolled_files is off" +
                                       (after_write ? "" : ": deleted by the start itself"));
            hit = true;
            break;
          }
        if (hit) break;
      }
    }
    if (mixed)
    {
      // the naming scheme changed during the life of the directory: "as the naming scheme orders them" is undefined
      if (after_write)
      {
        FileView const* cur = nullptr;
        for (auto const& f : v) if (f.name == abase) cur = &f;
        if (!cur || cur->ids.empty() || cur->ids.back() != wid || seen[wid] != 1)
          oracle("not-in-cur", "id=" + std::to_string(wid) + " is not the last statement of the current file (and only there)");
      }
      return;
    }
    // order by the naming scheme
    auto const fam = scheme_order(v);
    {
      uint64_t prev = 0;
      std::string prevf;
      for (auto const* f : fam)
        for (uint64_t i : f->ids)
        {
          if (i <= prev)
          {
            oracle("order", "reading oldest→newest by name, id " + std::to_string(i) + " (" + f->name + ") comes after id " +
                              std::to_string(prev) + " (" + prevf + ")");
            goto order_done;
          }
          prev = i;
          prevf = f->name;
        }
    order_done:;
    }
    // statements of the current epoch that are still on disk are a suffix of what was written
    {
      bool missing_after_present = false;
      bool seen_present = false;
      uint64_t first_missing = 0;
      for (size_t k = epoch_begin; k < written.size(); ++k)
      {
        bool const present = seen.count(written[k]) != 0;
        if (present) seen_present = true;
        else if (seen_present && !missing_after_present) { missing_after_present = true; first_missing = written[k]; }
      }
      if (missing_after_present)
        oracle("not-suffix", "id=" + std::to_string(first_missing) + " is gone while an older statement of the same run sequence is still on disk");
      if (cfg.ow == false && run > 0)
      {
        // nothing is deleted when overwriting is off (within the current run)
        for (size_t k = epoch_begin; k < written.size(); ++k)
          if (recs[written[k]].run == run && !seen.count(written[k]))
          { oracle("not-suffix", "id=" + std::to_string(written[k]) + " deleted although overwrite_rolled_files is off"); break; }
      }
    }
    uint64_t const rotated_now = count_rotated(v);
    if (rotated && rotated_now > cfg.maxb && rotated_now <= rotated_before && cfg.ow)
      oracle("backup-shrink", "a rotation took place and " + std::to_string(rotated_now) + " rotated files remain, max_backup_files=" +
                                std::to_string(cfg.maxb) + " (before the op: " + std::to_string(rotated_before) + "): only one file is deleted per rotation");
    if (rotated_now > std::max<uint64_t>(cfg.maxb, rotated_before))
      oracle("backup-bound", "rotated files holding statements of the current sequence: " + std::to_string(rotated_now) +
                               " > max_backup_files=" + std::to_string(cfg.maxb) + " (before the op: " + std::to_string(rotated_before) + ")");
    if (after_write)
    {
      FileView const* cur = nullptr;
      for (auto const& f : v) if (f.name == abase) cur = &f;
      if (!cur || cur->ids.empty() || cur->ids.back() != wid || seen[wid] != 1)
        oracle("not-in-cur", "id=" + std::to_string(wid) + " is not the last statement of the current file (and only there)");
      else if (cfg.limit != 0 && cur->bytes > cfg.limit && cur->ids.size() > 1 && !(cfg.ow == false && count_family(v) >= cfg.maxb))
        oracle("over-limit", abase + " holds " + std::to_string(cur->ids.size()) + " statements, " + std::to_string(cur->bytes) +
                               " bytes > limit " + std::to_string(cfg.limit));
    }
  }
  static std::string ids_string(FileView const& f)
  {
    std::string r;
    for (uint64_t i : f.ids) r += std::to_string(i) + ".";
    return r;
  }
  uint64_t count_rotated(std::vector<FileView> const& v)
  {
    // rotated family files, except those left behind (and not yet overwritten) by a run that ended before a "w"-mode start
    uint64_t n = 0;
    for (auto const& f : v)
    {
      if (!is_family(f.name) || f.name == abase) continue;
      auto it = stale.find(f.name);
      if (it != stale.end() && it->second == ids_string(f)) continue;
      ++n;
    }
    return n;
  }
  uint64_t count_family(std::vector<FileView> const& v)
  {
    uint64_t n = 0;
    for (auto const& f : v) if (is_family(f.name) && f.name != abase) ++n;
    return n;
  }

  void check_suffixes(std::vector<FileView> const& v)
  {
    if (scheme == 'I') return;
    for (auto const& f : v)
    {
      if (!is_family(f.name) || f.name == abase || f.ids.empty()) continue;
      auto it = open_ts_of_first.find(f.ids.front());
      if (it == open_ts_of_first.end()) continue;
      std::string const want = fmt_time(it->second, scheme == 'D' ? "%Y%m%d" : "%Y%m%d_%H%M%S");
      if (parse_family(f.name, scheme).first != want)
        oracle("suffix", "file=" + f.name + " was opened at " + std::to_string(it->second) + " = " + want);
    }
  }

  // -------- operations --------
  void emit(std::string const& op, std::vector<FileView> const& v)
  {
    out << op << " => " << (sink ? state_string() : std::string{}) << " | " << listing_string(v) << "\n";
  }

  void do_plant(char k, uint64_t n)
  {
    ++opno;
    std::string name;
    if (k == 'F') name = RotatingFileSink::_get_filename(fs::path{abase}, static_cast<uint32_t>(n), std::string{}).string();
    else if (k == 'J') name = S + ".x" + std::to_string(n) + E;
    else
    {
      switch (n % 4)
      {
      case 0: name = "other." + std::to_string(n / 4 + 1) + E; break;
      case 1: name = S + "." + std::to_string(n / 4 + 1) + ".txt"; break;
      case 2: name = S + "x." + std::to_string(n / 4 + 1) + E; break;
      default: name = "notes" + std::to_string(n / 4) + ".md"; break;
      }
    }
    std::ofstream f(dir + "/" + name, std::ios::binary); // empty file
    f.close();
    ++g_stats[std::string("plant_") + k];
    auto v = list_dir();
    std::ostringstream op;
    op << "plant " << k << " " << n;
    out << op.str() << " => - | " << listing_string(v) << "\n";
  }

  void do_start(StartCfg const& c)
  {
    ++opno;
    drop_sink();
    auto const before = list_dir();
    uint64_t const rotated_before = count_rotated(before);
    cfg = c;
    if (cfg.scheme == 0) cfg.scheme = scheme;
    if (cfg.scheme != scheme) { mixed = true; scheme = cfg.scheme; ++g_stats["start_changes_scheme"]; }
    note_offset(c.ts);
    Cfg q;
    bool threw = false;
    try
    {
      if (c.limit) q.set_rotation_max_file_size(c.limit);
      q.set_max_backup_files(static_cast<uint32_t>(c.maxb));
      q.set_overwrite_rolled_files(c.ow);
      q.set_open_mode(c.mode);
      q.set_remove_old_files(c.clean);
      q.set_timezone(gmt ? Timezone::GmtTime : Timezone::LocalTime);
      q.set_rotation_naming_scheme(scheme == 'I' ? Cfg::RotationNamingScheme::Index
                                   : scheme == 'D' ? Cfg::RotationNamingScheme::Date
                                                   : Cfg::RotationNamingScheme::DateAndTime);
      if (c.freq == 'D')
      {
        char b[8];
        snprintf(b, sizeof b, "%02d:%02d", c.hh, c.mm);
        q.set_rotation_time_daily(b);
      }
      else if (c.freq == 'H' || c.freq == 'M') q.set_rotation_frequency_and_interval(c.freq, c.iv);
      auto const st = std::chrono::system_clock::time_point{
        std::chrono::duration_cast<std::chrono::system_clock::duration>(std::chrono::nanoseconds{static_cast<int64_t>(c.ts)})};
      if (fa == 'D') q.set_filename_append_option(FilenameAppendOption::StartDate);
      else if (fa == 'T') q.set_filename_append_option(FilenameAppendOption::StartDateTime);
      else if (fa == 'C') q.set_filename_append_option(FilenameAppendOption::StartCustomTimestampFormat, "_%Y%m");
      if (sinkk == 'J') jsink = std::make_unique<RotatingJsonFileSink>(fs::path{spelled_path(c.spell)}, q, FileEventNotifier{}, st);
      else fsink = std::make_unique<RotatingFileSink>(fs::path{spelled_path(c.spell)}, q, FileEventNotifier{}, st);
      sink = true;
      std::string actual;
      with_sink([&](auto& s) { actual = s.get_filename().filename().string(); });
      if (actual != abase)
      {
        // FilenameAppendOption: the name carries the wall-clock date of the start (the start_time argument is not used for it)
        if (run > 0) { base_moved = true; ++g_stats["fa_base_moved"]; }
        set_base(actual);
      }
    }
    catch (std::exception const& e)
    {
      threw = true;
      out << "NOTE start threw: " << e.what() << "\n";
    }
    ++run;
    if (scan_blind() && count_family(before) > 0 && (c.mode == 'a' || c.clean) && scheme != 'T') blind = true;
    if (c.mode == 'w') { epoch_begin = written.size(); unrecovered = false; }
    else
    {
      if (run > 1) ++append_restarts;
      std::string const today = fmt_time(c.ts, "%Y%m%d");
      for (auto const& f : before)
      {
        if (!is_family(f.name) || f.name == abase) continue;
        if (scheme == 'T' || (scheme == 'D' && parse_family(f.name, scheme).first != today)) unrecovered = true;
      }
    }
    max_day_seen = std::max(max_day_seen, civil_day(c.ts));
    if (run > 1 && c.ts < max_ts) nonmono = true;
    max_ts = std::max(max_ts, c.ts);
    run_has_ts = false;
    run_max_ts = 0;
    cur_open_ts = c.ts;
    ++g_stats[std::string("start_mode_") + c.mode];
    ++g_stats[std::string("start_freq_") + c.freq];
    ++g_stats[std::string("spell_") + SPELL_NAMES[c.spell]];
    if (run > 1 && c.mode == 'a' && c.spell != 0 && count_family(before) > 0) ++g_stats["append_restart_over_rotated_files_noncanonical_spelling"];
    std::ostringstream op;
    op << "start " << c.limit << " " << c.maxb << " " << (c.ow ? 1 : 0) << " " << c.mode << " " << (c.clean ? 1 : 0) << " " << c.freq
       << " " << c.iv << " " << c.hh << " " << c.mm << " " << c.ts << " " << offset_at(c.ts) << " sp=" << c.spell;
    if (scheme != scheme0 || mixed) op << " sch=" << scheme;
    auto v = list_dir();
    stale.clear();
    if (c.mode == 'w')
      for (auto const& f : v) if (is_family(f.name) && f.name != abase) stale[f.name] = ids_string(f);
    if (threw || !sink) { out << op.str() << " => threw | " << listing_string(v) << "\n"; return; }
    // the current file as the new process sees it: opened now
    for (auto const& f : v)
      if (f.name == abase && !f.ids.empty()) open_ts_of_first[f.ids.front()] = c.ts;
    emit(op.str(), v);
    (void)rotated_before;
    overstart = count_rotated(v) > c.maxb;
    if (c.mode == 'a' && run > 1 && count_family(before) > c.maxb)
    {
      ++g_stats["append_restart_over_more_files_than_limit"];
      if (!c.ow) ++g_stats["append_restart_over_more_files_than_limit_overwrite_off"];
    }
    check_c14(v, count_rotated(v), false, 0, false, c.mode == 'a' ? &before : nullptr);
  }

  void do_write(uint64_t size, uint64_t ts)
  {
    if (!sink) return;
    ++opno;
    uint64_t const idn = next_id++;
    std::string text = "#" + std::to_string(idn) + ":";
    if (size < text.size() + 1) size = text.size() + 1;
    text.append(size - text.size() - 1, 'x');
    text.push_back('\n');
    note_offset(ts);
    auto const before = list_dir();
    uint64_t const rotated_before = count_rotated(before);
    FileView cur_before;
    for (auto const& f : before) if (f.name == abase) cur_before = f;
    if (ts < max_ts) nonmono = true;
    max_ts = std::max(max_ts, ts);
    recs[idn] = Rec{size, ts, run};
    written.push_back(idn);
    bool threw = false;
    try
    {
      if (jsink)
      {
        fmts.push_back(std::make_unique<std::string>(text.substr(0, text.size() - 1)));
        MacroMetadata const md{"h3_rot.cpp:1", "w", fmts.back()->c_str(), nullptr, LogLevel::Info, MacroMetadata::Event::Log};
        jsink->write_log(&md, ts, "1", "t", "1", "root", LogLevel::Info, "INFO", "I", nullptr, text, text);
        jsink->flush_sink();
      }
      else
      {
        fsink->write_log(nullptr, ts, "", "", "", "", LogLevel::Info, "", "", nullptr, text, text);
        fsink->flush_sink();
      }
    }
    catch (std::exception const& e)
    {
      threw = true;
      out << "NOTE write threw: " << e.what() << "\n";
    }
    std::ostringstream op;
    op << "w " << idn << " " << size << " " << ts << " " << offset_at(ts);
    auto v = list_dir();
    FileView cur_after;
    for (auto const& f : v) if (f.name == abase) cur_after = f;
    if (sinkk == 'J')
    {
      // the bytes the JSON sink wrote for this statement (the model keeps both sizes): growth of the current file, or its
      // whole size when the statement opened it
      uint64_t wire = size;
      if (!cur_after.ids.empty() && cur_after.ids.back() == idn)
        wire = cur_after.ids.size() == 1 ? cur_after.bytes : cur_after.bytes - cur_before.bytes;
      op << " wire=" << wire;
    }
    emit(op.str(), v);
    if (threw) return;
    bool const rotated = !cur_before.ids.empty() && cur_after.ids.size() == 1 && cur_after.ids[0] == idn;
    if (rotated) { cur_open_ts = ts; ++g_stats["rotations_observed"]; }
    if (cur_after.ids.size() >= 1 && cur_after.ids[0] == idn) open_ts_of_first[idn] = cur_open_ts;
    check_c14(v, rotated_before, true, idn, rotated, &before);
    if (!mixed) check_suffixes(v);
    // ---- C15: the schedule ----
    if (cfg.freq != 'N' && !nonmono && sinkk == 'F')
    {
      int64_t const start_s = static_cast<int64_t>(cfg.ts / NS);
      bool const stopped_excuse = (cfg.ow == false && count_family(before) >= cfg.maxb);
      // previous statement in the same file
      if (cur_after.ids.size() >= 2 && cur_after.ids.back() == idn)
      {
        uint64_t const a = cur_after.ids[cur_after.ids.size() - 2];
        Rec const& ra = recs[a];
        int64_t const ta = (ra.run == run) ? static_cast<int64_t>(ra.ts / NS) : -1;
        // a grid point p with ts_a < p <= ts_b   (points are whole seconds)
        int64_t const g = grid_after(start_s, ta < 0 ? start_s : ta);
        bool const a_before = (ra.run != run) || (ra.ts < static_cast<uint64_t>(g) * NS);
        if (g >= 0 && a_before && static_cast<uint64_t>(g) * NS <= ts && !stopped_excuse)
          oracle(off_min != off_max ? "dst-drift" : "time-merge",
                 "id=" + std::to_string(idn) + " ts=" + std::to_string(ts) + " shares the current file with id=" + std::to_string(a) +
                   " although the schedule has the point " + std::to_string(g) + "s between them");
      }
      if (rotated)
      {
        uint64_t const a = cur_before.ids.back();
        Rec const& ra = recs[a];
        int64_t const ta = (ra.run == run) ? static_cast<int64_t>(ra.ts / NS) : start_s;
        int64_t const from = std::max<int64_t>(ta, run_has_ts ? static_cast<int64_t>(run_max_ts / NS) : start_s);
        int64_t const g = grid_after(start_s, from);
        bool const time_reason = g >= 0 && static_cast<uint64_t>(g) * NS <= ts;
        bool const size_reason = cfg.limit != 0 && cur_before.bytes + size >= cfg.limit; // >=: whether exact fill rotates is C14's subject
        if (!time_reason && !size_reason)
          oracle(off_min != off_max ? "dst-drift" : "time-split",
                 "id=" + std::to_string(idn) + " ts=" + std::to_string(ts) + " started a new file although no point of the schedule lies after id=" +
                   std::to_string(a) + " (next point " + std::to_string(g) + "s) and the size limit was not reached");
      }
      // _next_rotation_time = first point of the schedule strictly after every record of this run
      uint64_t const m = run_has_ts ? std::max(run_max_ts, ts) : ts;
      int64_t const g = grid_after(start_s, static_cast<int64_t>(m / NS));
      if (g >= 0 && view().next != static_cast<uint64_t>(g) * NS)
        oracle(off_min != off_max ? "dst-drift" : "grid",
               "_next_rotation_time=" + std::to_string(view().next) + " but the first point of the schedule after the records so far is " +
                 std::to_string(g) + "s");
    }
    run_max_ts = run_has_ts ? std::max(run_max_ts, ts) : ts;
    run_has_ts = true;
  }

  void do_cfg(std::vector<std::string> const& w)
  {
    ++opno;
    Cfg q;
    std::string res = "ok";
    try
    {
      if (w[1] == "limit") q.set_rotation_max_file_size(std::stoull(w[2]));
      else if (w[1] == "freq")
      {
        q.set_rotation_frequency_and_interval(w[2][0], static_cast<uint32_t>(std::stoul(w[3])));
        res = q.rotation_frequency() == Cfg::RotationFrequency::Minutely ? "ok:M" : "ok:H";
      }
      else if (w[1] == "daily")
      {
        q.set_rotation_time_daily(w[2]);
        res = "ok:" + std::to_string(q.daily_rotation_time().first.count()) + ":" + std::to_string(q.daily_rotation_time().second.count());
      }
    }
    catch (std::exception const&) { res = "throw"; }
    std::string op;
    for (auto const& x : w) op += (op.empty() ? "" : " ") + x;
    out << op << " => " << res << "\n";
    ++g_stats["cfg_probe"];
  }

  void begin(std::string const& id_, char scheme_, std::string const& kind_, std::string const& tz_)
  {
    id = id_; scheme = scheme_; scheme0 = scheme_; kind = kind_; tz = tz_;
    set_base(bname);
    gmt = (tz == "UTC");
    if (gmt) unsetenv("TZ"); else setenv("TZ", tz.c_str(), 1);
    tzset();
    make_dir();
    ++g_stats["kind_" + kind];
    ++g_stats[std::string("scheme_") + scheme];
    ++g_stats["tz_" + tz];
  }
  void finish()
  {
    remove_dir();
    bool const dst = off_min != off_max;
    if (dst) ++g_stats["dst_cases"];
    std::cout << "case " << id << " " << scheme0 << " dst=" << (dst ? 1 : 0) << " " << kind << " tz=" << tz;
    if (bname != "log.log") std::cout << " base=" << bname;
    if (sinkk != 'F') std::cout << " sink=" << sinkk;
    if (base_class() == "numstem") std::cout << " oo=numstem"; // oracle only: the model's scan does not parse the current file
    if (fa != 'N') std::cout << " fa=" << fa;
    std::cout << "\n" << out.str();
  }
};

// ------------------------------------------------------------------------------------------------------------
// generators
// ------------------------------------------------------------------------------------------------------------
static uint64_t const DAY = 86400ull * NS;

static uint64_t gen_start_instant(Rng& rng, int hh, int mm)
{
  // 2023-01-01 .. 2024-12-31, various seconds of the day; sometimes right at the daily time or a minute/hour boundary
  uint64_t const day0 = 19358 + rng.below(730);
  uint64_t s;
  switch (rng.below(8))
  {
  case 0: s = static_cast<uint64_t>(hh) * 3600 + static_cast<uint64_t>(mm) * 60; break;           // exactly HH:MM:00
  case 1: s = (static_cast<uint64_t>(hh) * 3600 + static_cast<uint64_t>(mm) * 60 + 86399) % 86400; break; // one second before
  case 2: s = 22 * 3600 + 13 * 60; break;
  case 3: s = rng.below(24) * 3600; break;                                                         // on the hour
  case 4: s = 86399; break;
  default: s = rng.below(86400); break;
  }
  uint64_t ns = rng.chance(40) ? 0 : rng.below(NS);
  if (rng.chance(10)) ns = NS - 1;
  return (day0 * 86400 + s) * NS + ns;
}

static void plant_some(Case& c, Rng& rng, bool index_gaps)
{
  unsigned const n = static_cast<unsigned>(rng.below(4));
  for (unsigned i = 0; i < n; ++i)
  {
    unsigned const k = static_cast<unsigned>(rng.below(10));
    if (k < 6) c.do_plant('X', rng.below(12));
    else if (k < 8) c.do_plant('J', rng.below(3));
    else if (index_gaps && c.scheme == 'I') c.do_plant('F', 1 + rng.below(6));
    else c.do_plant('X', rng.below(12));
  }
}

static StartCfg gen_cfg(Rng& rng, bool want_size, bool want_time)
{
  StartCfg c;
  if (want_size)
  {
    uint64_t const limits[] = {512, 512, 513, 600, 777, 1024, 2000};
    c.limit = rng.pick(limits);
  }
  uint64_t const maxes[] = {0, 1, 1, 2, 2, 3, 4, 6, 4294967295ull};
  c.maxb = rng.pick(maxes);
  c.ow = rng.chance(65);
  c.mode = rng.chance(60) ? 'a' : 'w';
  c.clean = rng.chance(70);
  if (want_time)
  {
    switch (rng.below(3))
    {
    case 0:
      c.freq = 'D';
      c.hh = static_cast<int>(rng.below(24));
      c.mm = static_cast<int>(rng.below(60));
      if (rng.chance(30)) { c.hh = 2; c.mm = 0; }
      if (rng.chance(10)) { c.hh = 0; c.mm = 0; }
      break;
    case 1:
    {
      c.freq = 'H';
      uint32_t const ivs[] = {1, 1, 2, 3, 24, 25};
      c.iv = rng.pick(ivs);
      break;
    }
    default:
    {
      c.freq = 'M';
      uint32_t const ivs[] = {1, 1, 2, 5, 60, 90};
      c.iv = rng.pick(ivs);
      break;
    }
    }
  }
  return c;
}

static uint64_t gen_size(Case& c, Rng& rng)
{
  uint64_t const limit = c.cfg.limit;
  uint64_t const fsz = c.sink ? c.view().fsz : 0;
  if (limit == 0)
  {
    uint64_t const s[] = {1, 8, 40, 100};
    ++g_stats["size_nolimit"];
    return rng.pick(s);
  }
  uint64_t const room = limit > fsz ? limit - fsz : 0;
  switch (rng.below(10))
  {
  case 0: ++g_stats["size_room_minus1"]; return room > 1 ? room - 1 : 1;
  case 1: ++g_stats["size_room_exact"]; return room ? room : 1;
  case 2: ++g_stats["size_room_plus1"]; return room + 1;
  case 3: ++g_stats["size_limit_minus1"]; return limit - 1;
  case 4: ++g_stats["size_limit"]; return limit;
  case 5: ++g_stats["size_limit_plus1"]; return limit + 1;
  case 6: ++g_stats["size_huge"]; return limit * 2 + rng.below(50);
  case 7: ++g_stats["size_tiny"]; return 1;
  default: ++g_stats["size_mid"]; return 50 + rng.below(limit / 2);
  }
}

static uint64_t period_ns(StartCfg const& c)
{
  if (c.freq == 'D') return DAY;
  if (c.freq == 'H') return 3600ull * NS * c.iv;
  if (c.freq == 'M') return 60ull * NS * c.iv;
  return 0;
}

static uint64_t gen_ts_time(Case& c, Rng& rng, uint64_t last)
{
  // around _next_rotation_time, never going back
  uint64_t const n = c.view().next;
  uint64_t const p = period_ns(c.cfg);
  uint64_t t;
  switch (rng.below(12))
  {
  case 0: ++g_stats["ts_point_minus1ns"]; t = n - 1; break;
  case 1: ++g_stats["ts_point"]; t = n; break;
  case 2: ++g_stats["ts_point_plus1ns"]; t = n + 1; break;
  case 3: ++g_stats["ts_next_point_minus1ns"]; t = n + p - 1; break;
  case 4: ++g_stats["ts_next_point"]; t = n + p; break;
  case 5: ++g_stats["ts_gap_many_periods"]; t = n + p * (2 + rng.below(40)) + rng.below(p); break;
  case 6: ++g_stats["ts_gap_many_periods"]; t = n + p * (1 + rng.below(5)) + rng.below(p); break;
  case 7: ++g_stats["ts_half_period_before"]; t = n > p / 2 ? n - p / 2 : n; break;
  case 8: ++g_stats["ts_same"]; t = last; break;
  default: ++g_stats["ts_small_step"]; t = last + rng.below(p / 4 + 1); break;
  }
  return std::max(t, last);
}

static uint64_t gen_ts_size(Case& c, Rng& rng, uint64_t last, bool nonmono)
{
  uint64_t t;
  switch (rng.below(10))
  {
  case 0: ++g_stats["ts_same"]; t = last; break;
  case 1: ++g_stats["ts_plus1ns"]; t = last + 1; break;
  case 2: ++g_stats["ts_plus_subsecond"]; t = last + rng.below(NS); break;
  case 3: ++g_stats["ts_plus1s"]; t = last + NS; break;
  case 4: ++g_stats["ts_to_midnight"]; t = (last / DAY + 1) * DAY - (rng.chance(50) ? 1 : 0); break;
  case 5: ++g_stats["ts_plus_days"]; t = last + DAY * (1 + rng.below(3)) + rng.below(DAY); break;
  case 6: ++g_stats["ts_plus_hours"]; t = last + 3600ull * NS * (1 + rng.below(20)); break;
  default: ++g_stats["ts_plus_seconds"]; t = last + NS * rng.below(5) + rng.below(NS); break;
  }
  if (nonmono && rng.chance(35))
  {
    ++g_stats["ts_backwards"];
    uint64_t const back = rng.chance(50) ? DAY * (1 + rng.below(2)) : NS * (1 + rng.below(7200));
    t = last > back ? last - back : last;
  }
  return t;
}

static char const* const ZONES[] = {"Asia/Tokyo", "Asia/Kolkata", "America/New_York", "Europe/London", "Australia/Lord_Howe",
                                     "America/St_Johns", "Pacific/Auckland"};

// instants shortly before a DST change of the zone (2023/2024), so that daily schedules cross it
static uint64_t near_transition(Rng& rng)
{
  // search a change of offset between two consecutive days in 2023..2024 (TZ already set)
  for (int tries = 0; tries < 50; ++tries)
  {
    uint64_t const d = 19358 + rng.below(730);
    time_t a = static_cast<time_t>(d * 86400), b = static_cast<time_t>((d + 1) * 86400);
    tm ra, rb;
    localtime_r(&a, &ra);
    localtime_r(&b, &rb);
    if (ra.tm_gmtoff != rb.tm_gmtoff) return (d * 86400 - rng.below(2 * 86400)) * NS;
  }
  return 0;
}

// the spelling of the path for one (re)start: its own PRNG stream, so that the operations of a case do not depend on it
static int gen_spell(Rng& srng)
{
  if (srng.chance(22)) return 0;
  return 1 + static_cast<int>(srng.below(N_SPELL - 1));
}

// Directed restarts that CHANGE the configuration over a directory that already holds more rotated files than the new
// max_backup_files: phase 1 fills the directory (large or no backup limit), phase 2 restarts in append mode with a lowered
// limit and (mostly) overwrite_rolled_files off — "rotation stops and nothing is deleted" —, phase 3 flips the overwrite
// flag (the excess is deleted by the first rotation that takes place), phase 4 changes open mode / limit / backup count
// again; the random tail follows in gen_case.
static uint64_t gen_cfgchg_prefix(Case& c, Rng& rng, Rng& srng, StartCfg& cfg)
{
  uint64_t const limits[] = {512, 600, 777};
  cfg = StartCfg{};
  cfg.limit = rng.pick(limits);
  uint64_t const big[] = {4294967295ull, 4294967295ull, 6, 5};
  cfg.maxb = rng.pick(big);
  cfg.ow = rng.chance(50);
  cfg.mode = rng.chance(50) ? 'a' : 'w';
  cfg.clean = rng.chance(70);
  cfg.ts = (19358 + rng.below(730)) * 86400ull * NS + rng.below(3600) * NS; // early in the day: the case stays on one civil day
  cfg.spell = gen_spell(srng);
  c.do_start(cfg);
  uint64_t last = cfg.ts;
  unsigned const fill = 3 + static_cast<unsigned>(rng.below(3));
  auto burst = [&](unsigned n) {
    for (unsigned i = 0; i < n && c.sink; ++i)
    {
      uint64_t const size = rng.chance(70) ? cfg.limit / 2 + 10 + rng.below(cfg.limit / 3) : gen_size(c, rng);
      last += 1 + rng.below(5 * NS);
      c.do_write(size, last);
    }
  };
  burst(2 * fill + 1); // every second write rotates: `fill` rotated files
  // phase 2: lowered limit, overwrite mostly off
  cfg.mode = 'a';
  uint64_t const low[] = {0, 1, 1, 2, 2};
  cfg.maxb = rng.pick(low);
  cfg.ow = rng.chance(25);
  if (rng.chance(30)) cfg.limit = rng.pick(limits);
  last += rng.below(100 * NS);
  cfg.ts = last;
  cfg.spell = gen_spell(srng);
  c.do_start(cfg);
  burst(3 + static_cast<unsigned>(rng.below(3)));
  // phase 3: the overwrite flag flips
  cfg.ow = !cfg.ow;
  if (rng.chance(30)) cfg.maxb = rng.pick(low);
  last += rng.below(100 * NS);
  cfg.ts = last;
  cfg.spell = gen_spell(srng);
  c.do_start(cfg);
  burst(4 + static_cast<unsigned>(rng.below(3)));
  // phase 4: other open mode / backup count
  if (rng.chance(50))
  {
    cfg.mode = rng.chance(50) ? 'w' : 'a';
    cfg.clean = rng.chance(60);
    cfg.maxb = rng.chance(50) ? 3 : 0;
    cfg.ow = rng.chance(50);
    last += rng.below(100 * NS);
    cfg.ts = last;
    cfg.spell = gen_spell(srng);
    c.do_start(cfg);
    burst(3);
  }
  return last;
}

static char const* const BASES[] = {"noext", ".log", "trail.", "a.b.log", "log.tar.gz", "x.y1.log", "noext", "a.b.log"};

static void gen_case(Rng& rng, std::string const& id, unsigned nops, bool c15, uint64_t spell_seed, unsigned variant = 0)
{
  Case c;
  Rng srng(spell_seed);
  std::string kind;
  char scheme;
  std::string tz = "UTC";
  bool want_size, want_time, nonmono = false;
  {
    unsigned const s = static_cast<unsigned>(rng.below(100));
    scheme = c15 ? (s < 35 ? 'I' : s < 70 ? 'D' : 'T') : (s < 50 ? 'I' : s < 78 ? 'D' : 'T');
  }
  if (!c15)
  {
    want_size = true;
    want_time = false;
    kind = "size";
    if (scheme != 'I' && rng.chance(25)) { nonmono = true; kind = "size-nonmono"; }
    if (scheme != 'I' && rng.chance(20)) tz = ZONES[rng.below(2)];
    // variants (chosen by the case number, so that every quick run has them): configuration-changing restarts, other base
    // file names, the JSON sink, a filename append option, a naming-scheme change
    switch (variant)
    {
    case 1: kind = "size-cfgchg"; nonmono = false; tz = "UTC"; scheme = rng.chance(70) ? 'I' : 'D'; break;
    case 2: kind = "size-base"; nonmono = false; c.bname = BASES[rng.below(8)]; break;
    case 3: kind = "size-json"; nonmono = false; c.sinkk = 'J'; break;
    case 4: kind = "size-fa"; nonmono = false; { char const f[] = {'D', 'D', 'T', 'C'}; c.fa = rng.pick(f); } break;
    case 5: kind = "size-resch"; nonmono = false; break;
    // size limit AND a time schedule on one sink, statements at the rotation points ± 1 ns (the statement that triggers a
    // time rotation must be counted in the new file's size)
    case 6: kind = "size-time"; nonmono = false; want_time = true; tz = "UTC"; break;
    default: break;
    }
  }
  else
  {
    want_time = true;
    unsigned const k = static_cast<unsigned>(rng.below(100));
    want_size = k >= 55 && k < 75;
    kind = want_size ? "mixed" : "time";
    if (k >= 75) { tz = ZONES[rng.below(7)]; kind = "time-tz"; }
  }
  c.begin(id, scheme, kind, tz);
  plant_some(c, rng, true);
  StartCfg cfg = gen_cfg(rng, want_size, want_time);
  cfg.ts = gen_start_instant(rng, cfg.hh, cfg.mm);
  if (kind == "time-tz" && rng.chance(50))
  {
    uint64_t const t = near_transition(rng);
    if (t) cfg.ts = t + rng.below(NS);
  }
  if (rng.chance(50)) { cfg.mode = rng.chance(50) ? 'a' : 'w'; }
  cfg.spell = gen_spell(srng);
  uint64_t last;
  if (variant == 1) last = gen_cfgchg_prefix(c, rng, srng, cfg);
  else
  {
    c.do_start(cfg);
    last = cfg.ts;
  }
  for (unsigned i = variant == 1 ? nops / 2 : 0; i < nops && c.sink; ++i)
  {
    unsigned const r = static_cast<unsigned>(rng.below(100));
    if (r < 7)
    {
      // restart: usually the same limits, sometimes everything new
      StartCfg n = rng.chance(60) ? cfg : gen_cfg(rng, want_size, want_time);
      if (rng.chance(70)) n.mode = 'a';
      else n.mode = rng.chance(50) ? 'a' : 'w';
      if (rng.chance(30)) n.maxb = gen_cfg(rng, false, false).maxb;
      if (rng.chance(20)) n.ow = !n.ow;
      uint64_t st;
      switch (rng.below(5))
      {
      case 0: st = last; break;                               // same instant
      case 1: st = last + rng.below(NS); break;               // same second, mostly
      case 2: st = last + NS * (1 + rng.below(100)); break;
      case 3: st = last + DAY * (1 + rng.below(3)); break;    // a later day
      default: st = last + 3600ull * NS * rng.below(30); break;
      }
      if (nonmono && rng.chance(30)) st = last > DAY ? last - rng.below(DAY) : last;
      n.ts = st;
      n.spell = gen_spell(srng); // independently of the spelling of the earlier starts
      n.scheme = 0;
      if (variant == 5 && rng.chance(60)) { char const sc[] = {'I', 'D', 'T'}; n.scheme = rng.pick(sc); }
      cfg = n;
      c.do_start(cfg);
      last = std::max(last, st);
      if (nonmono) last = st;
    }
    else if (r < 10) c.do_plant(rng.chance(75) ? 'X' : 'J', rng.below(12) % (rng.chance(75) ? 12 : 3));
    else
    {
      uint64_t const size = gen_size(c, rng);
      uint64_t const ts = want_time ? gen_ts_time(c, rng, last) : gen_ts_size(c, rng, last, nonmono);
      c.do_write(size, ts);
      last = nonmono ? ts : std::max(last, ts);
    }
  }
  c.finish();
}

static void gen_cfg_probes(std::string const& id)
{
  Case c;
  c.begin(id, 'I', "cfg", "UTC");
  char const* const probes[] = {
    "cfg limit 0", "cfg limit 1", "cfg limit 511", "cfg limit 512", "cfg limit 513", "cfg limit 100000",
    "cfg freq M 1", "cfg freq m 7", "cfg freq H 1", "cfg freq h 25", "cfg freq M 0", "cfg freq H 0", "cfg freq D 1", "cfg freq x 3",
    "cfg daily 00:00", "cfg daily 23:59", "cfg daily 24:00", "cfg daily 12:60", "cfg daily 2:00", "cfg daily 02:0", "cfg daily 0200",
    "cfg daily 02:00:00", "cfg daily 02:00", "cfg daily 09:08"};
  for (auto const* p : probes) c.do_cfg(split_ws(p));
  c.finish();
}

static void print_tail()
{
  std::cout << "STATS";
  for (auto const& kv : g_stats) std::cout << " " << kv.first << "=" << kv.second;
  std::cout << " oracle_hits=" << g_oracle_hits << "\n";
}

int main(int argc, char** argv)
{
  std::ios::sync_with_stdio(false);
  if (argc >= 6 && std::string{argv[1]} == "gen")
  {
    uint64_t const seed = std::stoull(argv[2]);
    unsigned const cases = static_cast<unsigned>(std::stoul(argv[3]));
    unsigned const nops = static_cast<unsigned>(std::stoul(argv[4]));
    bool const c15 = std::string{argv[5]} == "C15";
    Rng rng(seed * 2 + (c15 ? 1 : 0));
    gen_cfg_probes("s" + std::to_string(seed) + "cfg");
    for (unsigned i = 0; i < cases; ++i)
    {
      // C14: of every 9 cases, 2 restart with changed configurations over a full directory, 1 uses another base name and
      // 1 is the JSON sink / a filename append option / a naming-scheme change in turn
      unsigned variant = 0;
      if (!c15)
      {
        if (i % 9 == 0) variant = 6;
        else if (i % 9 == 2 || i % 9 == 7) variant = 1;
        else if (i % 9 == 4) variant = 2;
        else if (i % 9 == 6) variant = 3 + (i / 9) % 3;
      }
      gen_case(rng, "s" + std::to_string(seed) + (c15 ? "t" : "z") + std::to_string(i), nops, c15,
               (seed * 1000003ull + i) * 2 + (c15 ? 1 : 0) + 0x5350454cull, variant);
    }
    print_tail();
    return g_oracle_hits ? 3 : 0;
  }
  if (argc >= 3 && std::string{argv[1]} == "replay")
  {
    std::ifstream in(argv[2]);
    std::string line;
    std::unique_ptr<Case> c;
    while (std::getline(in, line))
    {
      auto const arrow = line.find(" => ");
      if (arrow != std::string::npos) line = line.substr(0, arrow);
      auto w = split_ws(line);
      if (w.empty() || w[0][0] == '#' || w[0] == "ORACLE" || w[0] == "NOTE" || w[0] == "STATS") continue;
      if (w[0] == "case" && w.size() >= 5)
      {
        if (c) c->finish();
        c = std::make_unique<Case>();
        std::string tz = "UTC";
        if (w.size() >= 6 && w[5].compare(0, 3, "tz=") == 0) tz = w[5].substr(3);
        for (size_t k = 6; k < w.size(); ++k)
        {
          if (w[k].compare(0, 5, "base=") == 0) c->bname = w[k].substr(5);
          else if (w[k].compare(0, 5, "sink=") == 0) c->sinkk = w[k][5];
          else if (w[k].compare(0, 3, "fa=") == 0) c->fa = w[k][3];
        }
        c->begin(w[1], w[2][0], w[4], tz);
      }
      else if (!c) continue;
      else if (w[0] == "plant" && w.size() >= 3) c->do_plant(w[1][0], std::stoull(w[2]));
      else if (w[0] == "start" && w.size() >= 11)
      {
        StartCfg s;
        s.limit = std::stoull(w[1]); s.maxb = std::stoull(w[2]); s.ow = w[3] == "1"; s.mode = w[4][0]; s.clean = w[5] == "1";
        s.freq = w[6][0]; s.iv = static_cast<uint32_t>(std::stoul(w[7])); s.hh = std::stoi(w[8]); s.mm = std::stoi(w[9]);
        s.ts = std::stoull(w[10]);
        // w[11] = zone offset (recomputed; may be missing in hand-written files), then sp=<spelling> (absent in older
        // replay files: canonical)
        for (size_t k = 11; k < w.size(); ++k)
          if (w[k].compare(0, 3, "sp=") == 0)
          {
            int const v = std::atoi(w[k].c_str() + 3);
            s.spell = (v >= 0 && v < N_SPELL) ? v : 0;
          }
          else if (w[k].compare(0, 4, "sch=") == 0) s.scheme = w[k][4];
        c->do_start(s);
      }
      else if (w[0] == "w" && w.size() >= 4)
      {
        uint64_t const idn = std::stoull(w[1]);
        c->next_id = idn;
        c->do_write(std::stoull(w[2]), std::stoull(w[3]));
      }
      else if (w[0] == "cfg" && w.size() >= 3) c->do_cfg(w);
    }
    if (c) c->finish();
    print_tail();
    return g_oracle_hits ? 3 : 0;
  }
  std::cerr << "usage: h3_rot gen <seed> <cases> <ops> <C14|C15> | replay <file>\n";
  return 2;
}
