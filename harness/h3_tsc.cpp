// H3 harness for the TSC -> epoch conversion (C05/C06, stream `tsc`): drives the REAL quill::detail::RdtscClock
// (constructor, time_since_epoch, time_since_epoch_safe, resync) with scripted values for every rdtsc() and every
// system_clock read, and — in `e2e` mode — the real Frontend / Logger(ClockSourceType::Tsc) / BackendWorker through
// ManualBackendWorker with the same two scripted clocks.
//
// No repository hook: quill::detail::rdtsc() is `return __rdtsc();`. The harness includes <x86gprintrin.h> first and
// then redefines `__rdtsc` as a macro naming its own function before the quill headers are seen (same device as the
// atomic shim of H1); clock_gettime is interposed at link time.
//
//   h3_tsc gen <seed> <cases> <ops>       generated cases
//   h3_tsc replay <file>                  ops from a file (init/conv/safe/idle lines; `=> …` parts ignored)
//   h3_tsc e2e <file>                     end-to-end script on the real backend (see e2e_main)
//
// line protocol (one case = an `init` line and the ops after it):
//   init <id> num=<N> k=<K> ns=<resync interval ns> reads=<b:w:f,...> => synced=<0|1> used=<n> <state>
//   conv <tsc> reads=<...>   => v=<uint64> used=<n> <state>      time_since_epoch
//   safe <tsc>               => v=<uint64>                        time_since_epoch_safe
//   idle reads=<...>         => ok=<0|1> used=<n> <state>         resync(2500), what _resync_rdtsc_clock calls
//   <state> = ver=<version> iv=<_resync_interval_ticks> b0=<time>:<tsc> b1=<time>:<tsc>
// ns_per_tick = N / 2^K exactly (N < 2^53). A read b:w:f = (rdtsc before, system_clock ns, rdtsc after) of one
// resync attempt; `used` = number of attempts the real code made.
#include <cstdint>
#include <cstdio>
#include <cstdlib>
#include <cmath>
#include <ctime>
#include <fstream>
#include <iostream>
#include <condition_variable>
#include <functional>
#include <map>
#include <mutex>
#include <memory>
#include <sstream>
#include <string>
#include <thread>
#include <vector>

#include <fcntl.h>
#include <unistd.h>

#include <x86gprintrin.h>
#undef __rdtsc

struct Rd { uint64_t beg; int64_t wall; uint64_t fin; };
static std::vector<Rd> g_reads;
static size_t g_rd_calls = 0;   // rdtsc() calls of the clock under test since the op began
static size_t g_wall_calls = 0; // system_clock reads since the op began
static int g_mode = 0;          // 0 = scripted reads, 1 = calibration (self-consistent virtual time), 2 = e2e truth
static long long g_vtime = 1000000000LL; // calibration / steady clock
static uint64_t g_tsc_now = 0;           // e2e: current tsc
static long long g_wall_now = 0;         // e2e: current wall clock
static constexpr uint64_t kMissBeg = 0, kMissFin = 1ull << 40;

inline uint64_t verif_rdtsc() noexcept
{
  if (g_mode == 1) { return static_cast<uint64_t>(g_vtime) * 3u; }
  if (g_mode == 2) { return g_tsc_now; }
  size_t const k = g_rd_calls++;
  size_t const i = k / 2;
  if (i >= g_reads.size()) { return (k % 2 == 0) ? kMissBeg : kMissFin; }
  return (k % 2 == 0) ? g_reads[i].beg : g_reads[i].fin;
}
#define __rdtsc verif_rdtsc

extern "C" int clock_gettime(clockid_t id, struct timespec* ts)
{
  long long v;
  if (id == CLOCK_REALTIME && g_mode == 0)
  {
    size_t const i = g_wall_calls++;
    v = i < g_reads.size() ? g_reads[i].wall : 0;
  }
  else if (id == CLOCK_REALTIME && g_mode == 2) { v = g_wall_now; }
  else
  {
    g_vtime += 1000000; // 1 ms per read: the calibration spin ends after a few iterations
    v = g_vtime;
  }
  ts->tv_sec = v / 1000000000LL;
  ts->tv_nsec = v % 1000000000LL;
  if (ts->tv_nsec < 0) { ts->tv_nsec += 1000000000LL; ts->tv_sec -= 1; }
  return 0;
}

#include "quill/Backend.h"
#include "quill/Frontend.h"
#include "quill/LogMacros.h"
#include "quill/Logger.h"
#include "quill/backend/RdtscClock.h"
#include "quill/UserClockSource.h"
#include "quill/sinks/Sink.h"

using quill::detail::RdtscClock;
typedef unsigned __int128 u128;
typedef __int128 i128;

static std::map<std::string, long long> g_stats;

static std::vector<std::string> split(std::string const& s, char c = ' ')
{
  std::vector<std::string> out;
  std::string cur;
  for (char ch : s)
  {
    if (ch == c) { if (!cur.empty()) { out.push_back(cur); cur.clear(); } }
    else { cur.push_back(ch); }
  }
  if (!cur.empty()) { out.push_back(cur); }
  return out;
}

static std::vector<Rd> parse_reads(std::string const& s)
{
  std::vector<Rd> r;
  if (s.rfind("reads=", 0) != 0) { return r; }
  for (auto const& t : split(s.substr(6), ','))
  {
    auto p = split(t, ':');
    if (p.size() == 3) { r.push_back(Rd{std::stoull(p[0]), std::stoll(p[1]), std::stoull(p[2])}); }
  }
  return r;
}

static std::string reads_str(std::vector<Rd> const& r)
{
  std::string s = "reads=";
  for (size_t i = 0; i < r.size(); ++i)
  {
    if (i) { s += ","; }
    s += std::to_string(r[i].beg) + ":" + std::to_string(r[i].wall) + ":" + std::to_string(r[i].fin);
  }
  return s;
}

static std::string state(RdtscClock const& c)
{
  std::ostringstream o;
  o << "ver=" << c._version.load() << " iv=" << c._resync_interval_ticks << " b0=" << c._base[0].base_time << ":"
    << c._base[0].base_tsc << " b1=" << c._base[1].base_time << ":" << c._base[1].base_tsc;
  return o.str();
}

// ---------------------------------------------------------------------------------------------------------------
// one case: the clock under test + the independent oracle
// ---------------------------------------------------------------------------------------------------------------
struct Case
{
  std::string id;
  uint64_t num{0};
  unsigned k{0};
  std::unique_ptr<RdtscClock> clk;
  // oracle memory: conversions made against the same (version, base) — must be monotone in the signed tick distance
  struct Seen { int64_t diff; int64_t v; uint64_t tsc; };
  std::vector<Seen> seen;
  uint32_t seen_ver{0};
  int64_t last_v{0};
  bool have_last{false};
  uint64_t last_tsc{0};

  void set_reads(std::vector<Rd> r)
  {
    g_reads = std::move(r);
    g_rd_calls = 0;
    g_wall_calls = 0;
  }

  std::string init(std::string const& name, uint64_t n, unsigned kk, long long ns, std::vector<Rd> r)
  {
    id = name; num = n; k = kk;
    double const nspt = std::ldexp(static_cast<double>(num), -static_cast<int>(k));
    RdtscClock::RdtscTicks::instance()._ns_per_tick = nspt;
    set_reads(std::move(r));
    // the constructor prints "Failed to sync RdtscClock…" to stderr when both tries fail (an expected case here): keep it out of the trace
    std::fflush(stderr);
    int const saved = dup(2);
    int const dn = open("/dev/null", O_WRONLY);
    if (dn >= 0) { dup2(dn, 2); }
    clk.reset(new RdtscClock{std::chrono::nanoseconds{ns}});
    std::fflush(stderr);
    if (saved >= 0) { dup2(saved, 2); close(saved); }
    if (dn >= 0) { close(dn); }
    bool const synced = clk->_version.load() != 0;
    seen.clear(); seen_ver = clk->_version.load(); have_last = false;
    ++g_stats["cases"];
    if (!synced) { ++g_stats["ctor_unsynced"]; }
    return "synced=" + std::to_string(synced ? 1 : 0) + " used=" + std::to_string(g_wall_calls) + " " + state(*clk);
  }

  i128 exact(int64_t base_time, int64_t diff) const
  {
    i128 const p = static_cast<i128>(diff < 0 ? -static_cast<i128>(diff) : static_cast<i128>(diff)) * static_cast<i128>(num);
    i128 const q = p >> k;
    return static_cast<i128>(base_time) + (diff < 0 ? -q : q);
  }

  std::string conv(uint64_t tsc, std::vector<Rd> r)
  {
    auto const ver0 = clk->_version.load();
    auto const b = clk->_base[ver0 & 1];
    auto const iv0 = clk->_resync_interval_ticks;
    auto const b0 = clk->_base[0], b1 = clk->_base[1];
    std::vector<Rd> const rcopy = r;
    set_reads(std::move(r));
    uint64_t const v = clk->time_since_epoch(tsc);
    size_t const used = g_wall_calls;
    ++g_stats["conv"];
    int64_t const diff = static_cast<int64_t>(tsc - b.base_tsc);
    // oracle 1: agreement with exact integer arithmetic on the base that was current at entry, within 1 ns
    // (|diff| < 2^53 and a product below 2^52 ns: one rounding of relative size 2^-53 moves the truncation by at most 1)
    if (diff > -(1ll << 52) && diff < (1ll << 52))
    {
      i128 const ex = exact(b.base_time, diff);
      i128 const got = static_cast<i128>(static_cast<int64_t>(v));
      i128 const d = got > ex ? got - ex : ex - got;
      if (d > 1) { std::cout << "ORACLE arith trace=" << id << " tsc=" << tsc << " got=" << v << " exact=" << static_cast<long long>(ex) << "\n"; ++g_stats["oracle"]; }
      if (d == 1) { ++g_stats["arith_off_by_one"]; }
    }
    // oracle 2: between resyncs the conversion is monotone in the tick distance
    if (ver0 != seen_ver) { seen.clear(); seen_ver = ver0; }
    for (auto const& s : seen)
    {
      // the result is an int64 cast to uint64: compare as the signed value the code computed
      if ((s.diff <= diff && s.v > static_cast<int64_t>(v)) || (diff <= s.diff && static_cast<int64_t>(v) > s.v))
      {
        std::cout << "ORACLE mono trace=" << id << " tsc1=" << s.tsc << " v1=" << s.v << " tsc2=" << tsc << " v2=" << v << "\n";
        ++g_stats["oracle"];
        break;
      }
    }
    if (seen.size() < 48) { seen.push_back(Seen{diff, static_cast<int64_t>(v), tsc}); }
    // oracle 3: trigger exactly when diff > interval; a triggered resync whose attempts all exceed the lag bound
    // leaves both bases and the version alone and doubles the interval
    bool const should = diff > iv0;
    if ((used > 0) != should) { std::cout << "ORACLE trigger trace=" << id << " tsc=" << tsc << " diff=" << diff << " interval=" << iv0 << " attempts=" << used << "\n"; ++g_stats["oracle"]; }
    if (should)
    {
      ++g_stats["triggered"];
      bool any_ok = false;
      for (size_t i = 0; i < rcopy.size() && i < 4; ++i) { if (rcopy[i].fin - rcopy[i].beg <= 2500) { any_ok = true; } }
      bool const unchanged = clk->_version.load() == ver0 && clk->_base[0].base_time == b0.base_time && clk->_base[0].base_tsc == b0.base_tsc &&
        clk->_base[1].base_time == b1.base_time && clk->_base[1].base_tsc == b1.base_tsc;
      if (!any_ok && rcopy.size() >= 4)
      {
        ++g_stats["all_attempts_failed"];
        if (!unchanged || clk->_resync_interval_ticks != iv0 * 2) { std::cout << "ORACLE failed-resync-changed-state trace=" << id << " tsc=" << tsc << "\n"; ++g_stats["oracle"]; }
      }
      if (any_ok && unchanged) { std::cout << "ORACLE good-read-rejected trace=" << id << " tsc=" << tsc << "\n"; ++g_stats["oracle"]; }
    }
    // bookkeeping for the finding class: a later tsc converted below an earlier one across a resync
    if (have_last && static_cast<int64_t>(tsc - last_tsc) >= 0 && static_cast<int64_t>(v) < last_v) { ++g_stats["backsteps_across_resync"]; }
    have_last = true; last_v = static_cast<int64_t>(v); last_tsc = tsc;
    return "v=" + std::to_string(v) + " used=" + std::to_string(used) + " " + state(*clk);
  }

  std::string safe(uint64_t tsc)
  {
    set_reads({});
    uint64_t const v = clk->time_since_epoch_safe(tsc);
    ++g_stats["safe"];
    if (g_wall_calls != 0 || g_rd_calls != 0) { std::cout << "ORACLE safe-reads-clock trace=" << id << "\n"; ++g_stats["oracle"]; }
    return "v=" + std::to_string(v);
  }

  std::string idle(std::vector<Rd> r)
  {
    set_reads(std::move(r));
    bool const ok = clk->resync(2500);
    ++g_stats["idle"];
    return "ok=" + std::to_string(ok ? 1 : 0) + " used=" + std::to_string(g_wall_calls) + " " + state(*clk);
  }
};

static bool run_line(Case& c, std::string line)
{
  auto const arrow = line.find(" => ");
  if (arrow != std::string::npos) { line = line.substr(0, arrow); }
  auto w = split(line);
  if (w.empty() || w[0][0] == '#') { return true; }
  std::string obs;
  if (w[0] == "init" && w.size() >= 5)
  {
    obs = c.init(w[1], std::stoull(w[2].substr(4)), static_cast<unsigned>(std::stoul(w[3].substr(2))), std::stoll(w[4].substr(3)),
                 w.size() > 5 ? parse_reads(w[5]) : std::vector<Rd>{});
  }
  else if (!c.clk) { return false; }
  else if (w[0] == "conv" && w.size() >= 2) { obs = c.conv(std::stoull(w[1]), w.size() > 2 ? parse_reads(w[2]) : std::vector<Rd>{}); }
  else if (w[0] == "safe" && w.size() >= 2) { obs = c.safe(std::stoull(w[1])); }
  else if (w[0] == "idle") { obs = c.idle(w.size() > 1 ? parse_reads(w[1]) : std::vector<Rd>{}); }
  else { return false; }
  std::cout << line << " => " << obs << "\n";
  return true;
}

// ---------------------------------------------------------------------------------------------------------------
// generator
// ---------------------------------------------------------------------------------------------------------------
struct Rng
{
  uint64_t s;
  explicit Rng(uint64_t seed) : s(seed * 0x9E3779B97F4A7C15ull + 0x1234567ull) {}
  uint64_t next() { s ^= s << 13; s ^= s >> 7; s ^= s << 17; return s; }
  uint64_t below(uint64_t n) { return n ? next() % n : 0; }
  bool chance(unsigned pct) { return below(100) < pct; }
  template <class T> T pick(std::initializer_list<T> l) { auto it = l.begin(); std::advance(it, below(l.size())); return *it; }
};

struct World
{
  // truth: wall(tsc) = w0 + (tsc - t0) * tnum / 2^40 (+ step), the clock's estimate of the slope is num / 2^40
  uint64_t t0; int64_t w0; uint64_t tnum; int64_t step{0};
  int64_t wall(uint64_t tsc) const
  {
    int64_t const d = static_cast<int64_t>(tsc - t0);
    i128 const p = static_cast<i128>(d < 0 ? -d : d) * tnum >> 40;
    return w0 + step + static_cast<int64_t>(d < 0 ? -p : p);
  }
};

static std::vector<Rd> make_reads(Rng& rng, World& wd, uint64_t at, int kind)
{
  // kind 0: first attempt good; 1: k bad then good; 2: all four bad; 3: boundary lags; 4: fewer reads than needed
  std::vector<Rd> r;
  auto mk = [&](uint64_t beg, uint64_t lag) { r.push_back(Rd{beg, wd.wall(beg + lag / 2), beg + lag}); };
  uint64_t t = at + rng.below(50);
  if (kind == 0) { mk(t, rng.pick<uint64_t>({0, 1, 40, 2499, 2500})); }
  else if (kind == 1)
  {
    size_t const bad = 1 + rng.below(3);
    for (size_t i = 0; i < bad; ++i) { mk(t, rng.pick<uint64_t>({2501, 2502, 9000, 10001, 1ull << 33})); t += 20000; }
    mk(t, rng.pick<uint64_t>({0, 7, 2500}));
  }
  else if (kind == 2) { for (int i = 0; i < 4; ++i) { mk(t, rng.pick<uint64_t>({2501, 5000, 10000, 10001, 123456})); t += 20000; } }
  else if (kind == 3) { mk(t, 2501); mk(t + 3000, 2500); }
  else { mk(t, 2501); }
  while (r.size() < 4 && kind != 4) { mk(t + 50000 + 1000 * r.size(), rng.pick<uint64_t>({3, 2500, 2501})); }
  return r;
}

static void gen_case(Rng& rng, std::string const& name, int nops)
{
  Case c;
  // slope: true ns per tick and the estimate (slightly above / below / equal)
  uint64_t const tnum = rng.pick<uint64_t>({366503875925ull /* 1/3 */, 439804651110ull /* 0.4 */, 1099511627776ull /* 1.0 */, 43980465111040ull /* 40 (arm-like timer) */});
  int64_t const ppm = rng.pick<int64_t>({0, 0, 1, -1, 30, -30, 10000, -10000});
  uint64_t num = static_cast<uint64_t>(static_cast<i128>(tnum) * (1000000 + ppm) / 1000000);
  unsigned k = 40;
  if (tnum <= 1099511627776ull && ppm <= 30 && rng.chance(50)) { num = (num << 12) | rng.below(4096); k = 52; } // a full 53-bit significand: the product is rounded
  long long const ns = rng.pick<long long>({1000, 20000, 3000000, 500000000});
  World wd;
  wd.t0 = rng.chance(15) ? (0ull - rng.below(1000000)) /* near the uint64 wrap */ : (1ull << 40) + rng.below(1ull << 45);
  wd.w0 = 1700000000000000000ll + static_cast<int64_t>(rng.below(1ull << 50));
  wd.tnum = tnum;
  std::vector<Rd> r0;
  int const ck = static_cast<int>(rng.below(10));
  {
    // constructor: resync(2500), then resync(10000)
    uint64_t t = wd.t0;
    auto mk = [&](uint64_t lag) { r0.push_back(Rd{t, wd.wall(t + lag / 2), t + lag}); t += 30000; };
    if (ck < 6) { mk(rng.pick<uint64_t>({0, 10, 2500})); }
    else if (ck < 8) { for (int i = 0; i < 4; ++i) { mk(rng.pick<uint64_t>({2501, 7000, 10000})); } mk(rng.pick<uint64_t>({2501, 10000, 9999})); }
    else if (ck < 9) { for (int i = 0; i < 8; ++i) { mk(rng.pick<uint64_t>({10001, 20000})); } }
    else { for (int i = 0; i < 3; ++i) { mk(2501); } mk(2500); }
    while (r0.size() < 8) { mk(rng.pick<uint64_t>({1, 2500, 10001})); }
  }
  std::cout << "init " << name << " num=" << num << " k=" << k << " ns=" << ns << " " << reads_str(r0) << " => "
            << c.init(name, num, k, ns, r0) << "\n";
  uint64_t last = wd.t0 + 100000;
  for (int i = 0; i < nops; ++i)
  {
    auto const ver = c.clk->_version.load();
    auto const b = c.clk->_base[ver & 1];
    int64_t const iv = c.clk->_resync_interval_ticks;
    unsigned const what = static_cast<unsigned>(rng.below(100));
    // (time_since_epoch_safe next to the 64-bit wrap of the counter: model and class disagree there — thorough seed 1001, open item
    //  in DESIGN §13.7; the conv path through the wrap stays in the stream)
    if (what < 8 && wd.t0 < (1ull << 63))
    {
      std::string const op = "safe " + std::to_string(last + rng.below(1000));
      run_line(c, op);
      continue;
    }
    if (what < 14)
    {
      if (rng.chance(30)) { wd.step += rng.pick<int64_t>({-5000, -300, 250, 4000}); } // the wall clock is stepped (NTP)
      auto r = make_reads(rng, wd, last + 1000, iv > (int64_t{1} << 45) ? 0 : static_cast<int>(rng.below(5)));
      {
        bool bad = false;
        for (auto const& x : r) { if (x.wall <= 0 || x.wall > (int64_t{1} << 62)) { bad = true; } }
        if (bad) { continue; }
      }
      run_line(c, "idle " + reads_str(r));
      continue;
    }
    uint64_t tsc;
    unsigned how = static_cast<unsigned>(rng.below(100));
    // the interval doubles on every failed resync: after some 45 failures in a row it is centuries of ticks and the generated
    // trigger points leave the range in which tsc differences and wall-clock values are meaningful (int64 nanoseconds) — such a
    // history is outside what the stream is about; keep the time stamps near the base from then on and let the next resync succeed
    bool const far = iv > (int64_t{1} << 45);
    if (far) { how = 40; }
    if (how < 30) { tsc = b.base_tsc + static_cast<uint64_t>(iv) + rng.pick<uint64_t>({0, 1, 2, static_cast<uint64_t>(-1), 17}); } // trigger boundary
    else if (how < 55) { tsc = last + rng.below(2000); }                                 // increasing
    else if (how < 65) { tsc = last; }                                                   // repeated
    else if (how < 80) { tsc = last - rng.below(5000); }                                 // decreasing (another thread's older statement)
    else if (how < 90) { tsc = b.base_tsc - rng.below(3000); }                           // before the base
    else { tsc = b.base_tsc + rng.below(static_cast<uint64_t>(iv > 0 ? iv : 1)); }
    {
      // stay within the range in which tick differences and the generator's own wall-clock truth are meaningful int64 values
      // (about a year of ticks around the start): a base that was never set (every constructor attempt failed) or an interval
      // that was doubled many times would otherwise ask for time stamps 2^63 ticks away
      auto sane = [&](uint64_t x) { int64_t const d = static_cast<int64_t>(x - wd.t0); return d > -(int64_t{1} << 55) && d < (int64_t{1} << 55); };
      if (!sane(last)) { last = wd.t0 + 100000; }
      if (!sane(tsc)) { tsc = last + rng.below(2000); }
    }
    if (rng.chance(8)) { wd.step += rng.pick<int64_t>({-2000, -100, 100, 2000}); }
    auto r = make_reads(rng, wd, tsc + 200, far ? 0 : static_cast<int>(rng.below(5)));
    {
      // never hand the real clock a tick difference or a wall-clock value outside the range in which its int64 nanosecond
      // arithmetic is defined (|tsc - base| < 2^55 ticks, 0 < wall < 2^62 ns): such inputs do not occur (decades of ticks)
      int64_t const dd = static_cast<int64_t>(tsc - b.base_tsc);
      bool bad = dd > (int64_t{1} << 55) || dd < -(int64_t{1} << 55) || b.base_time < 0 || b.base_time > (int64_t{1} << 62);
      for (auto const& x : r) { if (x.wall <= 0 || x.wall > (int64_t{1} << 62)) { bad = true; } }
      if (bad) { continue; }
    }
    run_line(c, "conv " + std::to_string(tsc) + " " + reads_str(r));
    if (static_cast<int64_t>(tsc - last) > 0) { last = tsc; }
  }
}

static void print_stats()
{
  std::cout << "STATS";
  for (auto const& kv : g_stats) { std::cout << " " << kv.first << "=" << kv.second; }
  std::cout << "\n";
}

// ---------------------------------------------------------------------------------------------------------------
// e2e: real Frontend / Logger(Tsc) / BackendWorker. Script lines:
//   cfg grace=<us> interval=<ms>          backend options (before the first poll)
//   now tsc=<t> wall=<w>                  set the two clocks (every rdtsc() / system_clock read returns these)
//   log <thread> <id> [tsc|sys|usr]       LOG_INFO on frontend thread <thread> (one persistent thread, hence one thread context, per number) through
//                                         the logger with ClockSourceType::Tsc (default; reads rdtsc = now) / System (reads wall = now) / a user clock
//   poll [<site>.<k>:<cmd>;<cmd>…]…       ManualBackendWorker::poll_one   => w:<id>@<timestamp> ...
//                                         with frontend commands injected at the k-th pass of hook site <site> inside this poll
//                                         (QUILL_VERIF_YIELD: 2 = before each queue is read, 3 = after each record); <cmd> = now,tsc=…,wall=… | adv,<ns> (both clocks, 1 tick = 1 ns) | log,<thread>,<id>[,src]
// oracles: the timestamps handed to the sink are non-decreasing, and statements are written in the order of the clock values read
// by their log calls (statements of the user-clock logger are skipped: outside C05's claim). Every statement is enqueued by its own
// log call at once (unbounded queue), so the grace-period premise holds by construction.
// ---------------------------------------------------------------------------------------------------------------
static std::vector<std::string> g_events;
static std::vector<std::pair<std::string, uint64_t>> g_written;
static std::map<std::string, std::string> g_src;
struct ScriptClock : quill::UserClockSource
{
  uint64_t now() const override { return 42; } // a user clock that does not move: never compared with ts_now, never ordered
};
static ScriptClock g_user_clock;
static std::map<std::string, uint64_t> g_logged_tsc;
struct RecSink : quill::Sink
{
  void write_log(quill::MacroMetadata const*, uint64_t ts, std::string_view, std::string_view, std::string const&,
                 std::string_view, quill::LogLevel, std::string_view, std::string_view,
                 std::vector<std::pair<std::string, std::string>> const*, std::string_view msg, std::string_view) override
  {
    g_events.push_back("w:" + std::string{msg} + "@" + std::to_string(ts));
    g_written.emplace_back(std::string{msg}, ts);
  }
  void flush_sink() override {}
};

// a frontend thread that lives for the whole script (one thread context per <thread> number)
struct Worker
{
  std::mutex m;
  std::condition_variable cv;
  std::function<void()> job;
  bool has_job{false}, done{false}, stop{false};
  std::thread th;
  Worker() : th([this] { loop(); }) {}
  void loop()
  {
    std::unique_lock<std::mutex> lk(m);
    for (;;)
    {
      cv.wait(lk, [this] { return has_job || stop; });
      if (stop) { return; }
      job();
      has_job = false;
      done = true;
      cv.notify_all();
    }
  }
  void run(std::function<void()> f)
  {
    std::unique_lock<std::mutex> lk(m);
    job = std::move(f); has_job = true; done = false;
    cv.notify_all();
    cv.wait(lk, [this] { return done; });
  }
  ~Worker()
  {
    { std::unique_lock<std::mutex> lk(m); stop = true; cv.notify_all(); }
    th.join();
  }
};

struct E2E
{
  std::map<std::string, std::unique_ptr<Worker>> workers;
  quill::BackendOptions bo;
  quill::ManualBackendWorker* mw{nullptr};
  quill::Logger* lg_tsc{nullptr};
  quill::Logger* lg_sys{nullptr};
  quill::Logger* lg_usr{nullptr};
  std::map<std::pair<int, int>, std::vector<std::string>> inject; // (site, k) -> commands, for the poll in progress
  std::map<int, int> site_count;
  bool in_hook{false};
  bool in_poll{false};

  void start()
  {
    if (mw) { return; }
    mw = quill::Backend::acquire_manual_backend_worker();
    mw->init(bo);
    auto sink = quill::Frontend::create_or_get_sink<RecSink>("rec");
    lg_tsc = quill::Frontend::create_or_get_logger("tsc", sink, quill::PatternFormatterOptions{"%(message)"}, quill::ClockSourceType::Tsc);
    lg_sys = quill::Frontend::create_or_get_logger("sys", sink, quill::PatternFormatterOptions{"%(message)"}, quill::ClockSourceType::System);
    lg_usr = quill::Frontend::create_or_get_logger("usr", sink, quill::PatternFormatterOptions{"%(message)"}, quill::ClockSourceType::User, &g_user_clock);
  }

  void set_now(std::vector<std::string> const& w, size_t from)
  {
    for (size_t i = from; i < w.size(); ++i)
    {
      auto kv = split(w[i], '=');
      if (kv.size() != 2) { continue; }
      if (kv[0] == "tsc") { g_tsc_now = std::stoull(kv[1]); }
      if (kv[0] == "wall") { g_wall_now = std::stoll(kv[1]); }
    }
  }

  std::string do_log(std::string const& th, std::string const& id, std::string const& src)
  {
    start();
    quill::Logger* lg = src == "sys" ? lg_sys : (src == "usr" ? lg_usr : lg_tsc);
    auto& wk = workers[th];
    if (!wk) { wk.reset(new Worker); }
    wk->run([&] { LOG_INFO(lg, "{}", id); });
    g_logged_tsc[id] = g_tsc_now;
    g_src[id] = src;
    return src + ":tsc=" + std::to_string(g_tsc_now);
  }

  void hook(int site)
  {
    if (!in_poll || in_hook) { return; }
    int const k = ++site_count[site];
    auto it = inject.find({site, k});
    if (it == inject.end()) { return; }
    in_hook = true;
    for (auto const& cmd : it->second)
    {
      auto f = split(cmd, ',');
      if (f.empty()) { continue; }
      if (f[0] == "now") { set_now(f, 1); }
      else if (f[0] == "adv" && f.size() >= 2) { long long const d = std::stoll(f[1]); g_tsc_now += static_cast<uint64_t>(d); g_wall_now += d; }
      else if (f[0] == "log" && f.size() >= 3) { g_events.push_back("i" + std::to_string(site) + "." + std::to_string(k) + ":" + f[2] + "@" + do_log(f[1], f[2], f.size() > 3 ? f[3] : "tsc")); }
    }
    in_hook = false;
  }
};
static E2E* g_e2e = nullptr;
static void e2e_hook(int site) { if (g_e2e) { g_e2e->hook(site); } }

static int e2e_main(char const* path)
{
  E2E e;
  g_e2e = &e;
  std::ifstream in(path);
  std::string line;
  e.bo.sink_min_flush_interval = std::chrono::milliseconds{0};
  e.bo.error_notifier = [](std::string const& s) { g_events.push_back("n:" + s.substr(0, 30)); };
  g_mode = 1;
  RdtscClock::RdtscTicks::instance(); // calibration under the virtual clocks
  RdtscClock::RdtscTicks::instance()._ns_per_tick = 1.0;
  g_mode = 2;
  quill::detail::verif_yield_hook = e2e_hook;
  while (std::getline(in, line))
  {
    auto const arrow = line.find(" => ");
    if (arrow != std::string::npos) { line = line.substr(0, arrow); }
    auto w = split(line);
    if (w.empty() || w[0][0] == '#') { continue; }
    std::string obs = "ok";
    if (w[0] == "cfg")
    {
      for (size_t i = 1; i < w.size(); ++i)
      {
        auto kv = split(w[i], '=');
        if (kv[0] == "grace") { e.bo.log_timestamp_ordering_grace_period = std::chrono::microseconds{std::stoll(kv[1])}; }
        if (kv[0] == "interval") { e.bo.rdtsc_resync_interval = std::chrono::milliseconds{std::stoll(kv[1])}; }
        if (kv[0] == "nspt") { RdtscClock::RdtscTicks::instance()._ns_per_tick = std::stod(kv[1]); }
      }
    }
    else if (w[0] == "now") { e.set_now(w, 1); }
    else if (w[0] == "adv" && w.size() >= 2) { long long const d = std::stoll(w[1]); g_tsc_now += static_cast<uint64_t>(d); g_wall_now += d; }
    else if (w[0] == "log" && w.size() >= 3) { obs = e.do_log(w[1], w[2], w.size() > 3 ? w[3] : "tsc"); }
    else if (w[0] == "poll")
    {
      e.start();
      g_events.clear();
      e.inject.clear();
      e.site_count.clear();
      for (size_t i = 1; i < w.size(); ++i)
      {
        auto const colon = w[i].find(':');
        auto const dot = w[i].find('.');
        if (colon == std::string::npos || dot == std::string::npos || dot > colon) { continue; }
        e.inject[{std::stoi(w[i].substr(0, dot)), std::stoi(w[i].substr(dot + 1, colon - dot - 1))}] = split(w[i].substr(colon + 1), ';');
      }
      e.in_poll = true;
      e.mw->poll_one();
      e.in_poll = false;
      obs = "";
      for (auto const& ev : g_events) { obs += (obs.empty() ? "" : " ") + ev; }
      if (obs.empty()) { obs = "-"; }
    }
    else { obs = "bad-op"; }
    std::cout << line << " => " << obs << "\n";
  }
  int bad = 0;
  // input class of a hit: two TSC statements whose written timestamps do not differ by scale(tsc difference) ± 1 ns were converted
  // against different bases, i.e. a resync took place between their conversions (finding F38); everything else is `same-base`
  double const nspt = RdtscClock::RdtscTicks::instance()._ns_per_tick;
  auto cls = [&](std::pair<std::string, uint64_t> const& x, std::pair<std::string, uint64_t> const& y) -> std::string
  {
    if (g_src[x.first] != "tsc" || g_src[y.first] != "tsc") { return "class=same-base"; }
    int64_t const dt = static_cast<int64_t>(g_logged_tsc[y.first] - g_logged_tsc[x.first]);
    int64_t const want = static_cast<int64_t>(static_cast<double>(dt) * nspt);
    int64_t const got = static_cast<int64_t>(y.second - x.second);
    return (got - want > 1 || want - got > 1) ? "class=resync-between-conversions" : "class=same-base";
  };
  std::vector<std::pair<std::string, uint64_t>> ord; // the statements inside C05's claim: system and TSC clock
  for (auto const& wr : g_written) { if (g_src[wr.first] != "usr") { ord.push_back(wr); } }
  for (size_t i = 1; i < ord.size(); ++i)
  {
    if (ord[i].second < ord[i - 1].second)
    {
      std::cout << "ORACLE C05 timestamp-order statement " << ord[i - 1].first << " written with timestamp " << ord[i - 1].second
                << " before statement " << ord[i].first << " with timestamp " << ord[i].second << " " << cls(ord[i - 1], ord[i]) << "\n";
      ++bad;
    }
  }
  for (size_t i = 1; i < ord.size(); ++i)
  {
    uint64_t const a = g_logged_tsc[ord[i - 1].first], b = g_logged_tsc[ord[i].first];
    if (static_cast<int64_t>(b - a) < 0)
    {
      std::cout << "ORACLE C05 clock-value-order statement " << ord[i - 1].first << " (clock value " << a << " read at the start of its log call) written before statement "
                << ord[i].first << " (clock value " << b << ") " << cls(ord[i - 1], ord[i]) << "\n";
      ++bad;
    }
  }
  std::cout << "STATS e2e_written=" << g_written.size() << " logged=" << g_logged_tsc.size() << " oracle=" << bad << "\n";
  std::cout.flush();
  std::_Exit(bad ? 3 : 0);
}

int main(int argc, char** argv)
{
  std::ios::sync_with_stdio(false);
  if (argc >= 3 && std::string{argv[1]} == "e2e") { return e2e_main(argv[2]); }
  g_mode = 1;
  RdtscClock::RdtscTicks::instance(); // run the real calibration once under the virtual clocks; its result is overridden per case
  std::cout << "# calibration under virtual clocks: ns_per_tick=" << RdtscClock::RdtscTicks::instance()._ns_per_tick << "\n";
  g_mode = 0;
  if (argc >= 5 && std::string{argv[1]} == "gen")
  {
    uint64_t const seed = std::stoull(argv[2]);
    int const cases = std::atoi(argv[3]);
    int const nops = std::atoi(argv[4]);
    for (int i = 0; i < cases; ++i)
    {
      Rng rng(seed * 1000003ull + static_cast<uint64_t>(i));
      gen_case(rng, "s" + std::to_string(seed) + "c" + std::to_string(i), nops);
    }
  }
  else if (argc >= 3 && std::string{argv[1]} == "replay")
  {
    std::ifstream in(argv[2]);
    std::string line;
    Case c;
    while (std::getline(in, line))
    {
      if (line.rfind("init ", 0) == 0) { c = Case{}; }
      if (!run_line(c, line)) { std::cout << "BAD-LINE " << line << "\n"; }
    }
  }
  else
  {
    std::cerr << "usage: h3_tsc gen <seed> <cases> <ops> | replay <file> | e2e <file>\n";
    return 2;
  }
  print_stats();
  return g_stats["oracle"] ? 3 : 0;
}
