// H3 — named placeholders and JSON lines (C19) on the real code.
//
//   h3_named scan <seed> <tier 0|1>        the real scanner functions (MacroMetadata::_contains_named_args,
//                                          BackendWorker::_process_named_args_format_message) on generated templates
//   h3_named e2e <seed> <trials> <scratch-dir>   the real backend single-threaded (ManualBackendWorker) with a
//                                          recording sink and the real JsonFileSink, 69 compile-time call sites
//                                          (41 LOG_ templates, LOGJ_ with every argument count 0..26, one qualified name)
//   h3_named faults <seed> <cases> <scratch-dir> a JsonFileSink subclass whose generate_json_message override throws after
//                                          all / part of the record was appended, or whose before_write hook throws, on
//                                          chosen statements: sequences of 4-8 statements with 0-3 faults (C10/C19:
//                                          "a throwing JSON sink leaves nothing behind")
//   h3_named replay <file> <scratch-dir>   lines "scan <hexT> [pieces]" and/or an e2e trace (e2e-init / san /
//                                          cache-clear / log <idx> <args> / cache-dump / jf-begin / jlog <idx> <args>
//                                          <ok|gen:<k>|write> / jf-end)
//
// Output: "op => observation" lines for the Lean driver `named`, "ORACLE …" lines whenever the property itself fails
// on the real code (reference = grammar structure of the generated template, fmtquill::format with positional
// arguments, per-argument formatting with its own spec), and a final "STATS …" line.
#include <algorithm>
#include <cstdint>
#include <cstdio>
#include <cstdlib>
#include <cstring>
#include <fstream>
#include <iostream>
#include <map>
#include <memory>
#include <optional>
#include <set>
#include <sstream>
#include <string>
#include <string_view>
#include <vector>
#include <unistd.h>

#include "quill/Backend.h"
#include "quill/Frontend.h"
#include "quill/LogMacros.h"
#include "quill/Logger.h"
#include "quill/UserClockSource.h"
#include "quill/sinks/JsonSink.h"
#include "quill/sinks/Sink.h"
#include "quill/bundled/fmt/args.h"

using namespace quill;

// ------------------------------------------------------------------------------------------------ helpers
static std::map<std::string, uint64_t> g_stats;
static uint64_t g_oracle = 0;

static std::string hex(std::string_view s)
{
  static char const* d = "0123456789abcdef";
  std::string o;
  o.reserve(s.size() * 2);
  for (unsigned char c : s)
  {
    o.push_back(d[c >> 4]);
    o.push_back(d[c & 15]);
  }
  return o;
}
static std::string hex_or_dash(std::string_view s) { return s.empty() ? std::string{"-"} : hex(s); }
static std::string unhex(std::string const& h)
{
  std::string o;
  if (h == "-") { return o; }
  auto v = [](char c) { return c <= '9' ? c - '0' : (c | 32) - 'a' + 10; };
  for (size_t i = 0; i + 1 < h.size(); i += 2) { o.push_back(static_cast<char>(v(h[i]) * 16 + v(h[i + 1]))); }
  return o;
}
static std::vector<std::string> split_on(std::string const& s, char c)
{
  std::vector<std::string> o;
  std::string cur;
  for (char ch : s)
  {
    if (ch == c)
    {
      o.push_back(cur);
      cur.clear();
    }
    else { cur.push_back(ch); }
  }
  o.push_back(cur);
  return o;
}
static std::vector<std::string> split_ws(std::string const& s)
{
  std::vector<std::string> o;
  std::istringstream is(s);
  std::string w;
  while (is >> w) { o.push_back(w); }
  return o;
}

struct Rng
{
  uint64_t s;
  explicit Rng(uint64_t seed) : s(seed * 0x9E3779B97F4A7C15ull + 0xC19C19ull) {}
  uint64_t next()
  {
    uint64_t z = (s += 0x9E3779B97F4A7C15ull);
    z = (z ^ (z >> 30)) * 0xBF58476D1CE4E5B9ull;
    z = (z ^ (z >> 27)) * 0x94D049BB133111EBull;
    return z ^ (z >> 31);
  }
  uint64_t below(uint64_t n) { return n ? next() % n : 0; }
  bool chance(unsigned pct) { return below(100) < pct; }
};

// ------------------------------------------------------------------------------------------------ grammar
struct Piece
{
  char kind; // 'T' text, 'O' {{, 'C' }}, 'F' field
  char c{0};
  std::string name;
  bool has_spec{false};
  std::string spec;
};
static Piece T(char c) { return Piece{'T', c, {}, false, {}}; }
static Piece O() { return Piece{'O', 0, {}, false, {}}; }
static Piece C() { return Piece{'C', 0, {}, false, {}}; }
static Piece F(std::string n) { return Piece{'F', 0, std::move(n), false, {}}; }
static Piece F(std::string n, std::string s) { return Piece{'F', 0, std::move(n), true, std::move(s)}; }

static std::string render(std::vector<Piece> const& ps, bool erase = false)
{
  std::string o;
  for (auto const& p : ps)
  {
    switch (p.kind)
    {
    case 'T': o.push_back(p.c); break;
    case 'O': o += "{{"; break;
    case 'C': o += "}}"; break;
    default:
      o.push_back('{');
      if (!erase) { o += p.name; }
      if (p.has_spec)
      {
        o.push_back(':');
        o += p.spec;
      }
      o.push_back('}');
    }
  }
  return o;
}
static std::string enc_pieces(std::vector<Piece> const& ps)
{
  if (ps.empty()) { return "-"; }
  std::string o;
  for (size_t i = 0; i < ps.size(); ++i)
  {
    if (i) { o.push_back(','); }
    auto const& p = ps[i];
    switch (p.kind)
    {
    case 'T': o += "T" + hex(std::string(1, p.c)); break;
    case 'O': o += "O"; break;
    case 'C': o += "C"; break;
    default:
      o += "F" + hex(p.name);
      if (p.has_spec) { o += ":" + hex(p.spec); }
    }
  }
  return o;
}
static std::optional<std::vector<Piece>> dec_pieces(std::string const& s)
{
  std::vector<Piece> ps;
  if (s == "-") { return ps; }
  for (auto const& w : split_on(s, ','))
  {
    if (w.empty()) { return std::nullopt; }
    if (w == "O") { ps.push_back(O()); }
    else if (w == "C") { ps.push_back(C()); }
    else if (w[0] == 'T')
    {
      auto b = unhex(w.substr(1));
      if (b.size() != 1) { return std::nullopt; }
      ps.push_back(T(b[0]));
    }
    else if (w[0] == 'F')
    {
      auto col = w.find(':');
      if (col == std::string::npos) { ps.push_back(F(unhex(w.substr(1)))); }
      else { ps.push_back(F(unhex(w.substr(1, col - 1)), unhex(w.substr(col + 1)))); }
    }
    else { return std::nullopt; }
  }
  return ps;
}
static bool is_alpha(char c) { return (c >= 'a' && c <= 'z') || (c >= 'A' && c <= 'Z'); }
static bool ident_char(char c) { return is_alpha(c) || (c >= '0' && c <= '9') || c == '_'; }

/** reference parser of the grammar (left to right, the way fmt reads a format string); nullopt = not in the grammar */
static std::optional<std::vector<Piece>> ref_parse(std::string const& t)
{
  std::vector<Piece> ps;
  size_t i = 0;
  while (i < t.size())
  {
    char c = t[i];
    if (c == '{')
    {
      if (i + 1 < t.size() && t[i + 1] == '{')
      {
        ps.push_back(O());
        i += 2;
        continue;
      }
      size_t j = i + 1;
      while (j < t.size() && t[j] != '}' && t[j] != '{') { ++j; }
      if (j >= t.size() || t[j] != '}') { return std::nullopt; }
      std::string inside = t.substr(i + 1, j - i - 1);
      auto col = inside.find(':');
      std::string name = col == std::string::npos ? inside : inside.substr(0, col);
      if (!name.empty())
      {
        if (!is_alpha(name[0])) { return std::nullopt; }
        for (char nc : name)
        {
          if (!ident_char(nc)) { return std::nullopt; }
        }
      }
      if (col == std::string::npos) { ps.push_back(F(name)); }
      else { ps.push_back(F(name, inside.substr(col + 1))); }
      i = j + 1;
    }
    else if (c == '}')
    {
      if (i + 1 < t.size() && t[i + 1] == '}')
      {
        ps.push_back(C());
        i += 2;
        continue;
      }
      return std::nullopt;
    }
    else
    {
      ps.push_back(T(c));
      ++i;
    }
  }
  return ps;
}

using Keys = std::vector<std::pair<std::string, std::string>>;
static std::string enc_keys(Keys const& ks)
{
  if (ks.empty()) { return "-"; }
  std::string o;
  for (size_t i = 0; i < ks.size(); ++i)
  {
    if (i) { o.push_back(','); }
    o += hex(ks[i].first) + "/" + hex(ks[i].second);
  }
  return o;
}
static Keys ref_keys(std::vector<Piece> const& ps)
{
  Keys k;
  for (auto const& p : ps)
  {
    if (p.kind == 'F') { k.emplace_back(p.name, p.has_spec ? ":" + p.spec : std::string{}); }
  }
  return k;
}
static bool ref_named(std::vector<Piece> const& ps)
{
  for (auto const& p : ps)
  {
    if (p.kind == 'F' && !p.name.empty()) { return true; }
  }
  return false;
}

// ------------------------------------------------------------------------------------------------ scan stream
static void scan_one(std::string const& t, std::vector<Piece> const* ps)
{
  bool const flag = MacroMetadata::_contains_named_args(std::string_view{t});
  auto const res = detail::BackendWorker::_process_named_args_format_message(std::string_view{t});
  std::string const pe = ps ? enc_pieces(*ps) : std::string{"-"};
  std::cout << "scan " << hex_or_dash(t) << ' ' << pe << " => " << (flag ? 1 : 0) << ' ' << hex_or_dash(res.first)
            << ' ' << enc_keys(res.second) << '\n';
  ++g_stats["scan_lines"];
  if (flag) { ++g_stats["scan_flag_true"]; }
  if (!res.second.empty()) { ++g_stats["scan_with_keys"]; }
  if (ps)
  {
    ++g_stats["scan_in_grammar"];
    bool const en = ref_named(*ps);
    if (en != flag)
    {
      ++g_oracle;
      std::cout << "ORACLE detect tmpl=" << hex_or_dash(t) << " pieces=" << pe << " expected=" << en << " got=" << flag << '\n';
    }
    std::string const ep = render(*ps, true);
    if (ep != res.first)
    {
      ++g_oracle;
      std::cout << "ORACLE positional tmpl=" << hex_or_dash(t) << " pieces=" << pe << " expected=" << hex_or_dash(ep)
                << " got=" << hex_or_dash(res.first) << '\n';
    }
    Keys const ek = ref_keys(*ps);
    if (ek != res.second)
    {
      ++g_oracle;
      std::cout << "ORACLE keys tmpl=" << hex_or_dash(t) << " pieces=" << pe << " expected=" << enc_keys(ek)
                << " got=" << enc_keys(res.second) << '\n';
    }
  }
  else { ++g_stats["scan_malformed_or_raw"]; }
}

static void scan_pieces(std::vector<Piece> const& ps)
{
  std::string const t = render(ps);
  scan_one(t, &ps);
}

static void exhaustive_pieces(std::vector<Piece> const& alphabet, unsigned maxlen)
{
  std::vector<size_t> idx;
  for (unsigned len = 0; len <= maxlen; ++len)
  {
    idx.assign(len, 0);
    for (;;)
    {
      std::vector<Piece> ps;
      for (size_t i : idx) { ps.push_back(alphabet[i]); }
      scan_pieces(ps);
      ++g_stats["gen_exhaustive_pieces"];
      size_t k = 0;
      while (k < len && ++idx[k] == alphabet.size())
      {
        idx[k] = 0;
        ++k;
      }
      if (k == len) { break; }
    }
  }
}
static void exhaustive_raw(std::string const& alphabet, unsigned maxlen)
{
  std::vector<size_t> idx;
  for (unsigned len = 0; len <= maxlen; ++len)
  {
    idx.assign(len, 0);
    for (;;)
    {
      std::string t;
      for (size_t i : idx) { t.push_back(alphabet[i]); }
      auto ps = ref_parse(t);
      if (ps) { scan_one(t, &*ps); }
      else { scan_one(t, nullptr); }
      ++g_stats["gen_exhaustive_raw"];
      size_t k = 0;
      while (k < len && ++idx[k] == alphabet.size())
      {
        idx[k] = 0;
        ++k;
      }
      if (k == len) { break; }
    }
  }
}

static char const* NAMES[] = {"a", "b", "name_1", "Abc", "zZ9_", "occurred", "x", "var_a", "Q"};
static char const* SPECS[] = {">5", "05d", ".3f", "*^9", "", "%H:%M", "x", "<8", ":", "+", "#x"};
static std::string const TEXTCH = std::string("xyz 01,.:;-_=()[]\"\\/\n\t") + '\x01' + '\x02' + '\x03' + '\x7f' + '\xc3' + '\xa9';

static Piece random_piece(Rng& r)
{
  switch (r.below(10))
  {
  case 0:
  case 1:
  case 2:
  case 3: return T(TEXTCH[r.below(TEXTCH.size())]);
  case 4: return O();
  case 5: return C();
  case 6: return r.chance(50) ? F("") : F("", SPECS[r.below(11)]);
  default: return r.chance(55) ? F(NAMES[r.below(9)]) : F(NAMES[r.below(9)], SPECS[r.below(11)]);
  }
}

static void gen_random_grammar(Rng& r, unsigned n)
{
  for (unsigned k = 0; k < n; ++k)
  {
    std::vector<Piece> ps;
    unsigned const len = 1 + static_cast<unsigned>(r.below(12));
    for (unsigned i = 0; i < len; ++i) { ps.push_back(random_piece(r)); }
    // boundary shaping relative to what is already there: put each kind of piece right after a field
    if (r.chance(35))
    {
      size_t pos = r.below(ps.size() + 1);
      Piece f = r.chance(50) ? F(NAMES[r.below(9)]) : (r.chance(50) ? F("") : F("", "x"));
      Piece nxt;
      switch (r.below(5))
      {
      case 0: nxt = C(); break;
      case 1: nxt = O(); break;
      case 2: nxt = F(NAMES[r.below(9)]); break;
      case 3: nxt = F(""); break;
      default: nxt = T(TEXTCH[r.below(TEXTCH.size())]);
      }
      ps.insert(ps.begin() + static_cast<long>(pos), nxt);
      ps.insert(ps.begin() + static_cast<long>(pos), f);
      ++g_stats["gen_boundary_after_field"];
    }
    scan_pieces(ps);
    ++g_stats["gen_random_grammar"];
  }
}
static void gen_logj(Rng& r, unsigned n)
{
  for (unsigned k = 0; k < n; ++k)
  {
    std::vector<Piece> ps;
    unsigned const tl = static_cast<unsigned>(r.below(10));
    for (unsigned i = 0; i < tl; ++i)
    {
      unsigned c = static_cast<unsigned>(r.below(12));
      ps.push_back(c == 0 ? O() : c == 1 ? C() : T(TEXTCH[r.below(TEXTCH.size())]));
    }
    unsigned const na = static_cast<unsigned>(r.below(27));
    for (unsigned i = 0; i < na; ++i)
    {
      if (i == 0) { ps.push_back(T(' ')); }
      else
      {
        ps.push_back(T(','));
        ps.push_back(T(' '));
      }
      ps.push_back(F(std::string(NAMES[r.below(9)]) + (i ? std::to_string(i) : std::string{})));
    }
    scan_pieces(ps);
    ++g_stats["gen_logj_shape"];
  }
}
static void gen_malformed(Rng& r, unsigned n)
{
  static std::string const soup = "{{{}}}}::aZ_1 x\n";
  for (unsigned k = 0; k < n; ++k)
  {
    std::string t;
    unsigned const len = static_cast<unsigned>(r.below(20));
    for (unsigned i = 0; i < len; ++i) { t.push_back(soup[r.below(soup.size())]); }
    auto ps = ref_parse(t);
    if (ps)
    {
      scan_one(t, &*ps);
      ++g_stats["gen_soup_in_grammar"];
    }
    else
    {
      scan_one(t, nullptr);
      ++g_stats["gen_soup_malformed"];
    }
  }
}

static void run_scan(uint64_t seed, int tier)
{
  // F11 witnesses first
  scan_pieces({O(), F("a"), C()});
  scan_pieces({F(""), F("a")});
  std::vector<Piece> const alpha = {T('x'),   T(':'),       T(' '), O(),         C(),
                                    F("a"),   F("a", ">5"), F(""),  F("", "x"), F("ab")};
  exhaustive_pieces(alpha, tier ? 5 : 4);
  exhaustive_raw("{}a:x", tier ? 8 : 6);
  Rng r(seed);
  gen_random_grammar(r, tier ? 60000 : 4000);
  gen_logj(r, tier ? 3000 : 300);
  gen_malformed(r, tier ? 60000 : 4000);
}

// ------------------------------------------------------------------------------------------------ e2e
struct V
{
  std::string s[4];
  int i[10];
  double d[2];
};

struct Tpl
{
  int id;
  char const* named;                 // the literal at the call site (for LOGJ_: what the macro must generate)
  char const* positional;            // hand-written positional equivalent (independent of any scanner)
  std::vector<std::string> names;    // hand-written placeholder names, in order
  std::vector<std::string> specs;    // hand-written spec of each *argument* ("" = none), surplus arguments included
  std::string args;                  // e.g. "s0 i1": which member of V is passed for each argument
  bool logj;
};

// X(id, named literal, positional literal, {names}, {specs}, "args", call arguments…)
#define NAMED_TEMPLATES(X)                                                                                          \
  X(0, "{a}", "{}", NM("a"), NM(""), "s0", v.s[0])                                                                 \
  X(1, "{a} {b}", "{} {}", NM("a", "b"), NM("", ""), "s0 i0", v.s[0], v.i[0])                                      \
  X(2, "x {a} y {b:>5} z", "x {} y {:>5} z", NM("a", "b"), NM("", ">5"), "s0 s1", v.s[0], v.s[1])                   \
  X(3, "{a:05d}|{b:x}", "{:05d}|{:x}", NM("a", "b"), NM("05d", "x"), "i0 i1", v.i[0], v.i[1])                        \
  X(4, "{{{a}}}", "{{{}}}", NM("a"), NM(""), "s0", v.s[0])                                                         \
  X(5, "{{ {a} }}", "{{ {} }}", NM("a"), NM(""), "s0", v.s[0])                                                     \
  X(6, "{a}{b}{c}", "{}{}{}", NM("a", "b", "c"), NM("", "", ""), "s0 i0 s1", v.s[0], v.i[0], v.s[1])                \
  X(7, "}}{a}{{", "}}{}{{", NM("a"), NM(""), "i0", v.i[0])                                                         \
  X(8, "{a}}} {b}", "{}}} {}", NM("a", "b"), NM("", ""), "s0 s1", v.s[0], v.s[1])                                   \
  X(9, "{}{a}", "{}{}", NM("", "a"), NM("", ""), "s0 s1", v.s[0], v.s[1])                                           \
  X(10, "{} {a}", "{} {}", NM("", "a"), NM("", ""), "s0 s1", v.s[0], v.s[1])                                        \
  X(11, "{a} {}", "{} {}", NM("a", ""), NM("", ""), "s0 i0", v.s[0], v.i[0])                                        \
  X(13, "{} and {}", "{} and {}", NM("", ""), NM("", ""), "s0 i0", v.s[0], v.i[0])                                  \
  X(14, "{{escaped}} only {}", "{{escaped}} only {}", NM(""), NM(""), "i0", v.i[0])                                \
  X(15, "{a:>8}{b:<8}{c:^8}", "{:>8}{:<8}{:^8}", NM("a", "b", "c"), NM(">8", "<8", "^8"), "s0 s1 s2", v.s[0],      \
    v.s[1], v.s[2])                                                                                                \
  X(16, "{name_1}:{Name2}", "{}:{}", NM("name_1", "Name2"), NM("", ""), "s0 i0", v.s[0], v.i[0])                    \
  X(17, "{a}\n{b}", "{}\n{}", NM("a", "b"), NM("", ""), "s0 s1", v.s[0], v.s[1])                                    \
  X(18, "line1\nline2 {a}\n", "line1\nline2 {}\n", NM("a"), NM(""), "s0", v.s[0])                                  \
  X(19, "{a:.3}", "{:.3}", NM("a"), NM(".3"), "s0", v.s[0])                                                        \
  X(20, "{a:*>10}", "{:*>10}", NM("a"), NM("*>10"), "s0", v.s[0])                                                  \
  X(21, "{a} extra", "{} extra", NM("a"), NM("", ""), "s0 i0", v.s[0], v.i[0])                                     \
  X(22, "{a}", "{}", NM("a"), NM("", "", ""), "i0 s0 i1", v.i[0], v.s[0], v.i[1])                                  \
  X(23, "json \"quoted\" {a}", "json \"quoted\" {}", NM("a"), NM(""), "s0", v.s[0])                                \
  X(24, "back\\slash {a}", "back\\slash {}", NM("a"), NM(""), "s0", v.s[0])                                        \
  X(25, "{a:+d} {b:#x} {c:08.3f}", "{:+d} {:#x} {:08.3f}", NM("a", "b", "c"), NM("+d", "#x", "08.3f"),             \
    "i0 i1 d0", v.i[0], v.i[1], v.d[0])                                                                            \
  X(26, "{a}, {b}, {c}, {d}, {e}, {f}, {g}, {h}, {i}, {j}", "{}, {}, {}, {}, {}, {}, {}, {}, {}, {}",               \
    NM("a", "b", "c", "d", "e", "f", "g", "h", "i", "j"), NM("", "", "", "", "", "", "", "", "", ""),               \
    "i0 i1 i2 i3 i4 i5 i6 i7 i8 i9", v.i[0], v.i[1], v.i[2], v.i[3], v.i[4], v.i[5], v.i[6], v.i[7], v.i[8],        \
    v.i[9])                                                                                                        \
  X(27, "{A}", "{}", NM("A"), NM(""), "d0", v.d[0])                                                                \
  X(28, "{a}:", "{}:", NM("a"), NM(""), "s0", v.s[0])                                                              \
  X(29, "{a:}", "{:}", NM("a"), NM(""), "s0", v.s[0])                                                              \
  X(30, "{}{{x", "{}{{x", NM(""), NM(""), "s0", v.s[0])                                                            \
  X(31, "{:x}}}{a}", "{:x}}}{}", NM("", "a"), NM("x", ""), "i0 s0", v.i[0], v.s[0])                                \
  X(32, "tab\there {a}", "tab\there {}", NM("a"), NM(""), "s0", v.s[0])                                            \
  X(33, "{a} {a}", "{} {}", NM("a", "a"), NM("", ""), "s0 s1", v.s[0], v.s[1])                                      \
  X(34, "{a}}}", "{}}}", NM("a"), NM(""), "s0", v.s[0])                                                            \
  X(35, "{a} }}", "{} }}", NM("a"), NM(""), "s0", v.s[0])                                                          \
  X(36, "{{}} {a}", "{{}} {}", NM("a"), NM(""), "i0", v.i[0])                                                      \
  X(37, "{first} and {second:>6} and {third:<4}|", "{} and {:>6} and {:<4}|", NM("first", "second", "third"),      \
    NM("", ">6", "<4"), "s0 s1 i0", v.s[0], v.s[1], v.i[0])                                                        \
  X(38, "{a:x} {b}", "{:x} {}", NM("a", "b"), NM("x", ""), "i0 s0", v.i[0], v.s[0])                                \
  X(39, "{b} {a}", "{} {}", NM("b", "a"), NM("", ""), "s0 s1", v.s[0], v.s[1])                                      \
  X(40, "{a} {b}.", "{} {}.", NM("a", "b"), NM("", ""), "s0 i0", v.s[0], v.i[0])

#define NM(...)                                                                                                    \
  std::vector<std::string> { __VA_ARGS__ }
#define NM0                                                                                                        \
  std::vector<std::string> {}

static std::vector<Tpl> g_tpls;
static std::map<int, int> g_line_of;

static void build_table_extra();
static void build_table()
{
#define X(ID, NAMED, POS, NAMES_, SPECS_, ARGS, ...) g_tpls.push_back(Tpl{ID, NAMED, POS, NAMES_, SPECS_, ARGS, false});
  NAMED_TEMPLATES(X)
#undef X
  g_tpls.push_back(Tpl{12, "plain text no fields", "plain text no fields", {}, {}, "", false});
  // LOGJ_ call sites (ids 50..): the literal is what QUILL_GENERATE_NAMED_FORMAT_STRING must produce
  g_tpls.push_back(Tpl{50, "A json message", "A json message", {}, {}, "", true});
  g_tpls.push_back(Tpl{51, "A json message {var_a}", "A json message {}", {"var_a"}, {""}, "s0", true});
  g_tpls.push_back(Tpl{52, "two {var_a}, {b}", "two {}, {}", {"var_a", "b"}, {"", ""}, "s0 i0", true});
  g_tpls.push_back(Tpl{53, "{{x}} three {var_a}, {b}, {c1}", "{{x}} three {}, {}, {}", {"var_a", "b", "c1"}, {"", "", ""}, "s0 i0 s1", true});
  {
    std::string n = "max", p = "max";
    std::vector<std::string> names, specs;
    std::string args;
    for (int k = 0; k < 26; ++k)
    {
      std::string nm = "a" + std::to_string(k);
      n += (k ? ", {" : " {") + nm + "}";
      p += (k ? ", {}" : " {}");
      names.push_back(nm);
      specs.push_back("");
      args += (k ? " i" : "i") + std::to_string(k % 10);
    }
    static std::string sn, sp;
    sn = n;
    sp = p;
    g_tpls.push_back(Tpl{54, sn.c_str(), sp.c_str(), names, specs, args, true});
  }
  build_table_extra();
}
static void build_table_extra()
{
  static std::vector<std::string> keep; // storage for the generated literals
  keep.reserve(64);
  for (int n = 4; n <= 25; ++n)
  {
    std::string lit = "n", pos = "n", args;
    std::vector<std::string> names, specs;
    for (int k = 0; k < n; ++k)
    {
      std::string nm = "a" + std::to_string(k);
      lit += (k ? ", {" : " {") + nm + "}";
      pos += (k ? ", {}" : " {}");
      names.push_back(nm);
      specs.push_back("");
      args += (k ? " i" : "i") + std::to_string(k % 10);
    }
    keep.push_back(lit);
    char const* l = keep.back().c_str();
    keep.push_back(pos);
    char const* p = keep.back().c_str();
    g_tpls.push_back(Tpl{60 + n, l, p, names, specs, args, true});
  }
  // LOGJ_ with an argument that is not a plain identifier (finding candidate F11c): the user means key `ns_q::val`
  g_tpls.push_back(Tpl{55, "qualified {ns_q::val}", "qualified {}", {"ns_q::val"}, {""}, "i0", true});
}
static Tpl const* find_tpl(int id)
{
  for (auto const& t : g_tpls)
  {
    if (t.id == id) { return &t; }
  }
  return nullptr;
}

struct Rec
{
  std::string fmt;
  uint64_t ts;
  std::string thread_id, logger, level, msg, file, line;
  bool has_pairs;
  Keys pairs;
};
struct RecSink : Sink
{
  std::vector<Rec> recs;
  void write_log(MacroMetadata const* md, uint64_t ts, std::string_view thread_id, std::string_view, std::string const&,
                 std::string_view logger_name, LogLevel, std::string_view log_level_description, std::string_view,
                 std::vector<std::pair<std::string, std::string>> const* named_args, std::string_view log_message,
                 std::string_view) override
  {
    Rec r;
    r.fmt = md->message_format();
    r.ts = ts;
    r.thread_id = std::string{thread_id};
    r.logger = std::string{logger_name};
    r.level = std::string{log_level_description};
    r.msg = std::string{log_message};
    r.file = std::string{md->file_name()};
    r.line = md->line();
    r.has_pairs = named_args && !named_args->empty();
    if (named_args) { r.pairs = *named_args; }
    recs.push_back(std::move(r));
  }
  void flush_sink() override {}
};
struct CountClock : UserClockSource
{
  mutable uint64_t t{1000};
  uint64_t now() const override { return ++t; }
};

static Logger* g_lg = nullptr;
namespace ns_q
{
static int val = 0;
}

static void do_log(int id, V const& v)
{
  Logger* lg = g_lg;
  switch (id)
  {
#define X(ID, NAMED, POS, NAMES_, SPECS_, ARGS, ...)                                                               \
  case ID:                                                                                                         \
    g_line_of[ID] = __LINE__;                                                                                      \
    LOG_INFO(lg, NAMED, __VA_ARGS__);                                                                              \
    break;
    NAMED_TEMPLATES(X)
#undef X
  case 12: g_line_of[12] = __LINE__; LOG_INFO(lg, "plain text no fields"); break;
  case 50: g_line_of[50] = __LINE__; LOGJ_INFO(lg, "A json message"); break;
  case 51:
  {
    std::string const& var_a = v.s[0];
    g_line_of[51] = __LINE__; LOGJ_INFO(lg, "A json message", var_a);
    break;
  }
  case 52:
  {
    std::string const& var_a = v.s[0];
    int const b = v.i[0];
    g_line_of[52] = __LINE__; LOGJ_INFO(lg, "two", var_a, b);
    break;
  }
  case 53:
  {
    std::string const& var_a = v.s[0];
    int const b = v.i[0];
    std::string const& c1 = v.s[1];
    g_line_of[53] = __LINE__; LOGJ_INFO(lg, "{{x}} three", var_a, b, c1);
    break;
  }
  case 54:
  {
    int const a0 = v.i[0], a1 = v.i[1], a2 = v.i[2], a3 = v.i[3], a4 = v.i[4], a5 = v.i[5], a6 = v.i[6], a7 = v.i[7],
              a8 = v.i[8], a9 = v.i[9], a10 = v.i[0], a11 = v.i[1], a12 = v.i[2], a13 = v.i[3], a14 = v.i[4],
              a15 = v.i[5], a16 = v.i[6], a17 = v.i[7], a18 = v.i[8], a19 = v.i[9], a20 = v.i[0], a21 = v.i[1],
              a22 = v.i[2], a23 = v.i[3], a24 = v.i[4], a25 = v.i[5];
    g_line_of[54] = __LINE__; LOGJ_INFO(lg, "max", a0, a1, a2, a3, a4, a5, a6, a7, a8, a9, a10, a11, a12, a13, a14, a15, a16, a17, a18, a19, a20, a21, a22, a23, a24, a25);
    break;
  }
  case 55:
  {
    ns_q::val = v.i[0];
    g_line_of[55] = __LINE__; LOGJ_INFO(lg, "qualified", ns_q::val);
    break;
  }
  default: break;
  }
  // every LOGJ_ arity between the ones above (0..3) and the limit (26): call sites 60+n
  {
    int const a0 = v.i[0], a1 = v.i[1], a2 = v.i[2], a3 = v.i[3], a4 = v.i[4], a5 = v.i[5], a6 = v.i[6], a7 = v.i[7],
              a8 = v.i[8], a9 = v.i[9], a10 = v.i[0], a11 = v.i[1], a12 = v.i[2], a13 = v.i[3], a14 = v.i[4],
              a15 = v.i[5], a16 = v.i[6], a17 = v.i[7], a18 = v.i[8], a19 = v.i[9], a20 = v.i[0], a21 = v.i[1],
              a22 = v.i[2], a23 = v.i[3], a24 = v.i[4];
    switch (id)
    {
  case 64: g_line_of[64] = __LINE__; LOGJ_INFO(lg, "n", a0, a1, a2, a3); break;
  case 65: g_line_of[65] = __LINE__; LOGJ_INFO(lg, "n", a0, a1, a2, a3, a4); break;
  case 66: g_line_of[66] = __LINE__; LOGJ_INFO(lg, "n", a0, a1, a2, a3, a4, a5); break;
  case 67: g_line_of[67] = __LINE__; LOGJ_INFO(lg, "n", a0, a1, a2, a3, a4, a5, a6); break;
  case 68: g_line_of[68] = __LINE__; LOGJ_INFO(lg, "n", a0, a1, a2, a3, a4, a5, a6, a7); break;
  case 69: g_line_of[69] = __LINE__; LOGJ_INFO(lg, "n", a0, a1, a2, a3, a4, a5, a6, a7, a8); break;
  case 70: g_line_of[70] = __LINE__; LOGJ_INFO(lg, "n", a0, a1, a2, a3, a4, a5, a6, a7, a8, a9); break;
  case 71: g_line_of[71] = __LINE__; LOGJ_INFO(lg, "n", a0, a1, a2, a3, a4, a5, a6, a7, a8, a9, a10); break;
  case 72: g_line_of[72] = __LINE__; LOGJ_INFO(lg, "n", a0, a1, a2, a3, a4, a5, a6, a7, a8, a9, a10, a11); break;
  case 73: g_line_of[73] = __LINE__; LOGJ_INFO(lg, "n", a0, a1, a2, a3, a4, a5, a6, a7, a8, a9, a10, a11, a12); break;
  case 74: g_line_of[74] = __LINE__; LOGJ_INFO(lg, "n", a0, a1, a2, a3, a4, a5, a6, a7, a8, a9, a10, a11, a12, a13); break;
  case 75: g_line_of[75] = __LINE__; LOGJ_INFO(lg, "n", a0, a1, a2, a3, a4, a5, a6, a7, a8, a9, a10, a11, a12, a13, a14); break;
  case 76: g_line_of[76] = __LINE__; LOGJ_INFO(lg, "n", a0, a1, a2, a3, a4, a5, a6, a7, a8, a9, a10, a11, a12, a13, a14, a15); break;
  case 77: g_line_of[77] = __LINE__; LOGJ_INFO(lg, "n", a0, a1, a2, a3, a4, a5, a6, a7, a8, a9, a10, a11, a12, a13, a14, a15, a16); break;
  case 78: g_line_of[78] = __LINE__; LOGJ_INFO(lg, "n", a0, a1, a2, a3, a4, a5, a6, a7, a8, a9, a10, a11, a12, a13, a14, a15, a16, a17); break;
  case 79: g_line_of[79] = __LINE__; LOGJ_INFO(lg, "n", a0, a1, a2, a3, a4, a5, a6, a7, a8, a9, a10, a11, a12, a13, a14, a15, a16, a17, a18); break;
  case 80: g_line_of[80] = __LINE__; LOGJ_INFO(lg, "n", a0, a1, a2, a3, a4, a5, a6, a7, a8, a9, a10, a11, a12, a13, a14, a15, a16, a17, a18, a19); break;
  case 81: g_line_of[81] = __LINE__; LOGJ_INFO(lg, "n", a0, a1, a2, a3, a4, a5, a6, a7, a8, a9, a10, a11, a12, a13, a14, a15, a16, a17, a18, a19, a20); break;
  case 82: g_line_of[82] = __LINE__; LOGJ_INFO(lg, "n", a0, a1, a2, a3, a4, a5, a6, a7, a8, a9, a10, a11, a12, a13, a14, a15, a16, a17, a18, a19, a20, a21); break;
  case 83: g_line_of[83] = __LINE__; LOGJ_INFO(lg, "n", a0, a1, a2, a3, a4, a5, a6, a7, a8, a9, a10, a11, a12, a13, a14, a15, a16, a17, a18, a19, a20, a21, a22); break;
  case 84: g_line_of[84] = __LINE__; LOGJ_INFO(lg, "n", a0, a1, a2, a3, a4, a5, a6, a7, a8, a9, a10, a11, a12, a13, a14, a15, a16, a17, a18, a19, a20, a21, a22, a23); break;
  case 85: g_line_of[85] = __LINE__; LOGJ_INFO(lg, "n", a0, a1, a2, a3, a4, a5, a6, a7, a8, a9, a10, a11, a12, a13, a14, a15, a16, a17, a18, a19, a20, a21, a22, a23, a24); break;
    default: break;
    }
  }
}

/** the i-th argument rendered on its own by fmt with the given spec; `threw` is set if fmt rejects one */
static std::vector<std::string> format_each(Tpl const& t, V const& v, std::vector<std::string> const& specs, bool* threw)
{
  std::vector<std::string> out;
  auto words = split_ws(t.args);
  for (size_t k = 0; k < words.size(); ++k)
  {
    std::string const sp = k < specs.size() ? specs[k] : std::string{};
    std::string const f = "{" + sp + "}";
    int const ix = std::atoi(words[k].c_str() + 1);
    try
    {
      switch (words[k][0])
      {
      case 's': out.push_back(fmtquill::format(fmtquill::runtime(f), v.s[ix])); break;
      case 'i': out.push_back(fmtquill::format(fmtquill::runtime(f), v.i[ix])); break;
      default: out.push_back(fmtquill::format(fmtquill::runtime(f), v.d[ix]));
      }
    }
    catch (std::exception const&)
    {
      out.emplace_back();
      if (threw) { *threw = true; }
    }
  }
  return out;
}
/** specs ("" or ":spec") as the hand-written table intends them */
static std::vector<std::string> table_specs(Tpl const& t)
{
  std::vector<std::string> o;
  for (auto const& s : t.specs) { o.push_back(s.empty() ? std::string{} : ":" + s); }
  return o;
}
/** specs as the grammar reads the literal (reference parser); falls back to the table outside the grammar */
static std::vector<std::string> grammar_specs(Tpl const& t)
{
  auto ps = ref_parse(t.named);
  if (!ps) { return table_specs(t); }
  std::vector<std::string> o;
  for (auto const& p : *ps)
  {
    if (p.kind == 'F') { o.push_back(p.has_spec ? ":" + p.spec : std::string{}); }
  }
  return o;
}
/** fmtquill::format of the hand-written positional literal with the same arguments */
static std::string format_positional(Tpl const& t, V const& v)
{
  fmtquill::dynamic_format_arg_store<fmtquill::format_context> store;
  for (auto const& w : split_ws(t.args))
  {
    int const ix = std::atoi(w.c_str() + 1);
    switch (w[0])
    {
    case 's': store.push_back(v.s[ix]); break;
    case 'i': store.push_back(v.i[ix]); break;
    default: store.push_back(v.d[ix]);
    }
  }
  return fmtquill::vformat(t.positional, store);
}
static bool has_string_arg(Tpl const& t) { return t.args.find('s') != std::string::npos; }
static std::string ref_sanitize(std::string const& s)
{
  std::string o;
  char buf[8];
  for (char ch : s)
  {
    unsigned char c = static_cast<unsigned char>(ch);
    if ((c >= 0x20 && c <= 0x7e) || c == '\n') { o.push_back(ch); }
    else
    {
      std::snprintf(buf, sizeof buf, "\\x%02X", c);
      o += buf;
    }
  }
  return o;
}

static char const* SVALS[] = {"", "x", "hello world", "\x01", "\x01\x02", "\x01\x02\x03", "a\x01\x02\x03" "b",
                              "line\nbreak", "trail\n", "q\"uote", "back\\slash", "{brace}", "}}", "tab\there",
                              "\xc3\xa9", "0123456789abcdef", "\x02\x03", "\x03", "comma, colon: semi;"};
static int const IVALS[] = {0, 1, -1, 42, 255, -255, 2147483647, -2147483647 - 1, 1000000, 7};
static double const DVALS[] = {0.0, 1.5, -2.25, 3.14159265, 1e10, -0.001};

static V random_v(Rng& r)
{
  V v;
  for (auto& s : v.s)
  {
    // mostly plain values, sometimes the separator-like ones
    s = r.chance(55) ? SVALS[r.below(3)] : SVALS[r.below(sizeof SVALS / sizeof *SVALS)];
    if (r.chance(10)) { s += std::to_string(r.below(1000)); }
  }
  for (auto& i : v.i) { i = r.chance(50) ? static_cast<int>(r.below(100000)) - 50000 : IVALS[r.below(10)]; }
  for (auto& d : v.d) { d = DVALS[r.below(6)]; }
  return v;
}
static std::string enc_v(V const& v)
{
  std::string o;
  for (auto const& s : v.s) { o += hex_or_dash(s) + ","; }
  for (int i : v.i) { o += std::to_string(i) + ","; }
  o += std::to_string(static_cast<long long>(v.d[0] * 1000000)) + "," + std::to_string(static_cast<long long>(v.d[1] * 1000000));
  return o;
}
static V dec_v(std::string const& s)
{
  V v{};
  auto w = split_on(s, ',');
  if (w.size() != 16) { return v; }
  for (int k = 0; k < 4; ++k) { v.s[k] = unhex(w[static_cast<size_t>(k)]); }
  for (int k = 0; k < 10; ++k) { v.i[k] = std::atoi(w[static_cast<size_t>(4 + k)].c_str()); }
  v.d[0] = static_cast<double>(std::atoll(w[14].c_str())) / 1000000.0;
  v.d[1] = static_cast<double>(std::atoll(w[15].c_str())) / 1000000.0;
  return v;
}


// the cached entry of a template: (format string, keys) — read through whichever shape the entry has (a pair today),
// so that a change of its layout does not take the whole harness down with it
template <typename T>
static auto cache_fmt(T const& v, int) -> decltype((v.first)) { return v.first; }
template <typename T>
static auto cache_keys(T const& v, int) -> decltype((v.second)) { return v.second; }
template <typename T>
static auto const& cache_fmt(T const& v, long) { auto const& [a, b, c] = v; (void)b; (void)c; return a; }
template <typename T>
static auto const& cache_keys(T const& v, long) { auto const& [a, b, c] = v; (void)a; (void)c; return b; }

// ------------------------------------------------------------------------------------------------ throwing JSON sink
static uint64_t g_reports = 0;      // error-notifier calls
static std::string g_last_report;

struct FaultPlan
{
  char kind{'o'}; // 'o' no fault, 'g' generate_json_message throws after k bytes of the record, 'w' the before_write hook throws
  size_t k{0};
  std::string show() const
  {
    if (kind == 'g') { return "gen:" + std::to_string(k); }
    return kind == 'w' ? "write" : "ok";
  }
};
static FaultPlan g_plan; // armed for the statement being processed
static bool parse_plan(std::string const& w, FaultPlan& p)
{
  if (w == "ok") { p = FaultPlan{'o', 0}; }
  else if (w == "write") { p = FaultPlan{'w', 0}; }
  else if (w.rfind("gen:", 0) == 0) { p = FaultPlan{'g', static_cast<size_t>(std::strtoull(w.c_str() + 4, nullptr, 10))}; }
  else { return false; }
  return true;
}

/** a user JSON sink in the documented way: generate_json_message overridden, the base implementation called — and an
    exception thrown after all of the record (k >= its size) or only its first k bytes were appended */
struct FaultJsonSink : JsonFileSink
{
  using JsonFileSink::JsonFileSink;
  uint64_t generate_calls{0};
  void generate_json_message(MacroMetadata const* log_metadata, uint64_t log_timestamp, std::string_view thread_id,
                             std::string_view thread_name, std::string const& process_id, std::string_view logger_name,
                             LogLevel log_level, std::string_view log_level_description, std::string_view log_level_short_code,
                             std::vector<std::pair<std::string, std::string>> const* named_args, std::string_view log_message,
                             std::string_view log_statement, char const* message_format) override
  {
    ++generate_calls;
    size_t const before = _json_message.size();
    JsonFileSink::generate_json_message(log_metadata, log_timestamp, thread_id, thread_name, process_id, logger_name, log_level,
                                        log_level_description, log_level_short_code, named_args, log_message, log_statement,
                                        message_format);
    if (g_plan.kind == 'g')
    {
      size_t const rec = _json_message.size() - before;
      _json_message.resize(before + std::min(g_plan.k, rec)); // thrown half-way: only part of the record is there
      throw std::runtime_error("h3 fault: generate_json_message");
    }
  }
};

struct E2E
{
  ManualBackendWorker* mw{nullptr};
  detail::BackendWorker* bw{nullptr};
  std::shared_ptr<Sink> rec_sp, json_sp;
  RecSink* rec{nullptr};
  std::string json_path;
  size_t json_off{0};
  CountClock clock;
  bool san_option{true};
  std::function<bool(char)> saved_check;

  void init(std::string const& dir)
  {
    mw = Backend::acquire_manual_backend_worker();
    BackendOptions bo;
    bo.error_notifier = [](std::string const& m)
    {
      ++g_stats["backend_error_notifications"];
      ++g_reports;
      g_last_report = m;
    };
    mw->init(bo);
    bw = &detail::BackendManager::instance()._backend_worker;
    saved_check = bw->_options.check_printable_char;
    rec_sp = Frontend::create_or_get_sink<RecSink>("rec");
    rec = static_cast<RecSink*>(rec_sp.get());
    json_path = dir + "/h3_named_" + std::to_string(getpid()) + ".json";
    std::remove(json_path.c_str());
    FileSinkConfig cfg;
    cfg.set_open_mode('w');
    cfg.set_filename_append_option(FilenameAppendOption::None);
    json_sp = Frontend::create_or_get_sink<JsonFileSink>(json_path, cfg);
    PatternFormatterOptions pfo{"%(message)"};
    pfo.add_metadata_to_multi_line_logs = false;
    g_lg = Frontend::create_or_get_logger("named_lg", {rec_sp, json_sp}, pfo, ClockSourceType::User, &clock);
    std::cout << "e2e-init " << hex(QUILL_MAGIC_SEPARATOR) << '\n';
  }
  void set_san(bool on)
  {
    san_option = on;
    if (on) { bw->_options.check_printable_char = saved_check; }
    else { bw->_options.check_printable_char = {}; }
    std::cout << "san " << (on ? 1 : 0) << '\n';
  }
  void cache_clear()
  {
    bw->_named_args_templates.clear();
    std::cout << "cache-clear\n";
  }
  void cache_dump()
  {
    std::vector<std::string> ents;
    for (auto const& kv : bw->_named_args_templates)
    {
      ents.push_back(hex_or_dash(kv.first) + ":" + hex_or_dash(cache_fmt(kv.second, 0)) + ":" + enc_keys(cache_keys(kv.second, 0)));
    }
    std::sort(ents.begin(), ents.end());
    std::cout << "cache-dump =>";
    if (ents.empty()) { std::cout << " -"; }
    for (auto const& e : ents) { std::cout << ' ' << e; }
    std::cout << '\n';
    ++g_stats["e2e_cache_dumps"];
  }
  std::string read_json_new()
  {
    json_sp->flush_sink();
    std::ifstream in(json_path, std::ios::binary);
    in.seekg(static_cast<std::streamoff>(json_off));
    std::string s((std::istreambuf_iterator<char>(in)), std::istreambuf_iterator<char>());
    json_off += s.size();
    return s;
  }
  // ---- the throwing JSON sink: its own logger {recording sink, FaultJsonSink} --------------------------------
  Logger* fault_lg{nullptr};
  std::shared_ptr<Sink> rec_f_sp, fj_sp;
  RecSink* rec_f{nullptr};
  FaultJsonSink* fj{nullptr};
  std::string fj_path;
  size_t fj_off{0};
  std::string jcase;
  unsigned jstmt{0}, jfaults{0};
  std::vector<std::string> jfaulted_markers;

  void fault_init(std::string const& dir)
  {
    if (fault_lg) { return; }
    rec_f_sp = Frontend::create_or_get_sink<RecSink>("rec_f");
    rec_f = static_cast<RecSink*>(rec_f_sp.get());
    fj_path = dir + "/h3_named_fault_" + std::to_string(getpid()) + ".json";
    std::remove(fj_path.c_str());
    FileSinkConfig cfg;
    cfg.set_open_mode('w');
    cfg.set_filename_append_option(FilenameAppendOption::None);
    FileEventNotifier fen;
    fen.before_write = [](std::string_view m) -> std::string
    {
      if (g_plan.kind == 'w') { throw std::runtime_error("h3 fault: before_write"); }
      return std::string{m};
    };
    fj_sp = Frontend::create_or_get_sink<FaultJsonSink>(fj_path, cfg, fen);
    fj = static_cast<FaultJsonSink*>(fj_sp.get());
    PatternFormatterOptions pfo{"%(message)"};
    pfo.add_metadata_to_multi_line_logs = false;
    // the recording sink first: a throwing sink cuts off only the sinks after it
    fault_lg = Frontend::create_or_get_logger("fault_lg", {rec_f_sp, fj_sp}, pfo, ClockSourceType::User, &clock);
  }
  std::string read_fault_new()
  {
    fj_sp->flush_sink();
    std::ifstream in(fj_path, std::ios::binary);
    in.seekg(static_cast<std::streamoff>(fj_off));
    std::string s((std::istreambuf_iterator<char>(in)), std::istreambuf_iterator<char>());
    fj_off += s.size();
    return s;
  }
  void jf_begin(std::string const& dir, std::string const& cid)
  {
    fault_init(dir);
    g_plan = FaultPlan{};
    fj->_json_message.clear(); // every case starts from a sink that has nothing buffered
    (void)read_fault_new();
    jcase = cid;
    jstmt = 0;
    jfaults = 0;
    jfaulted_markers.clear();
    std::cout << "jf-begin " << cid << '\n';
    ++g_stats["jf_cases"];
  }
  void jf_end()
  {
    std::cout << "jf-end " << jcase << " => stmts=" << jstmt << " faults=" << jfaults << '\n';
    if (jfaults) { ++g_stats["jf_cases_with_fault"]; }
  }
  void jf_oracle(std::string const& what, int id, FaultPlan const& plan, std::string const& detail)
  {
    ++g_oracle;
    std::cout << "ORACLE jf-" << what << " case=" << jcase << " stmt=" << jstmt << " idx=" << id << " fault=" << plan.show() << ' ' << detail << '\n';
  }
  /** one statement of a fault case; the statement's first string argument is its unique marker */
  void jlog(int id, V const& v, FaultPlan const& plan)
  {
    Tpl const* t = find_tpl(id);
    if (!t || !fault_lg)
    {
      std::cout << "# jlog: unknown template id " << id << " or no jf-begin\n";
      return;
    }
    ++jstmt;
    size_t const before = rec_f->recs.size();
    uint64_t const rep0 = g_reports;
    uint64_t const gen0 = fj->generate_calls;
    g_plan = plan;
    Logger* const saved = g_lg;
    g_lg = fault_lg;
    do_log(id, v);
    g_lg = saved;
    for (int k = 0; k < 4 && rec_f->recs.size() == before; ++k) { mw->poll_one(); }
    g_plan = FaultPlan{};
    std::string const wrote = read_fault_new();
    uint64_t const reps = g_reports - rep0;
    std::cout << "jlog " << id << ' ' << enc_v(v) << ' ' << plan.show() << ' ' << hex_or_dash(t->named);
    ++g_stats["jf_statements"];
    if (rec_f->recs.size() != before + 1)
    {
      std::cout << " pairs=- hdr=- => nrecs=" << (rec_f->recs.size() - before) << '\n';
      jf_oracle("delivery", id, plan, "expected=1 got=" + std::to_string(rec_f->recs.size() - before));
      return;
    }
    Rec const& r = rec_f->recs.back();
    std::cout << " pairs=" << (r.has_pairs ? enc_keys(r.pairs) : std::string{"-"}) << " hdr=" << hex(std::to_string(r.ts)) << ','
              << hex(r.file) << ',' << hex(r.line) << ',' << hex(r.thread_id) << ',' << hex(r.logger) << ',' << hex(r.level)
              << " => wrote=" << hex_or_dash(wrote) << " reports=" << reps << '\n';
    bool const faulted = plan.kind != 'o';
    std::string const& marker = v.s[0];
    if (faulted)
    {
      ++jfaults;
      ++g_stats[plan.kind == 'w' ? "jf_faults_before_write" : (plan.k == 0 ? "jf_faults_generate_nothing_appended"
                                                                 : (plan.k >= 100000 ? "jf_faults_generate_whole_record" : "jf_faults_generate_part_of_record"))];
    }
    // ---- independent oracles ------------------------------------------------------------------------
    if (fj->generate_calls != gen0 + 1) { jf_oracle("generate-calls", id, plan, "expected=1 got=" + std::to_string(fj->generate_calls - gen0)); }
    if (reps != (faulted ? 1u : 0u)) { jf_oracle("reports", id, plan, "expected=" + std::to_string(faulted ? 1 : 0) + " got=" + std::to_string(reps)); }
    else if (faulted && g_last_report.find("h3 fault") == std::string::npos) { jf_oracle("report-text", id, plan, "got=" + hex_or_dash(g_last_report)); }
    if (faulted)
    {
      if (!wrote.empty()) { jf_oracle("faulted-statement-wrote", id, plan, "wrote=" + hex(wrote)); }
    }
    else
    {
      size_t const nl = static_cast<size_t>(std::count(wrote.begin(), wrote.end(), '\n'));
      if (wrote.empty() || wrote.front() != '{' || nl != 1 || wrote.back() != '\n' || wrote.size() < 3 || wrote[wrote.size() - 2] != '}')
      {
        jf_oracle("not-one-object-per-line", id, plan, "wrote=" + hex_or_dash(wrote));
      }
      else if (std::count(wrote.begin(), wrote.end(), '{') != 1 + std::count(t->named, t->named + std::strlen(t->named), '{'))
      {
        // the only other `{` of a line are those of the statement's own template (the "message" member)
        jf_oracle("not-one-object-per-line", id, plan, "second-object-on-the-line wrote=" + hex(wrote));
      }
      if (!marker.empty() && wrote.find(marker) == std::string::npos) { jf_oracle("own-values-missing", id, plan, "marker=" + marker + " wrote=" + hex_or_dash(wrote)); }
    }
    for (auto const& m : jfaulted_markers)
    {
      if (!m.empty() && wrote.find(m) != std::string::npos) { jf_oracle("faulted-statement-appears-later", id, plan, "marker=" + m + " wrote=" + hex(wrote)); }
    }
    if (faulted) { jfaulted_markers.push_back(marker); }
  }

  void log(int id, V const& v)
  {
    Tpl const* t = find_tpl(id);
    if (!t)
    {
      std::cout << "# unknown template id " << id << '\n';
      return;
    }
    size_t const before = rec->recs.size();
    do_log(id, v);
    for (int k = 0; k < 4 && rec->recs.size() == before; ++k) { mw->poll_one(); }
    std::string const json = read_json_new();
    // model inputs: each argument rendered by the spec the *grammar* gives its placeholder; oracle inputs: by the
    // spec the hand-written table intends (the two coincide except where a finding class makes them differ)
    bool thr = false;
    std::vector<std::string> const fvm = format_each(*t, v, grammar_specs(*t), &thr);
    std::vector<std::string> const fv = format_each(*t, v, table_specs(*t), nullptr);
    bool const san = san_option && has_string_arg(*t);
    std::string fvs;
    for (size_t k = 0; k < fvm.size(); ++k) { fvs += (k ? ",v" : "v") + hex(fvm[k]); }
    if (fvm.empty()) { fvs = "-"; }
    if (thr) { ++g_stats["e2e_fmt_rejects_spec"]; }
    std::cout << "log " << id << ' ' << enc_v(v) << ' ' << hex_or_dash(t->named) << ' ' << (san ? 1 : 0) << ' ' << (thr ? 1 : 0) << ' ' << fvs << " => ";
    ++g_stats["e2e_statements"];
    if (rec->recs.size() != before + 1)
    {
      std::cout << "nrecs=" << (rec->recs.size() - before) << '\n';
      ++g_oracle;
      std::cout << "ORACLE delivery idx=" << id << " tmpl=" << hex_or_dash(t->named) << " expected=1 got=" << (rec->recs.size() - before) << '\n';
      return;
    }
    Rec const& r = rec->recs.back();
    bool const err = r.msg.rfind("[Could not format log statement", 0) == 0;
    std::cout << "msg=" << (err ? std::string{"ERR"} : hex(r.msg)) << " pairs=" << (r.has_pairs ? enc_keys(r.pairs) : std::string{"-"})
              << " hdr=" << hex(std::to_string(r.ts)) << ',' << hex(r.file) << ',' << hex(r.line) << ',' << hex(r.thread_id)
              << ',' << hex(r.logger) << ',' << hex(r.level) << " json=" << hex(json) << '\n';
    // ---- independent oracles ------------------------------------------------------------------------
    std::string const th = hex_or_dash(t->named);
    if (r.fmt != t->named)
    {
      ++g_oracle;
      std::cout << "ORACLE template-literal idx=" << id << " tmpl=" << th << " expected=" << th << " got=" << hex_or_dash(r.fmt) << '\n';
    }
    if (r.file != "h3_named.cpp" || r.line != std::to_string(g_line_of[id]) || r.logger != "named_lg" || r.level != "INFO")
    {
      ++g_oracle;
      std::cout << "ORACLE json-header-inputs idx=" << id << " tmpl=" << th << " file=" << r.file << " line=" << r.line
                << " logger=" << r.logger << " level=" << r.level << '\n';
    }
    // text = positional formatting
    std::string want = format_positional(*t, v);
    if (san) { want = ref_sanitize(want); }
    if (!want.empty() && want.back() == '\n') { want.pop_back(); }
    if (err || want != r.msg)
    {
      ++g_oracle;
      std::cout << "ORACLE message idx=" << id << " tmpl=" << th << " expected=" << hex_or_dash(want)
                << " got=" << (err ? std::string{"ERR"} : hex_or_dash(r.msg)) << '\n';
    }
    // pairs = (name_i, value_i rendered by its own spec), when the template has a named placeholder and no
    // rendered value contains the separator
    bool any_named = false;
    for (auto const& n : t->names) { any_named = any_named || !n.empty(); }
    bool sep_in_value = false;
    for (auto const& f : fv) { sep_in_value = sep_in_value || f.find(QUILL_MAGIC_SEPARATOR) != std::string::npos; }
    if (sep_in_value) { ++g_stats["e2e_value_contains_separator"]; }
    Keys wantp;
    if (any_named)
    {
      for (size_t k = 0; k < fv.size(); ++k)
      {
        std::string key = k < t->names.size() ? t->names[k] : "_" + std::to_string(k);
        wantp.emplace_back(key, san ? ref_sanitize(fv[k]) : fv[k]);
      }
    }
    if (!sep_in_value)
    {
      Keys const gotp = r.has_pairs ? r.pairs : Keys{};
      if (gotp != wantp)
      {
        ++g_oracle;
        std::cout << "ORACLE pairs idx=" << id << " tmpl=" << th << " expected=" << enc_keys(wantp) << " got=" << enc_keys(gotp) << '\n';
      }
    }
    else { ++g_stats["e2e_pairs_oracle_skipped"]; }
    if (any_named) { ++g_stats["e2e_named_statements"]; }
    if (t->logj) { ++g_stats["e2e_logj_statements"]; }
    if (json.find('\n') + 1 != json.size()) { ++g_stats["e2e_json_multi_line"]; }
  }
};

static void print_stats()
{
  std::cout << "STATS";
  for (auto const& kv : g_stats) { std::cout << ' ' << kv.first << '=' << kv.second; }
  std::cout << " oracle_hits=" << g_oracle << '\n';
}

static void run_e2e(uint64_t seed, unsigned trials, std::string const& dir)
{
  build_table();
  E2E e;
  e.init(dir);
  Rng r(seed);
  std::vector<int> ids;
  for (auto const& t : g_tpls) { ids.push_back(t.id); }
  // phase 1: every template once with plain values and once with generated values, both option settings
  for (int opt = 1; opt >= 0; --opt)
  {
    e.set_san(opt == 1);
    e.cache_clear();
    for (int id : ids)
    {
      V v{};
      v.s[0] = "v0";
      v.s[1] = "v1";
      v.s[2] = "v2";
      v.s[3] = "v3";
      for (int k = 0; k < 10; ++k) { v.i[k] = k + 1; }
      v.d[0] = 1.5;
      v.d[1] = -2.25;
      e.log(id, v);
      e.log(id, random_v(r));
    }
    e.cache_dump();
  }
  // phase 2: every order of first sightings of three templates
  for (unsigned tr = 0; tr < trials; ++tr)
  {
    e.set_san(r.chance(70));
    int tri[3];
    // bias towards templates that strip to the same positional string (0/22/27, 1/39/10/11, …)
    static int const collide[][3] = {{0, 22, 27}, {1, 39, 10}, {1, 11, 13}, {0, 4, 34}, {21, 0, 28}, {9, 10, 13}, {51, 52, 53}, {1, 40, 39}};
    if (r.chance(40))
    {
      auto const& c = collide[r.below(sizeof collide / sizeof *collide)];
      tri[0] = c[0];
      tri[1] = c[1];
      tri[2] = c[2];
    }
    else
    {
      tri[0] = ids[r.below(ids.size())];
      do { tri[1] = ids[r.below(ids.size())]; } while (tri[1] == tri[0]);
      do { tri[2] = ids[r.below(ids.size())]; } while (tri[2] == tri[0] || tri[2] == tri[1]);
    }
    static int const perms[6][3] = {{0, 1, 2}, {0, 2, 1}, {1, 0, 2}, {1, 2, 0}, {2, 0, 1}, {2, 1, 0}};
    for (auto const& p : perms)
    {
      e.cache_clear();
      int const seq[9] = {p[0], p[1], p[0], p[2], p[1], p[2], p[0], p[1], p[2]};
      unsigned const n = 5 + static_cast<unsigned>(r.below(5));
      for (unsigned k = 0; k < n; ++k) { e.log(tri[seq[k]], random_v(r)); }
      e.cache_dump();
      ++g_stats["e2e_first_sighting_orders"];
    }
    ++g_stats["e2e_triples"];
  }
  std::remove(e.json_path.c_str());
}

// ------------------------------------------------------------------------------------------------ fault stream
static int const FAULT_IDS[] = {0, 1, 2, 6, 15, 16, 37, 39, 40, 51, 52, 53}; // named templates whose first argument is a string
static char const* PLAIN[] = {"x", "hello world", "v1", "0123456789abcdef", "Zz_9", "a b c"};

static V fault_v(Rng& r, std::string const& marker)
{
  V v{};
  v.s[0] = marker;
  for (int k = 1; k < 4; ++k) { v.s[k] = PLAIN[r.below(sizeof PLAIN / sizeof *PLAIN)]; }
  for (auto& i : v.i) { i = static_cast<int>(r.below(100000)) - 50000; }
  for (auto& d : v.d) { d = DVALS[r.below(6)]; }
  return v;
}
static FaultPlan random_fault(Rng& r)
{
  switch (r.below(8))
  {
  case 0: return FaultPlan{'g', 0};
  case 1: return FaultPlan{'g', 1 + static_cast<size_t>(r.below(3))};
  case 2:
  case 3: return FaultPlan{'g', static_cast<size_t>(r.below(90))};
  case 4: return FaultPlan{'g', static_cast<size_t>(r.below(260))};
  case 5: return FaultPlan{'g', 1000000};
  default: return FaultPlan{'w', 0};
  }
}
static void run_fault_case(E2E& e, Rng& r, std::string const& dir, unsigned cid, std::vector<FaultPlan> const& plans)
{
  e.jf_begin(dir, std::to_string(cid));
  for (size_t k = 0; k < plans.size(); ++k)
  {
    int const id = FAULT_IDS[r.below(sizeof FAULT_IDS / sizeof *FAULT_IDS)];
    e.jlog(id, fault_v(r, "mk" + std::to_string(cid) + "s" + std::to_string(k + 1) + "e"), plans[k]);
  }
  e.jf_end();
}
static void run_faults(uint64_t seed, unsigned ncases, std::string const& dir)
{
  build_table();
  E2E e;
  e.init(dir);
  e.set_san(true);
  Rng r(seed ^ 0xfa017ull);
  unsigned cid = 0;
  FaultPlan const ok{'o', 0};
  // directed: every kind of fault at the first / a middle / two consecutive positions
  FaultPlan const kinds[] = {{'g', 0}, {'g', 1}, {'g', 17}, {'g', 64}, {'g', 1000000}, {'w', 0}};
  for (auto const& k : kinds)
  {
    run_fault_case(e, r, dir, cid++, {ok, k, ok, ok});
    run_fault_case(e, r, dir, cid++, {k, ok, ok, ok});
    for (auto const& k2 : kinds)
    {
      if (r.chance(50)) { run_fault_case(e, r, dir, cid++, {ok, k, k2, ok, ok}); }
    }
  }
  run_fault_case(e, r, dir, cid++, {ok, ok, ok, ok});
  for (unsigned c = 0; c < ncases; ++c)
  {
    unsigned const n = 4 + static_cast<unsigned>(r.below(5));
    unsigned const nf = static_cast<unsigned>(r.below(4));
    std::vector<FaultPlan> plans(n, ok);
    for (unsigned f = 0; f < nf; ++f) { plans[r.below(n)] = random_fault(r); }
    run_fault_case(e, r, dir, cid++, plans);
  }
  std::remove(e.json_path.c_str());
  std::remove(e.fj_path.c_str());
}

static int run_replay(std::string const& file, std::string const& dir)
{
  std::ifstream in(file);
  std::string line;
  std::unique_ptr<E2E> e;
  while (std::getline(in, line))
  {
    auto const arrow = line.find(" => ");
    if (arrow != std::string::npos) { line = line.substr(0, arrow); }
    auto w = split_ws(line);
    if (w.empty() || w[0][0] == '#') { continue; }
    if (w[0] == "scan" && w.size() >= 2)
    {
      std::string const t = unhex(w[1]);
      if (w.size() >= 3 && w[2] != "-" )
      {
        auto ps = dec_pieces(w[2]);
        if (ps) { scan_one(t, &*ps); }
        else { scan_one(t, nullptr); }
      }
      else
      {
        auto ps = ref_parse(t);
        if (ps) { scan_one(t, &*ps); }
        else { scan_one(t, nullptr); }
      }
      continue;
    }
    if (w[0] == "e2e-init")
    {
      if (!e)
      {
        build_table();
        e = std::make_unique<E2E>();
        e->init(dir);
      }
      continue;
    }
    if (!e) { continue; }
    if (w[0] == "san" && w.size() >= 2) { e->set_san(w[1] == "1"); }
    else if (w[0] == "cache-clear") { e->cache_clear(); }
    else if (w[0] == "cache-dump") { e->cache_dump(); }
    else if (w[0] == "log" && w.size() >= 3) { e->log(std::atoi(w[1].c_str()), dec_v(w[2])); }
    else if (w[0] == "jf-begin") { e->jf_begin(dir, w.size() >= 2 ? w[1] : std::string{"0"}); }
    else if (w[0] == "jf-end") { e->jf_end(); }
    else if (w[0] == "jlog" && w.size() >= 4)
    {
      FaultPlan p;
      if (parse_plan(w[3], p)) { e->jlog(std::atoi(w[1].c_str()), dec_v(w[2]), p); }
    }
  }
  if (e) { std::remove(e->json_path.c_str()); }
  if (e && !e->fj_path.empty()) { std::remove(e->fj_path.c_str()); }
  return 0;
}

int main(int argc, char** argv)
{
  std::ios::sync_with_stdio(false);
  std::string const mode = argc >= 2 ? argv[1] : "";
  if (mode == "scan" && argc >= 4) { run_scan(std::stoull(argv[2]), std::atoi(argv[3])); }
  else if (mode == "e2e" && argc >= 5) { run_e2e(std::stoull(argv[2]), static_cast<unsigned>(std::stoul(argv[3])), argv[4]); }
  else if (mode == "faults" && argc >= 5) { run_faults(std::stoull(argv[2]), static_cast<unsigned>(std::stoul(argv[3])), argv[4]); }
  else if (mode == "replay" && argc >= 4) { run_replay(argv[2], argv[3]); }
  else
  {
    std::cerr << "usage: h3_named scan <seed> <tier> | e2e <seed> <trials> <dir> | faults <seed> <cases> <dir> | replay <file> <dir>\n";
    return 2;
  }
  print_stats();
  std::cout.flush();
  return g_oracle ? 3 : 0;
}
